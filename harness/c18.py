"""C18 — re-typing elements (polyhedron, prism, reorientation) keeps shape."""
import itertools
import json
import re
import subprocess
import sys
from fractions import Fraction
from pathlib import Path

sys.path.insert(0, str(Path(__file__).resolve().parent))
sys.path.insert(0, str(Path(__file__).resolve().parent.parent / 'translate'))
import lib  # noqa
import c11_kernels  # noqa
import c18_tables  # noqa
import c11_gen as G  # noqa

PID = 'C18'
PROPS = ['C18/Props.v', 'C18/PropsSlots.v', 'C18/PropsDegen.v']

HEADER = '''From Coq Require Import ZArith QArith List String Bool.
Import ListNotations.
From FV.C11 Require Import Model Entry Check.
From FV.C18 Require Import Model Check SlotBase SlotModel.
From FV.C18.gen Require Import Tables.
From FV.C11.gen Require Import Kernels.
Open Scope string_scope. Open Scope Q_scope.
Set Printing Width 100000.
'''


def zlit(n):
    return f'({int(n)})%Z'


def nlit(n):
    return f'{int(n)}%nat'


def qz(n):
    return f'({int(n)}#1)'


def qf(fr):
    fr = Fraction(fr)
    return f'({fr.numerator}#{fr.denominator})'


def hexq(s):
    return Fraction(float.fromhex(s))


def zlist(xs):
    return lib.coq_list([zlit(x) for x in xs])


def nlist(xs):
    return lib.coq_list([nlit(x) for x in xs])


def rows_lit(ids, conn):
    return lib.coq_list([f'({zlit(i)}, {zlist(c)})' for i, c in zip(ids, conn)])


def failing(out, tag):
    t = lib.parse_marked(out).get(tag)
    if t is None:
        return None
    t = t.split(':')[0]
    return [int(x) for x in re.findall(r'\d+', t)]


def run_impl(ctx, tasks, name):
    spec = {'out': str(ctx.scratch / f'impl_{name}.json'), 'tasks': tasks}
    r = subprocess.run([lib.PY, str(lib.VERIF / 'harness' / 'c18_impl.py')],
                       input=json.dumps(spec), text=True, capture_output=True,
                       env=lib.impl_env(), timeout=1500)
    if r.returncode != 0:
        raise RuntimeError('impl runner failed: ' + r.stderr[-2000:])
    return {x['id']: x for x in json.loads(Path(spec['out']).read_text())}


def coq_cases(ctx, name, defs, groups):
    """groups: {tag: [(id, bool_expr)]}; returns {tag: failing ids} or None"""
    lines = [HEADER] + defs
    for tag, items in groups.items():
        lines.append(f'Definition cases_{tag} : list (nat * bool) := [' +
                     ';\n'.join(f'({i}%nat, {e})' for i, e in items) + '].')
    for tag in groups:
        lines.append(f'Goal True. idtac "@@ {tag}". Abort.')
        lines.append(f'Eval vm_compute in map fst (filter (fun c => negb (snd c)) cases_{tag}).')
    rc, out, err = ctx.coq_eval(name, '\n'.join(lines) + '\n', timeout=900)
    if rc != 0:
        ctx.log(f'{name}.v failed to compile:', err[-800:])
        return None
    return {tag: failing(out, tag) or [] for tag in groups}


def mesh_of(m):
    d = {k: m[k] for k in ('node_ids', 'coords', 'blocks')}
    if 'coord_dtype' in m.get('meta', {}):
        d['coord_dtype'] = m['meta']['coord_dtype']
    return d


def labelling(m):
    return {k: m['meta'][k] for k in ('matrix', 't', 'jitter', 'node_ids', 'elem_ids', 'shuffle_nodes',
                                      'shuffle_elems', 'extra_nodes', 'mixed')}


def ascending(xs):
    return list(xs) == sorted(xs)


# --------------------------------------------------------------- to_polyhedron
def big(ctx, op):
    """thorough-size streams: thorough tier, or the translator could not read a region this
    operation depends on (tie degraded from T to H: baseline model + widened correspondence)"""
    return ctx.tier != 'quick' or bool(ctx.notes.get('widened', {}).get(op))


def poly_meshes(ctx):
    rng = ctx.rng
    n = 10 if big(ctx, 'poly') else 2
    out = []
    kind_sets = [['tet'], ['pyr'], ['prism'], ['hex'], ['hex', 'prism', 'pyr', 'tet'], ['pyr', 'tet']]
    for rep in range(n):
        for ks in kind_sets:
            o = G.random_opts(rng)
            o['shuffle_elems'] = False          # mixed-block id order is C11's subject
            if rep % 2 == 0:
                o['node_ids'] = rng.choice(['seq', 'sparse'])
                o['shuffle_nodes'] = rep % 4 == 0
            out.append(G.solid_mesh(rng, ks, o))
    # dense, almost sorted node / element id patterns
    for pat in G.PATTERN_MODES:
        for ks in (['pyr', 'tet'], ['hex', 'prism']):
            o = G.random_opts(rng)
            o['node_ids'] = pat
            o['extra_nodes'] = 0
            o['elem_ids'] = rng.choice(['seq', pat])
            o['shuffle_elems'] = False
            out.append(G.solid_mesh(rng, [rng.choice(ks)], o))
    # mixed meshes whose per-type blocks store their elements with non-ascending ids
    for pat in ['unsorted', 'unsorted', 'reversed', 'adjacent_swap', 'one_moved', 'denseA_ends']:
        o = G.random_opts(rng)
        o['elem_ids'] = pat
        o['shuffle_elems'] = pat == 'unsorted'
        out.append(G.solid_mesh(rng, rng.choice([['hex', 'prism', 'tet'], ['prism', 'pyr', 'tet'],
                                                 ['hex', 'prism', 'pyr', 'tet']]), o, dims=(2, 2, 1)))
    # integer coordinate arrays; node / element ids just below 2**53
    for ks, dt, ids in ((['hex', 'tet'], 'int64', 'unsorted'), (['prism', 'pyr'], 'int32', 'sparse'),
                        (['tet'], 'float64', 'huge'), (['hex', 'pyr'], 'float64', 'huge')):
        o = G.random_opts(rng, jitter_ok=False)
        o['node_ids'] = ids
        o['elem_ids'] = 'huge' if ids == 'huge' else o['elem_ids']
        o['shuffle_elems'] = False
        m = G.solid_mesh(rng, ks, o, dims=(2, 1, 1))
        m['meta']['coord_dtype'] = dt
        out.append(m)
    # node ids beyond int32
    for ks in (['tet'], ['hex']):
        o = G.random_opts(rng)
        o['node_ids'] = 'large'
        o['shuffle_elems'] = False
        out.append(G.solid_mesh(rng, ks, o, dims=(1, 1, 1)))
    return out


def check_polyhedron(ctx, model_ok):
    meshes = poly_meshes(ctx)
    for f in sorted((lib.VERIF / 'corpus' / PID).glob('poly_*.json')):
        c = json.loads(f.read_text())
        meshes.insert(0, c)
    tasks = [{'id': i, 'kind': 'poly', 'mesh': mesh_of(m)} for i, m in enumerate(meshes)]
    res = run_impl(ctx, tasks, 'poly')
    defs, g_corr, g_spec, g_vol = [], [], [], []
    n_bad = 0
    for i, m in enumerate(meshes):
        r = res[i]
        meta = m['meta']
        kinds = sorted({b[0] for b in m['blocks']})
        large = max(m['node_ids']) >= 2 ** 31
        asc = ascending(m['node_ids'])
        ctx.count('poly:kinds:' + '+'.join(kinds))
        ctx.count('poly:node_ids:' + meta['node_ids'] + ('/shuffled' if meta['shuffle_nodes'] else ''))
        ctx.count('poly:node ids ascending in storage' if asc else 'poly:node ids NOT ascending in storage')
        if len(m['blocks']) > 1:
            ctx.count('poly:mixed, block ids ascending in storage' if all(ascending(b[1]) for b in m['blocks'])
                      else 'poly:mixed, some block ids NOT ascending in storage')
        ctx.case(['poly', m['node_ids'], m['coords'], m['blocks']],
                 sample={'op': 'to_polyhedron', 'kinds': kinds, 'labelling': labelling(m),
                         'n_nodes': len(m['node_ids']), 'first_faces': (r.get('faces') or [None])[0]})
        if 'faces' not in r:
            n_bad += 1
            ctx.violation('correspondence', {'op': 'to_polyhedron', 'mesh': mesh_of(m)},
                          'to_polyhedron returns', {k: r.get(k) for k in ('error', 'msg', 'crash')},
                          'correspondence C18 to_polyhedron', found_input=True,
                          signature={'kind': 'polyhedron-crash', 'kinds': '+'.join(kinds)})
            continue
        defs.append(f'Definition nids_{i} : list Z := {zlist(m["node_ids"])}.')
        defs.append(f'Definition coords_{i} : list (v3 Q) := ' +
                    lib.coq_list(['(' + ', '.join(qz(x) for x in c) + ')' for c in m['coords']]) + '.')
        elems = lib.coq_list([f'(({lib.coq_str(t)}, {zlist(c)}), {nlist(f)})'
                              for t, c, f in zip(r['types'], r['data'], r['faces'])])
        defs.append(f'Definition elems_{i} : list ((string * list Z) * list nat) := {elems}.')
        g_corr.append((i, f'poly_mesh_ok poly_kernels poly_casts_int32 nids_{i} elems_{i}'))
        g_spec.append((i, f'poly_mesh_ok (spec_kernels poly_kernels) [] nids_{i} elems_{i}'))
        for mode, cen in (('linear', 'false'), ('centroid', 'true')):
            pv = r['poly_vol_' + mode]
            if 'values' in pv:
                ev = lib.coq_list([f'({nlist(f)}, {qf(hexq(v))})' for f, v in zip(r['faces'], pv['values'])])
                g_vol.append((2 * i + (1 if cen == 'true' else 0),
                              # centroid kernel: float32 face centroid (k = 3: thirds are rounded)
                              f'poly_vol_ok {"(1#1024)" if cen == "true" else "(1#67108864)"} '
                              f'(1#1048576) polyhedron_local_origin {cen} coords_{i} {ev}'))
        # ---- property oracle on the implementation's own numbers
        problems = []
        if r['poly_ids'] != r['ids'] or r['poly_data'] != r['data'] or r['poly_type'] != 'polyhedron':
            problems.append('ids / connectivity of the polyhedral mesh differ from the source mesh')
        pos = {nid: k for k, nid in enumerate(m['node_ids'])}
        bad_types = set()
        for t, conn, f in zip(r['types'], r['data'], r['faces']):
            own = {pos[c] for c in conn}
            idx, L, faces = [], 1, []
            for _ in range(f[0]):
                k = f[L]
                faces.append(f[L + 1:L + 1 + k])
                L += 1 + k
            used = {x for fc in faces for x in fc}
            edges = [(fc[j - 1], fc[j]) for fc in faces for j in range(len(fc))]
            closed = all(edges.count(e) == 1 and edges.count((e[1], e[0])) == 1 for e in edges)
            if used != own or not closed:
                bad_types.add(t)
        for mode in ('linear', 'centroid'):
            pv, ev = r['poly_vol_' + mode], r['elem_vol_' + mode]
            if 'values' in pv and 'values' in ev and not meta['jitter']:
                for t, a, b in zip(r['types'], pv['values'], ev['values']):
                    a, b = hexq(a), hexq(b)
                    if abs(a - b) > Fraction(1, 2 ** 16) * max(1, abs(b)):
                        bad_types.add(t)
            elif 'values' in pv and 'values' in ev and mode == 'centroid':
                for t, a, b in zip(r['types'], pv['values'], ev['values']):
                    a, b = hexq(a), hexq(b)
                    if abs(a - b) > Fraction(1, 2 ** 14) * max(1, abs(b)):
                        bad_types.add(t)
        for t in sorted(bad_types):
            problems.append(f'{t}: face list is not a closed list over the element\'s own nodes '
                            f'with the element\'s volume')
        ctx.notes['oracle_evaluations'] = ctx.notes.get('oracle_evaluations', 0) + len(r['faces'])
        if problems:
            n_bad += 1
            for t in sorted(bad_types) or ['mesh']:
                unsorted_block = len(m['blocks']) > 1 and not all(ascending(b[1]) for b in m['blocks'])
                cause = 'int32-cast' if large else ('no-argsort' if not asc else 'other')
                if unsorted_block:
                    cause += '|mixed-block-ids-not-ascending-in-storage'
                ctx.violation(
                    'impl-violation', {'op': 'to_polyhedron', 'mesh': mesh_of(m), 'labelling': labelling(m)},
                    'closed outward face list over the element\'s own nodes, same volume',
                    {'problems': problems, 'faces': r['faces'][:4],
                     'poly_vol_centroid': r['poly_vol_centroid'], 'elem_vol_centroid': r['elem_vol_centroid']},
                    'C18_poly_positions / C18_poly_volume_* (oracle on implementation)', found_input=True,
                    signature={'kind': 'polyhedron-positions', 'type': t,
                               'node_ids_ascending_in_storage': asc, 'node_ids_beyond_int32': large,
                               'cause': cause},
                    what=f'to_polyhedron: {t} cell gets faces over the wrong nodes ({cause})')
    bad = {'corr': [], 'spec': [], 'vol': []}
    if model_ok and g_corr:
        out = coq_cases(ctx, 'PolyCases', defs, {'corr': g_corr, 'spec': g_spec, 'vol': g_vol})
        if out is None:
            ctx.violation('tie-broken', {'stage': 'PolyCases.v'}, 'case file compiles', 'does not',
                          'correspondence C18 to_polyhedron', found_input=False,
                          signature={'kind': 'case-file', 'file': 'PolyCases'})
            bad['corr'] = [i for i, _ in g_corr]
        else:
            bad = out
    for i in bad['corr'][:20]:
        m = meshes[i]
        ctx.violation('correspondence', {'op': 'to_polyhedron', 'mesh': mesh_of(m), 'labelling': labelling(m)},
                      'face data equal to the model built from the translated kernels',
                      {'faces': res[i].get('faces', [])[:4]}, 'correspondence C18 elem_to_polyhedron',
                      found_input=True,
                      signature={'kind': 'polyhedron-correspondence',
                                 'kinds': '+'.join(sorted({b[0] for b in m['blocks']}))},
                      what='to_polyhedron face data differ from the model')
    for j in bad['vol'][:20]:
        m = meshes[j // 2]
        ctx.violation('correspondence', {'op': 'polyhedron volume', 'mesh': mesh_of(m),
                                         'mode': 'centroid' if j % 2 else 'linear',
                                         'faces': res[j // 2].get('faces')},
                      'polyhedron volume equal to the model on the same face data',
                      res[j // 2].get('poly_vol_centroid' if j % 2 else 'poly_vol_linear'),
                      'correspondence C18 poly_volume', found_input=True,
                      signature={'kind': 'polyhedron-volume-correspondence', 'mode': j % 2})
    ctx.notes['polyhedron'] = {'meshes': len(meshes), 'model_disagreements': len(bad['corr']),
                               'volume_disagreements': len(bad['vol']),
                               'differs_from_specification': len(bad['spec']),
                               'oracle_failures': n_bad}
    return len(meshes), len(bad['corr']) + len(bad['vol'])


# ------------------------------------------------------------ resolve_degeneracy
COLLAPSE = [((0, 1), (4, 5)), ((1, 2), (5, 6)), ((2, 3), (6, 7)), ((3, 0), (7, 4))]


def degen_mesh(rng, opts, with_prisms, bad_pattern=False, others=()):
    nx = rng.randint(2, 4)
    pts, index, elems = [], {}, []

    def pid(p):
        if p not in index:
            index[p] = len(pts)
            pts.append(p)
        return index[p]
    for i in range(nx):
        kind = rng.choice(['hex', 'w0', 'w1', 'w2', 'w3'] + (['prism'] if with_prisms else [])
                          + (list(others) if others else []))
        corners = [(i + c[0], c[1], c[2]) for c in G.HEXV]
        if kind == 'hex':
            elems.append(('hex', [pid(c) for c in corners], None))
        elif kind in ('prism', 'tet', 'pyr'):
            for ty, cs in G.cell_elements(kind):
                elems.append((ty, [pid((i + c[0], c[1], c[2])) for c in cs], None))
        else:
            (a, b), (c, d) = COLLAPSE[int(kind[1])]
            cs = list(corners)
            cs[b] = cs[a]
            if not bad_pattern:
                cs[d] = cs[c]
            elems.append(('hex', [pid(c) for c in cs], None))
    if not any(e[0] == 'hex' for e in elems):
        elems.append(('hex', [pid((nx + c[0], c[1], c[2])) for c in G.HEXV], None))
    return G.finalize(rng, pts, elems, opts)


def check_degeneracy(ctx, model_ok):
    rng = ctx.rng
    n = 80 if big(ctx, 'degen') else 12
    meshes = []
    for k in range(n):
        o = G.random_opts(rng)
        o['shuffle_elems'] = rng.random() < 0.5
        meshes.append(degen_mesh(rng, o, with_prisms=k % 2 == 0, bad_pattern=(k % 6 == 5)))
    # mixed meshes: hex (some degenerate) + tet + pyramid (+ prism): other types must survive
    for k in range(20 if big(ctx, 'degen') else 4):
        o = G.random_opts(rng)
        o['shuffle_elems'] = k % 2 == 1
        m = degen_mesh(rng, o, with_prisms=k % 2 == 0, others=[('tet', 'pyr'), ('tet',), ('pyr',)][k % 3])
        if not any(len(set(c)) < 8 for b in m['blocks'] if b[0] == 'hex' for c in b[2]):
            pass
        meshes.append(m)
    # single-type hex meshes whose element ids are NOT ascending in storage
    for pat in list(G.PATTERN_MODES) + ['unsorted', 'unsorted']:
        o = G.random_opts(rng)
        o['elem_ids'] = pat
        o['shuffle_elems'] = True
        meshes.append(degen_mesh(rng, o, with_prisms=False))
    tasks = [{'id': i, 'kind': 'degen', 'mesh': mesh_of(m)} for i, m in enumerate(meshes)]
    res = run_impl(ctx, tasks, 'degen')
    items, n_bad = [], 0
    for i, m in enumerate(meshes):
        r = res[i]
        blocks = {b[0]: b for b in m['blocks']}
        hexes = rows_lit(blocks['hex'][1], blocks['hex'][2])
        prisms = rows_lit(*blocks['prism'][1:]) if 'prism' in blocks else '[]'
        n_deg = sum(1 for c in blocks['hex'][2] if len(set(c)) < 8)
        ctx.count('degen:degenerate hexes:%d' % min(n_deg, 3))
        ctx.count('degen:with prism block' if 'prism' in blocks else 'degen:hex only')
        other_types = sorted(t for t in blocks if t not in ('hex', 'prism'))
        if other_types:
            ctx.count('degen:other types present:' + '+'.join(other_types))
        ctx.case(['degen', m['node_ids'], m['coords'], m['blocks']],
                 sample={'op': 'resolve_degeneracy', 'blocks': [[b[0], b[1]] for b in m['blocks']],
                         'after': [[b[0], b[1]] for b in r.get('after_blocks', [])] or r.get('error')})
        if 'crash' in r:
            n_bad += 1
            ctx.violation('correspondence', {'op': 'resolve_degeneracy', 'mesh': mesh_of(m)}, 'runs', r,
                          'correspondence C18 resolve_degeneracy', found_input=True,
                          signature={'kind': 'degeneracy-crash'})
            continue
        if r.get('error') == 'ValueError':
            impl = 'UnknownPattern'
            ctx.count('degen:outcome:ValueError')
        else:
            ab = {b[0]: b for b in r['after_blocks']}
            h = rows_lit(*ab['hex'][1:]) if 'hex' in ab else '[]'
            p = rows_lit(*ab['prism'][1:]) if 'prism' in ab else '[]'
            impl = f'(Ok ({h}, {p}))'
            ctx.count('degen:outcome:ok')
        items.append((i, f'degen_ok degeneracy_patterns {hexes} {prisms} {impl}'))
        if 'after_blocks' in r:
            ab = {b[0]: b for b in r['after_blocks']}
            src = lib.coq_list([f'({lib.coq_str(t)}, {rows_lit(*blocks[t][1:])})' for t in other_types])
            got = lib.coq_list([f'({lib.coq_str(t)}, {rows_lit(*ab[t][1:])})'
                                for t in sorted(ab) if t not in ('hex', 'prism')])
            items.append((1000 + i, f'others_ok {src} {got}'))
        # ---- property oracle
        if 'after_blocks' in r:
            problems = []
            before = {e: (t, c) for t, ids, conn in r['before_blocks'] for e, c in zip(ids, conn)}
            after = {e: (t, c) for t, ids, conn in r['after_blocks'] for e, c in zip(ids, conn)}
            if sorted(before) != sorted(after) or \
                    sum(len(b[1]) for b in r['after_blocks']) != len(before):
                problems.append('element ids changed')
            for e, (t, c) in before.items():
                if e not in after:
                    continue
                t2, c2 = after[e]
                deg = t == 'hex' and len(set(c)) < 8
                if not deg and (t2 != t or c2 != c):
                    problems.append(f'non-degenerate element {e} changed')
                if deg and (t2 != 'prism' or set(c2) != set(c) or len(c2) != 6):
                    problems.append(f'degenerate hex {e}: type {t2}, nodes {c2}')
            for mode in ('centroid',) + (() if m['meta']['jitter'] else ('linear',)):
                vb, va = r['before_' + mode], r['after_' + mode]
                if 'values' in vb and 'values' in va:
                    b = dict(zip(vb['ids'], map(hexq, vb['values'])))
                    a = dict(zip(va['ids'], map(hexq, va['values'])))
                    for e in b:
                        if e in a and abs(a[e] - b[e]) > Fraction(1, 2 ** 14) * max(1, abs(b[e])):
                            problems.append(f'volume of element {e} changed ({mode}): '
                                            f'{float(b[e])} -> {float(a[e])}')
                else:
                    problems.append(f'volumes not computable ({mode}): {vb.get("error")} {va.get("error")}')
            if not r.get('nodes_same'):
                problems.append('node table changed')
            # the RETURNED object, freshly evaluated, must give each id its own volume
            obj_problems = []
            vb = r['before_centroid']
            for key in ('result_obj_centroid', 'result_obj_metrics'):
                va = r.get(key, {})
                if 'values' in vb and 'values' in va:
                    b = dict(zip(vb['ids'], map(hexq, vb['values'])))
                    a = dict(zip(va['ids'], map(hexq, va['values'])))
                    for e in b:
                        if e in a and abs(a[e] - b[e]) > Fraction(1, 2 ** 14) * max(1, abs(b[e])):
                            obj_problems.append(f'{key}: element {e}: {float(b[e])} -> {float(a[e])}')
                elif 'values' in vb and 'NotImplementedError' not in str(va.get('error')):
                    obj_problems.append(f'{key}: {va.get("error")}')
            if obj_problems:
                n_bad += 1
                src_blocks = [b[0] for b in m['blocks']]
                hex_ids = blocks['hex'][1]
                ctx.violation('impl-violation', {'op': 'resolve_degeneracy', 'mesh': mesh_of(m),
                                                 'labelling': labelling(m)},
                              'volumes evaluated on the returned object: each element id keeps its volume',
                              obj_problems[:6],
                              'C18_degenerate_hex_is_prism + C18_stale_id_index_refuted (oracle on the returned object)',
                              found_input=True,
                              signature={'kind': 'degeneracy-result-object',
                                         'source_single_type_hex': src_blocks == ['hex'],
                                         'element_ids_ascending_in_storage': ascending(hex_ids)},
                              what='resolve_degeneracy: volumes queried on the returned mesh are attached '
                                   'to the wrong element ids: ' + obj_problems[0])
            ctx.notes['oracle_evaluations'] = ctx.notes.get('oracle_evaluations', 0) + len(before)
            if problems:
                n_bad += 1
                ctx.violation('impl-violation', {'op': 'resolve_degeneracy', 'mesh': mesh_of(m),
                                                 'labelling': labelling(m)},
                              'ids, node sets and volumes kept; other elements untouched', problems[:6],
                              'C18_degenerate_hex_is_prism / C18_degenerate_same_nodes (oracle on implementation)',
                              found_input=True, signature={'kind': 'degeneracy', 'problem': problems[0][:40]},
                              what='resolve_degeneracy: ' + problems[0])
    bad = []
    if model_ok and items:
        out = coq_cases(ctx, 'DegenCases', [], {'corr': items})
        if out is None:
            ctx.violation('tie-broken', {'stage': 'DegenCases.v'}, 'case file compiles', 'does not',
                          'correspondence C18 resolve_degeneracy', found_input=False,
                          signature={'kind': 'case-file', 'file': 'DegenCases'})
            bad = [i for i, _ in items]
        else:
            bad = out['corr']
    for i in bad[:20]:
        m = meshes[i % 1000]
        i = i % 1000
        ctx.violation('correspondence', {'op': 'resolve_degeneracy', 'mesh': mesh_of(m)},
                      'blocks equal to the model built from the translated patterns',
                      {k: res[i].get(k) for k in ('after_blocks', 'error')},
                      'correspondence C18 resolve_degeneracy', found_input=True,
                      signature={'kind': 'degeneracy-correspondence'},
                      what='resolve_degeneracy output differs from the model')
    ctx.notes['degeneracy'] = {'meshes': len(meshes), 'model_disagreements': len(bad), 'oracle_failures': n_bad}
    return len(meshes), len(bad)


# -------------------------------------------------------- make_elements_positive
SCALES = [1.0, 2.0 ** -10, 1.0, 1e-3, 1024.0]


def check_positive(ctx, model_ok):
    rng = ctx.rng
    meshes = []
    base_opts = G.random_opts(rng, jitter_ok=False)
    base_opts['matrix'] = G.MATRICES[0]
    subsets = list(itertools.product([0, 1], repeat=6))
    if not big(ctx, 'positive'):
        subsets = [subsets[0], subsets[-1]] + rng.sample(subsets[1:-1], 14)
    for sub in subsets:
        o = dict(G.random_opts(rng, jitter_ok=False))
        o['matrix'] = rng.choice([x for x in G.MATRICES if G.det3(x[1]) > 0])
        m = G.solid_mesh(rng, ['tet'], o, dims=(1, 1, 1))
        # invert the chosen tets (swap two nodes) in block storage order
        for k, inv in enumerate(sub):
            if inv:
                c = m['blocks'][0][2][k]
                c[1], c[2] = c[2], c[1]
        m['meta']['inverted'] = list(sub)
        meshes.append(m)
    for k in range(30 if big(ctx, 'positive') else 4):
        o = G.random_opts(rng)
        m = G.solid_mesh(rng, ['tet'], o)
        inv = []
        for c in m['blocks'][0][2]:
            f = rng.random() < 0.4
            inv.append(int(f))
            if f:
                j, l = rng.sample(range(4), 2)
                c[j], c[l] = c[l], c[j]
        m['meta']['inverted'] = inv
        meshes.append(m)
    # length scale: volumes far below / above 1 (a sign test must not carry an absolute tolerance)
    for k, m in enumerate(meshes):
        sc = SCALES[k % len(SCALES)] if k >= 2 else 1.0
        m['meta']['scale'] = sc
        if sc != 1.0:
            m['coords'] = [[float(x) * sc for x in c] for c in m['coords']]
    tasks = [{'id': i, 'kind': 'positive', 'mesh': mesh_of(m)} for i, m in enumerate(meshes)]
    res = run_impl(ctx, tasks, 'positive')
    items, n_bad = [], 0
    for i, m in enumerate(meshes):
        r = res[i]
        ctx.count('positive:inverted tets:%d' % min(sum(m['meta']['inverted']), 6))
        ctx.count('positive:length scale:%g' % m['meta']['scale'])
        ctx.case(['positive', m['node_ids'], m['coords'], m['blocks']],
                 sample={'op': 'make_elements_positive', 'inverted': m['meta']['inverted'],
                         'before': r.get('before', {}).get('values', [])[:3]})
        if 'after_blocks' not in r or 'values' not in r.get('before', {}):
            n_bad += 1
            ctx.violation('correspondence', {'op': 'make_elements_positive', 'mesh': mesh_of(m)}, 'runs',
                          {k: r.get(k) for k in ('error', 'crash', 'before')},
                          'correspondence C18 make_elements_positive', found_input=True,
                          signature={'kind': 'positive-crash'})
            continue
        b = m['blocks'][0]
        rows = lib.coq_list([f'(({zlit(e)}, {zlist(c)}), {qf(hexq(v))})'
                             for e, c, v in zip(b[1], b[2], r['before']['values'])])
        ab = r['after_blocks'][0]
        items.append((i, f'positive_ok permute_tet {rows} {rows_lit(ab[1], ab[2])}'))
        problems = []
        before = dict(zip(r['before']['ids'], map(hexq, r['before']['values'])))
        vscale = max([abs(v) for v in before.values()] + [0])
        if r.get('default_metrics_raises'):
            problems.append('after_same_object: calculate_element_metrics() still raises (negative element)')
        if 'second_error' in r:
            problems.append('second call: ' + r['second_error'])
        elif r.get('after_second_blocks') != r['after_blocks']:
            problems.append('second call: make_elements_positive is not idempotent (connectivity changed again)')
        for key in ('after', 'after_same_object', 'after_same_object_centroid', 'after_same_object_metrics',
                    'after_second'):
            if key not in r:
                continue
            if 'values' not in r[key]:
                problems.append(f'{key}: {r[key].get("error")}')
                continue
            after = dict(zip(r[key]['ids'], map(hexq, r[key]['values'])))
            for e, v in before.items():
                if after.get(e) is None or after[e] < 0 or \
                        abs(after[e] - abs(v)) > Fraction(1, 2 ** 30) * vscale:
                    problems.append(f'{key}: element {e}: volume {float(v)} -> {after.get(e) and float(after[e])}')
        for e, c, c2 in zip(b[1], b[2], ab[2]):
            if sorted(c) != sorted(c2):
                problems.append(f'element {e}: nodes changed')
        if ab[1] != b[1]:
            problems.append('element ids changed')
        ctx.notes['oracle_evaluations'] = ctx.notes.get('oracle_evaluations', 0) + len(before)
        if problems:
            n_bad += 1
        if problems and n_bad <= 8:
            ctx.violation('impl-violation', {'op': 'make_elements_positive', 'mesh': mesh_of(m),
                                             'inverted': m['meta']['inverted']},
                          'same nodes, same |volume|, fresh volume >= 0', problems[:6],
                          'C18_permute_flips / C18_permute_same_nodes (oracle on implementation)',
                          found_input=True,
                          signature={'kind': 'positive', 'problem': problems[0].split(':')[0]},
                          what='make_elements_positive: ' + problems[0])
    bad = []
    if model_ok and items:
        out = coq_cases(ctx, 'PositiveCases', [], {'corr': items})
        if out is None:
            ctx.violation('tie-broken', {'stage': 'PositiveCases.v'}, 'case file compiles', 'does not',
                          'correspondence C18 make_elements_positive', found_input=False,
                          signature={'kind': 'case-file', 'file': 'PositiveCases'})
            bad = [i for i, _ in items]
        else:
            bad = out['corr']
    for i in bad[:20]:
        m = meshes[i]
        ctx.violation('correspondence', {'op': 'make_elements_positive', 'mesh': mesh_of(m)},
                      'connectivity equal to the model (permute exactly the negative rows)',
                      res[i].get('after_blocks'), 'correspondence C18 make_positive', found_input=True,
                      signature={'kind': 'positive-correspondence'})
    ctx.notes['make_positive'] = {'meshes': len(meshes), 'model_disagreements': len(bad),
                                  'oracle_failures': n_bad}
    return len(meshes), len(bad)



# ------------------------------------------ histories on one object (memo slots)
METRIC_QUERIES = [('metric', rz, ab) for rz in (False, True) for ab in (False, True)]
VOLUME_QUERIES = [('volume', mode, rz, ab) for mode in ('centroid', 'linear', 'gaussian')
                  for rz in (False, True) for ab in (False, True)]
QUERIES = METRIC_QUERIES + VOLUME_QUERIES


def exact_tet_volume(pos, conn):
    p = [[Fraction(x) for x in pos[c]] for c in conn]
    a, b, c = ([p[k][j] - p[0][j] for j in range(3)] for k in (1, 2, 3))
    return (a[0] * (b[1] * c[2] - b[2] * c[1]) - a[1] * (b[0] * c[2] - b[2] * c[0])
            + a[2] * (b[0] * c[1] - b[1] * c[0])) / 6


def op_coq(op):
    b = lambda x: 'true' if x else 'false'   # noqa
    if op[0] == 'metric':
        return f'QMetric {b(op[1])} {b(op[2])}'
    if op[0] == 'volume':
        return f'QVolume {lib.coq_str(op[1])} {b(op[2])} {b(op[3])}'
    return 'MakePositive'


def history_mesh(rng, cube, k):
    o = dict(G.random_opts(rng, jitter_ok=False))
    if cube:
        o['matrix'] = rng.choice([x for x in G.MATRICES if G.det3(x[1]) > 0])
        m = G.solid_mesh(rng, ['tet'], o, dims=(1, 1, 1))
    else:
        m = G.solid_mesh(rng, ['tet'], o)
    rows = m['blocks'][0][2]
    inv = [int(rng.random() < 0.45) for _ in rows]
    if not any(inv) and k % 5 != 4:
        inv[rng.randrange(len(inv))] = 1
    for c, f in zip(rows, inv):
        if f:
            j, l = rng.sample(range(4), 2)
            c[j], c[l] = c[l], c[j]
    m['meta']['inverted'] = inv
    sc = SCALES[k % len(SCALES)]
    m['meta']['scale'] = sc
    if sc != 1.0:
        m['coords'] = [[float(x) * sc for x in c] for c in m['coords']]
    return m


def check_history(ctx, model_ok):
    """queries with every option combination before / between / after
    make_elements_positive on ONE object: (a) model-free oracle: every answer is what
    the current connectivity gives for the requested options, every repair leaves ids
    and node sets alone and all volumes non-negative with the same absolute value;
    (b) the SlotModel state machine (translated _slot_answers) is run in Coq on the same
    history and compared step by step"""
    rng = ctx.rng
    wide = big(ctx, 'positive')
    hist = []
    for q in QUERIES:                                   # every single query before the repair
        hist.append([q, ('positive',), ('volume', 'linear', False, False), ('metric', True, False)])
    pairs = [(a, b) for a in QUERIES for b in QUERIES if a != b]
    for a, b in (pairs if wide else rng.sample(pairs, 16)):
        hist.append([a, b, ('positive',), rng.choice(QUERIES)])
    for _ in range(100 if wide else 12):
        h = [rng.choice(QUERIES + [('positive',)]) for _ in range(rng.randint(1, 6))]
        hist.append(h + [('positive',), rng.choice(QUERIES)])
    cases = [(history_mesh(rng, k % 3 != 2, k), h) for k, h in enumerate(hist)]
    for f in sorted((lib.VERIF / 'corpus' / PID).glob('history_*.json')):
        c = json.loads(f.read_text())
        cases.insert(0, (c['mesh'], [tuple(x) for x in c['ops']]))
    tasks = [{'id': i, 'kind': 'history', 'mesh': mesh_of(m), 'ops': [list(o) for o in h]}
             for i, (m, h) in enumerate(cases)]
    res = run_impl(ctx, tasks, 'history')
    defs, items, n_bad = [], [], 0
    for i, (m, h) in enumerate(cases):
        r = res[i]
        b = m['blocks'][0]
        inverted = m.get('meta', {}).get('inverted')
        ctx.count('history:length:%d' % len(h))
        ctx.count('history:queries before the first repair:%d' % min(
            3, next(k for k, o in enumerate(h) if o[0] == 'positive')))
        for o in h[:next(k for k, o in enumerate(h) if o[0] == 'positive')]:
            ctx.count('history:before repair:' + ('%s raise=%s abs=%s' % (o[0], o[-2], o[-1])))
        ctx.case(['history', m['node_ids'], m['coords'], m['blocks'], [list(o) for o in h]],
                 sample={'op': 'history', 'ops': [list(o) for o in h], 'inverted': inverted,
                         'steps': [('values' if 'values' in st else 'raise' if 'raise' in st else 'done')
                                   for st in r.get('steps', [])]})
        case = {'op': 'history', 'mesh': mesh_of(m), 'ops': [list(o) for o in h], 'inverted': inverted}
        if 'steps' not in r or len(r['steps']) != len(h):
            n_bad += 1
            ctx.violation('correspondence', case, 'runs', {k: r.get(k) for k in ('crash', 'tb')},
                          'correspondence C18 history', found_input=True, signature={'kind': 'history-crash'})
            continue
        # ---- model-free oracle
        pos = dict(zip(m['node_ids'], m['coords']))
        rows = [list(c) for c in b[2]]
        ids = list(b[1])
        vscale = max(abs(exact_tet_volume(pos, c)) for c in rows)
        problems, coq_steps = [], []
        for k, (o, st) in enumerate(zip(h, r['steps'])):
            tag = f'step {k} {list(o)}'
            signed = [exact_tet_volume(pos, c) for c in rows]
            if o[0] == 'positive':
                if 'done' not in st:
                    problems.append(f'{tag}: make_elements_positive raised {st.get("raise")}')
                    coq_steps.append('IRaised')
                    continue
                nb = st['done'][0]
                coq_steps.append(f'IDone {rows_lit(nb[1], nb[2])}')
                if nb[1] != ids or len(st['done']) != 1 or nb[0] != 'tet':
                    problems.append(f'{tag}: element ids / type changed')
                    break
                for e, c, c2, v in zip(ids, rows, nb[2], signed):
                    if sorted(c) != sorted(c2):
                        problems.append(f'{tag}: element {e}: nodes {c} -> {c2}')
                    else:
                        v2 = exact_tet_volume(pos, c2)
                        if v2 < 0:
                            problems.append(f'{tag}: element {e} still inverted: volume {float(v)} -> {float(v2)}')
                        elif v2 != abs(v):
                            problems.append(f'{tag}: element {e}: |volume| {float(abs(v))} -> {float(v2)}')
                rows = [list(c) for c in nb[2]]
                continue
            rz, ab = o[-2], o[-1]
            want_raise = rz and any(v < 0 for v in signed)
            if 'values' in st:
                got = [hexq(x) for x in st['values']]
                coq_steps.append('IValues ' + lib.coq_list([qf(x) for x in got]))
                if want_raise:
                    problems.append(f'{tag}: answered although an element is inverted and raise was asked')
                want = [abs(v) for v in signed] if ab else signed
                for e, a, w in zip(ids, got, want):
                    if abs(a - w) > Fraction(1, 2 ** 30) * vscale:
                        problems.append(f'{tag}: element {e}: answered {float(a)}, the mesh gives {float(w)}')
            else:
                coq_steps.append('IRaised')
                if not want_raise:
                    problems.append(f'{tag}: raised {st.get("raise")}: {st.get("msg")}')
        ctx.notes['oracle_evaluations'] = ctx.notes.get('oracle_evaluations', 0) + len(h) * len(ids)
        if problems:
            n_bad += 1
            first_pos = next(k for k, o in enumerate(h) if o[0] == 'positive')
        if problems and n_bad <= 8:          # the count of failing histories is in notes['history']
            ctx.violation('impl-violation', case,
                          'every answer = what the current connectivity gives; after a repair all volumes >= 0, '
                          'same ids, node sets and |volume|', problems[:6],
                          'C18_positive_after_any_history / C18_queries_answer_fresh (oracle on implementation)',
                          found_input=True,
                          signature={'kind': 'history',
                                     'problem': re.sub(r'-?\d[\d.e+-]*', '#', problems[0].split(']: ', 1)[-1])[:60],
                                     'before_repair': [list(o) for o in h[:first_pos]][:2]},
                          what='history on one object: ' + problems[0])
        if len(coq_steps) == len(h):
            defs.append(f'Definition hn_{i} : list Z := {zlist(m["node_ids"])}.')
            defs.append(f'Definition hc_{i} : list (v3 Q) := ' +
                        lib.coq_list(['(' + ', '.join(qf(Fraction(x)) for x in c) + ')' for c in m['coords']]) + '.')
            steps = lib.coq_list([f'({op_coq(o)}, {st})' for o, st in zip(h, coq_steps)])
            items.append((i, f'history_ok (1#1073741824) (q_sv hn_{i} hc_{i}) (fresh {rows_lit(b[1], b[2])}) {steps}'))
    bad = []
    if model_ok and items:
        out = coq_cases(ctx, 'HistoryCases', defs, {'corr': items})
        if out is None:
            ctx.violation('tie-broken', {'stage': 'HistoryCases.v'}, 'case file compiles', 'does not',
                          'correspondence C18 history', found_input=False,
                          signature={'kind': 'case-file', 'file': 'HistoryCases'})
            bad = [i for i, _ in items]
        else:
            bad = out['corr']
    for i in bad[:20]:
        m, h = cases[i]
        ctx.violation('correspondence', {'op': 'history', 'mesh': mesh_of(m), 'ops': [list(o) for o in h]},
                      'every step equal to the SlotModel state machine (translated _slot_answers)',
                      res[i].get('steps'), 'correspondence C18 history (SlotModel.step)', found_input=True,
                      signature={'kind': 'history-correspondence',
                                 'first': [list(o) for o in h][:2]},
                      what='history on one object differs from the model')
    ctx.notes['history'] = {'histories': len(cases), 'model_disagreements': len(bad), 'oracle_failures': n_bad}
    return len(cases), len(bad)


# ------------------------------------------------------------------------ main
def main(ctx):
    ctx.rule = ('to_polyhedron: lattice meshes of tet / pyramid / prism / hex cells and mixes under '
                'integer affine maps (+ jitter) with node ids sequential / sparse / unsorted / beyond '
                'int32 and shuffled node storage; resolve_degeneracy: rows of hex cells with each of the '
                'four edge collapses, plain hexes, existing prism blocks, broken companions; '
                'make_elements_positive: every/sampled subset of inverted tets of a 6-tet cube and random '
                'tet meshes, lengths scaled by 2^-10 / 1e-3 / 1024; histories on one object: every metric / '
                'volume query (mode x raise x abs) before the repair, ordered pairs of queries, random '
                'sequences of queries and repairs; a case = one mesh x one operation (or one history); '
                'all non-trivial')
    ctx.trusted += [
        'translator /verif/translate/c18_tables.py (per region: translated, or baseline model + widened '
        'correspondence when the region cannot be read) and '
        '/verif/translate/c11_kernels.py for the volume kernels',
        'hand model coq/C18/Model.v (searchsorted / argsort / face_dat layout / resolve_degeneracy '
        'control flow / make_positive), pinned by the correspondence',
        'float.hex -> Fraction; comparisons inside Coq (exact for integers, Check.close for volumes)',
    ]
    ctx.assumptions += [
        'numpy.argsort / searchsorted on distinct ids; numba kernels modelled from their source text',
        'rounding and float32 accumulators modelled as exact (C11)',
        'to_polyhedron / resolve_degeneracy: volumes are evaluated on fresh FEMData objects (memo slots: C19); '
        'make_elements_positive: the metric / volume slots it relies on are modelled (SlotModel.v) for objects '
        'without user-supplied elemental variables named metric / volume',
    ]
    tie_ok = True
    degraded = {}
    try:
        model, consumed = c18_tables.translate(str(lib.REPO))
        ctx.sources = consumed
        degraded = model['degraded']
        lib.write_if_changed(lib.COQ / 'C18' / 'gen' / 'Tables.v', c18_tables.emit(model))
        lib.write_if_changed(lib.COQ / 'C18' / 'gen' / 'Slots.v', c18_tables.emit_slots(model))
        kmodel, kconsumed = c11_kernels.translate(str(lib.REPO))
        ctx.sources.update({'C11:' + k: v for k, v in kconsumed.items()})
        lib.write_if_changed(lib.COQ / 'C11' / 'gen' / 'Kernels.v', c11_kernels.emit(kmodel))
        ctx.notes['translated_flags'] = {ty: {'uses_argsort': k['uses_argsort'], 'casts_int32': k['int32']}
                                         for ty, k in model['kernels'].items()}
        ctx.notes['translated_slot_decision'] = model['slots']['answers']['expr']
    except (c18_tables.TranslateError, c11_kernels.TranslateError, SyntaxError) as e:
        tie_ok = False
        ctx.log('translator failed closed:', e)
        ctx.notes['translator_error'] = str(e)
    # regions the translator could not read: baseline model (translation of the registered
    # tree) + widened correspondence for the operations that depend on them
    ctx.notes['widened'] = {
        'poly': sorted(k for k in degraded if k.endswith('to_polyhedron')),
        'degen': sorted(k for k in degraded if k == 'resolve_degeneracy'),
        'positive': sorted(k for k in degraded if k in ('_permute', 'make_elements_positive', 'slots'))}
    if degraded:
        ctx.log('translator could not read:', degraded)
        ctx.notes['translator_degraded'] = degraded
    proof_ok = False
    if tie_ok:
        # three property files: a change to one region of the code leaves the obligations
        # about the other regions standing
        proof_ok = True
        for k, pf in enumerate(PROPS):
            ok, log = ctx.build_props(pf, extra_targets=['C18/Check.vo', 'C11/Check.vo'] if k == 0 else [])
            if not ok:
                proof_ok = False
                ctx.notes['build_log_tail'] = (ctx.notes.get('build_log_tail', '') + '\n' + log[-1500:])[-3000:]
        ctx.checker_cmd = ('cd /verif/coq && coq_makefile -f _CoqProject -o Makefile && make ' +
                           ' '.join(pf[:-2] + '.vo' for pf in PROPS) +
                           '  (coqc 8.16.1, full .vo build) + Print Assumptions of each theorem of ' +
                           ', '.join(PROPS))
    else:
        for pf in PROPS:
            for n in lib.theorem_names(lib.COQ / pf):
                ctx.obligations.append({'name': n, 'discharged': False, 'assumptions': [],
                                        'note': 'translator failed closed'})
    model_ok = tie_ok
    if tie_ok and not proof_ok:
        ok, log, _ = lib.coq_make(['C18/Check.vo', 'C11/Check.vo'])
        model_ok = ok
    before = len(ctx.violations)
    n1, b1 = check_polyhedron(ctx, model_ok)
    n2, b2 = check_degeneracy(ctx, model_ok)
    n3, b3 = check_positive(ctx, model_ok)
    n4, b4 = check_history(ctx, model_ok)
    ctx.corr = {'cases': n1 + n2 + n3 + n4, 'disagreements': b1 + b2 + b3 + b4}
    if degraded and tie_ok:
        ctx.notes['tie'] = 'H (translator could not read %s; baseline model + widened correspondence, %d cases)' % (
            '; '.join(f'{k}: {v}' for k, v in sorted(degraded.items())), n1 + n2 + n3 + n4)
    elif tie_ok:
        ctx.notes['tie'] = 'T (all regions translated) + H (correspondence, %d cases)' % (n1 + n2 + n3 + n4)
    ctx.notes['search_evaluations'] = ctx.notes.get('oracle_evaluations', 0)
    found_any = len(ctx.violations) > before or ctx.known
    if not tie_ok and not found_any:
        ctx.violation('tie-broken', {'translator_error': ctx.notes.get('translator_error')},
                      'translator accepts the re-typing code', 'fail-closed', 'translator c18_tables',
                      found_input=False, signature={'kind': 'tie-broken'})
    if tie_ok and not proof_ok:
        bad = [o['name'] for o in ctx.obligations if not o['discharged']]
        ctx.violation('proof-broken', {'theorems': bad, 'log': ctx.notes.get('build_log_tail', '')[-600:]},
                      'all C18 theorems check against the regenerated tables and kernels', 'do not check',
                      ', '.join(bad)[:300], found_input=len(ctx.violations) > before,
                      signature={'kind': 'proof-broken'})
    if ctx.tier == 'thorough' and proof_ok:
        for pf in PROPS:
            if not ctx.coqchk(pf):
                ctx.violation('proof-broken', {'coqchk': ctx.notes.get('coqchk')},
                              f'coqchk accepts {pf}o and its dependencies', 'rejected',
                              'coqchk FV.' + pf[:-2].replace('/', '.'), found_input=False,
                              signature={'kind': 'coqchk', 'file': pf})
    ctx.exhaustive = False
    return ctx.finish()


def replay(path):
    rp = json.loads(Path(path).read_text())
    c = rp['case']
    ctx = lib.Ctx(PID, 'quick')
    op = c.get('op')
    kind = {'to_polyhedron': 'poly', 'resolve_degeneracy': 'degen', 'make_elements_positive': 'positive',
            'polyhedron volume': 'poly'}.get(op)
    if op == 'history' and 'mesh' in c:
        r = run_impl(ctx, [{'id': 0, 'kind': 'history', 'mesh': c['mesh'], 'ops': c['ops']}], 'replay')[0]
        pos = dict(zip(c['mesh']['node_ids'], c['mesh']['coords']))
        rows = r.get('final_blocks', [[None, [], []]])[0]
        vols = [exact_tet_volume(pos, row) for row in rows[2]]
        print('ops:', c['ops'])
        print('steps:', json.dumps(r.get('steps'))[:2000])
        print('expected:', rp['expected'])
        print('observed before:', rp['observed'])
        ok = 'steps' in r and all(v >= 0 for v in vols) and all('raise' not in st for o, st in zip(
            c['ops'], r['steps']) if o[0] == 'positive')
        print('signed volumes of the final connectivity:', [float(v) for v in vols])
        print('property', 'holds (final connectivity has no inverted element)' if ok else 'VIOLATED',
              'on this input')
        return 0 if ok else 1
    if kind is None or 'mesh' not in c:
        print('nothing to replay on the implementation:', json.dumps(rp, indent=1)[:2000])
        return 1
    r = run_impl(ctx, [{'id': 0, 'kind': kind, 'mesh': c['mesh']}], 'replay')[0]
    print('implementation:', json.dumps({k: v for k, v in r.items() if k != 'tb'})[:3000])
    print('expected:', rp['expected'])
    if kind == 'poly' and 'faces' in r:
        ok = all('values' in r[k] for k in ('poly_vol_centroid', 'elem_vol_centroid')) and all(
            abs(hexq(a) - hexq(b)) <= Fraction(1, 2 ** 14) * max(1, abs(hexq(b)))
            for a, b in zip(r['poly_vol_centroid']['values'], r['elem_vol_centroid']['values']))
        print('polyhedron volume == element volume (centroid):', ok)
        print('property', 'holds' if ok else 'VIOLATED', 'on this input')
        return 0 if ok else 1
    return 1


def _hold_c11_lock():
    """C18 regenerates and builds against coq/C11/gen/Kernels.v: serialise with any
    concurrent `flock build/.seed_C11.lock ./check C11` (possibly on another tree)"""
    import fcntl
    lib.BUILD.mkdir(exist_ok=True)
    f = open(lib.BUILD / '.seed_C11.lock', 'w')
    fcntl.flock(f, fcntl.LOCK_EX)
    return f


if __name__ == '__main__':
    _c11_lock = _hold_c11_lock()
    if len(sys.argv) > 2 and sys.argv[1] == 'replay':
        sys.exit(replay(sys.argv[2]))
    tier = sys.argv[1] if len(sys.argv) > 1 else 'quick'
    sys.exit(main(lib.Ctx(PID, tier)))
