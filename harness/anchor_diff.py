#!/usr/bin/env python3
"""Which anchored source of a property differs from the tree the check was last
verified quiet on?

  anchor_diff.py Cxx            -> prints one line per changed item, exit 0
  anchor_diff.py --baseline     -> (re)writes /verif/baselines/anchors.json from the
                                   current tree (run after every fix: commit in /repo)

An item = a function / method / class-level or module-level assignment of a file
listed in the property's anchors (properties.jsonl), identified by qualified name
and compared by the sha256 of its ast.unparse (comments and layout do not count).
A difference is NOT a violation: `check` uses it only to run the deeper
exploration (thorough tier) on exactly the runs where the code under the model has
changed, so that a change is met with more inputs than the every-commit tier.
"""
import ast, hashlib, json, os, sys
from pathlib import Path

VERIF = Path(__file__).resolve().parent.parent
REPO = Path(os.environ.get('FEMIO_REPO', '/repo'))
BASE = VERIF / 'baselines' / 'anchors.json'


def items_of(path):
    try:
        tree = ast.parse(path.read_text())
    except Exception as e:  # unreadable / syntax error: everything counts as changed
        return {'<unparsable>': str(e)[:80]}
    out = {}

    def visit(node, prefix):
        for n in node.body:
            if isinstance(n, (ast.FunctionDef, ast.AsyncFunctionDef)):
                out[prefix + n.name] = hashlib.sha256(ast.unparse(n).encode()).hexdigest()[:16]
            elif isinstance(n, ast.ClassDef):
                visit(n, prefix + n.name + '.')
                hdr = ast.unparse(ast.ClassDef(n.name, n.bases, n.keywords, [ast.Pass()], n.decorator_list))
                out[prefix + n.name + '.<class>'] = hashlib.sha256(hdr.encode()).hexdigest()[:16]
            elif isinstance(n, (ast.Assign, ast.AnnAssign, ast.AugAssign)):
                tg = ast.unparse(n.targets[0] if isinstance(n, ast.Assign) else n.target)
                out[prefix + tg + '='] = hashlib.sha256(ast.unparse(n).encode()).hexdigest()[:16]
            elif isinstance(n, (ast.Import, ast.ImportFrom)):
                out[prefix + '<import> ' + ast.unparse(n)] = '1'
    visit(tree, '')
    return out


def anchored_files():
    per = {}
    for l in (VERIF / 'properties.jsonl').read_text().splitlines():
        if l.strip():
            p = json.loads(l)
            per[p['id']] = list(p['anchors']['files'])
    return per


def snapshot(files):
    return {f: items_of(REPO / f) if (REPO / f).exists() else {'<missing>': '1'} for f in files}


def changed(pid):
    per = anchored_files()
    if not BASE.exists():
        return ['<no baseline>']
    base = json.loads(BASE.read_text())['files']
    out = []
    for f in per[pid]:
        cur = snapshot([f])[f]
        old = base.get(f, {})
        for k in sorted(set(cur) | set(old)):
            if cur.get(k) != old.get(k):
                out.append(f'{f}::{k}')
    return out


if __name__ == '__main__':
    if sys.argv[1] == '--baseline':
        import subprocess
        per = anchored_files()
        files = sorted({f for fs in per.values() for f in fs})
        head = subprocess.run(['git', '-C', str(REPO), 'rev-parse', '--short', 'HEAD'], capture_output=True, text=True).stdout.strip()
        BASE.write_text(json.dumps({'repo_head': head, 'files': snapshot(files)}, indent=0, sort_keys=True) + '\n')
        print('baseline of', len(files), 'files at', head)
    else:
        for c in changed(sys.argv[1]):
            print(c)
