"""C12 — child process that runs femio (PYTHONPATH set by lib.impl_env()).

Same protocol and same observations as harness/c10_impl.py (whose case runner is reused unchanged);
added here: OTHER PUBLIC QUERIES ON THE SAME OBJECT before the query under test.

  case['prelude']      list of query names (keys of QUERIES): run on the object right after it is built,
                       i.e. before the first calculate_normal_incidence_matrix() on it
  case['mid_prelude']  list of query names: run on the same object immediately before the SECOND
                       calculate_normal_incidence_matrix() on it (same-object histories)

The object built for the "fresh object" comparison of a history gets no prelude.  A query that raises is
recorded and the run continues (an exception in the middle of an operation followed by a read is part of the
dimension).  The model is a pure function of the mesh: whatever was asked before, the result must be that
of a fresh object.
"""
import sys
from pathlib import Path

import numpy as np

sys.path.insert(0, str(Path(__file__).resolve().parent))
import c10_impl  # noqa

# every public query that internally asks for facets / surface / normals / incidence / metrics, with the
# option values the query under test does NOT use as well as the ones it uses
QUERIES = {
    'to_surface': lambda fd: fd.to_surface(),
    'to_surface_keep_nodes': lambda fd: fd.to_surface(remove_unnecessary_nodes=False),
    'extract_surface': lambda fd: fd.extract_surface(),
    'extract_surface_fistr': lambda fd: fd.extract_surface_fistr(),
    'surface_normals_mean': lambda fd: fd.calculate_surface_normals(),
    'surface_normals_effective': lambda fd: fd.calculate_surface_normals(mode='effective'),
    'all_element_normals': lambda fd: fd.calculate_all_element_normals(),
    'to_facets_keep_duplicates': lambda fd: fd.to_facets(remove_duplicates=False),
    'to_facets_unique': lambda fd: fd.to_facets(remove_duplicates=True),
    'to_facets_default': lambda fd: fd.to_facets(),
    'to_facets_dict': lambda fd: fd.to_facets(remove_duplicates=False, return_dict_facets=True),
    'extract_facets_default': lambda fd: fd.extract_facets(),
    'extract_facets_keep_duplicates': lambda fd: fd.extract_facets(remove_duplicates=False),
    'extract_facets_unique': lambda fd: fd.extract_facets(remove_duplicates=True),
    'extract_facets_stack': lambda fd: fd.extract_facets(method=np.stack),
    'extract_facets_falsy_flag': lambda fd: fd.extract_facets(remove_duplicates=0),
    'incidence_matrix': lambda fd: fd.calculate_incidence_matrix(),
    'incidence_matrix_order1': lambda fd: fd.calculate_incidence_matrix(order1_only=True),
    'adjacency_element': lambda fd: fd.calculate_adjacency_matrix_element(),
    'adjacency_node': lambda fd: fd.calculate_adjacency_matrix_node(),
    'adjacency_nodal_mode': lambda fd: fd.calculate_adjacency_matrix(mode='nodal'),
    'element_degree': lambda fd: fd.calculate_element_degree(),
    'relative_incidence_min1': lambda fd: fd.calculate_relative_incidence_metrix_element(
        fd.to_facets(remove_duplicates=False), minimum_n_sharing=1),
    'relative_incidence_min3': lambda fd: fd.calculate_relative_incidence_metrix_element(
        fd.to_surface(), minimum_n_sharing=3),
    'relative_incidence_self': lambda fd: fd.calculate_relative_incidence_metrix_element(fd),
    'volumes_default': lambda fd: fd.calculate_element_volumes(),
    'volumes_linear': lambda fd: fd.calculate_element_volumes(mode='linear'),
    'volumes_abs': lambda fd: fd.calculate_element_volumes(raise_negative_volume=False, return_abs_volume=True),
    'volumes_no_update': lambda fd: fd.calculate_element_volumes(update=False),
    'metrics': lambda fd: fd.calculate_element_metrics(),
    'metrics_abs': lambda fd: fd.calculate_element_metrics(raise_negative_metric=False, return_abs_metric=True),
    'areas_on_solid': lambda fd: fd.calculate_element_areas(),
    'element_normals_on_solid': lambda fd: fd.calculate_element_normals(),
    'edge_lengths': lambda fd: fd.calculate_edge_lengths(),
    'nodal2elemental_sum': lambda fd: fd.convert_nodal2elemental(fd.nodes.data),
    'nodal2elemental_mean': lambda fd: fd.convert_nodal2elemental(fd.nodes.data, calc_average=True),
    'first_order_nodes': lambda fd: fd.filter_first_order_nodes(),
    'normal_incidence_itself': lambda fd: fd.calculate_normal_incidence_matrix(),
    'facet_normals_of_duplicated_facets': lambda fd: fd.to_facets(remove_duplicates=False).calculate_element_normals(),
    'surface_areas': lambda fd: fd.to_surface().calculate_element_areas(),
}

_done = set()
_orig_build = c10_impl.build
RAISED = {}


def _run(fd, names, cid, where):
    for q in names:
        try:
            QUERIES[q](fd)
        except Exception as e:          # noqa
            RAISED.setdefault(str(cid), []).append([where, q, type(e).__name__])


def build(case):
    fd = _orig_build(case)
    cid = case.get('id')
    if cid in _done or not (case.get('prelude') or case.get('mid_prelude')):
        return fd
    _done.add(cid)                      # the object built later for the fresh comparison gets no prelude
    _run(fd, case.get('prelude') or [], cid, 'before_first')
    mid = case.get('mid_prelude')
    if mid:
        bound = fd.calculate_normal_incidence_matrix
        n_calls = [0]

        def wrapped():
            n_calls[0] += 1
            if n_calls[0] == 2:
                _run(fd, mid, cid, 'before_second')
            return bound()
        fd.calculate_normal_incidence_matrix = wrapped
    return fd


c10_impl.build = build

if __name__ == '__main__':
    c10_impl.main()
