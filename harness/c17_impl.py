"""Child process of the C17 check: runs femio's tensor helpers on the cases of
the spec file (argv[1], JSON) and writes exact results (every float as the
integer ratio float.as_integer_ratio() gives) to spec['out'].

Also records, for every call, whether the caller-owned input arrays are
bit-identical before and after (the "does not modify the caller's array"
clause), and the exact outputs of every numpy.linalg.eigh call femio made (so
that the Coq model can be run with the very same eigen-decomposition)."""
import io
import json
import sys
from fractions import Fraction

import numpy as np

EIGH_LOG = []
_eigh = np.linalg.eigh


def traced_eigh(a, *args, **kw):
    r = _eigh(a, *args, **kw)
    w, v = r[0], r[1]
    EIGH_LOG.append((np.array(a, copy=True), np.array(w, copy=True), np.array(v, copy=True)))
    return r


np.linalg.eigh = traced_eigh


def fl(x):
    """[num, den] (exactly representable) -> float"""
    f = Fraction(int(x[0]), int(x[1]))
    r = float(f)
    assert Fraction(r) == f, ('input not representable', x)
    return r


def arr(rows):
    return np.array([[fl(x) for x in row] for row in rows], dtype=np.float64).reshape(len(rows), -1)


def ex(x):
    x = float(x)
    if x != x or x in (float('inf'), float('-inf')):
        return ['nan', 0]
    n, d = x.as_integer_ratio()
    return [n, d]


def exa(a):
    a = np.asarray(a, dtype=np.float64)
    if a.ndim == 1:
        return [ex(x) for x in a]
    return [exa(x) for x in a]


DTYPES = {'float64': np.float64, 'float32': np.float32, 'int64': np.int64, 'int32': np.int32}
FLAGS = {'np.False_': np.False_, 'np.True_': np.True_}


def flag_of(c):
    """how the boolean option is spelled by the caller (falsy / truthy non-bool values)"""
    v = c.get('eng_value', c['eng'])
    return FLAGS.get(v, v) if isinstance(v, str) else v


def snapshot(a):
    return a.tobytes(), a.shape, str(a.dtype)


def take_eigh():
    out = [{'m': exa(m), 'w': exa(w), 'v': exa(v)} for m, w, v in EIGH_LOG]
    del EIGH_LOG[:]
    return out


def run_case(c, F, femio):
    k = c['kind']
    r = {'id': c['id']}
    del EIGH_LOG[:]
    if k == 'sym':
        a = arr(c['a']).astype(DTYPES[c.get('dtype', 'float64')])
        if c.get('tile'):
            a = np.tile(a, (c['tile'], 1)) + (np.arange(c['tile'] * len(a)) % 7)[:, None].astype(a.dtype)
        order = c['order']
        s0 = snapshot(a)
        kw = {'from_engineering': flag_of(c)}
        kw2 = {'to_engineering': flag_of(c)}
        if order is not None:
            kw['order'] = list(order) if c.get('order_as') != 'ndarray' else np.array(order)
            inv = [int(x) for x in np.argsort(order)]
            kw2['order'] = inv if c.get('order_as') != 'ndarray' else np.array(inv)
            r['inv'] = inv
        m = F.convert_array2symmetric_matrix(a, **kw)
        r['a_unchanged'] = snapshot(a) == s0
        r['same_call_twice'] = bool(np.array_equal(m, F.convert_array2symmetric_matrix(a, **kw)))
        r['m_shape'] = list(m.shape)
        r['m_dtype'] = str(m.dtype)
        keep = slice(0, 3) if c.get('tile') else slice(None)
        r['m'] = exa(m[keep])
        m_in = np.array(m, copy=True)
        s1 = snapshot(m_in)
        b = F.convert_symmetric_matrix2array(m_in, **kw2)
        r['m_unchanged'] = snapshot(m_in) == s1
        r['b_shape'] = list(b.shape)
        r['b'] = exa(b[keep])
        if c.get('tile'):
            r['a_head'] = exa(a[keep])
            r['all_rows_roundtrip'] = bool(np.array_equal(b, a))
            r['all_rows_symmetric'] = bool(np.array_equal(m, np.transpose(m, (0, 2, 1))))
        # the other composition: matrix -> array -> matrix
        b_in = np.array(b, copy=True)
        m2 = F.convert_array2symmetric_matrix(b_in, **kw)
        r['m_again_equal'] = bool(np.array_equal(m2, m))
    elif k == 'pc':
        a = arr(c['a']).astype(DTYPES[c.get('dtype', 'float64')])
        s0 = snapshot(a)
        kw = {'from_engineering': flag_of(c)}
        if c['order'] is not None:
            kw['order'] = list(c['order'])
        vals, dirs, vecs = F.calculate_principal_components(a, **kw)
        r['a_unchanged'] = snapshot(a) == s0
        r['eigh'] = take_eigh()
        r['a_as_given'] = exa(a)
        r['vals'], r['dirs'], r['vecs'] = exa(vals), exa(dirs), exa(vecs)
        v_in, d_in = np.array(vals, copy=True), np.array(dirs, copy=True)
        sv, sd = snapshot(v_in), snapshot(d_in)
        mats = F.calculate_symmetric_matrices_from_eigens(v_in, d_in)
        reb = F.calculate_array_from_eigens(v_in, d_in, to_engineering=flag_of(c))
        again = F.calculate_principal_components(a, **kw)
        take_eigh()
        r['same_call_twice'] = bool(np.array_equal(again[0], vals) and np.array_equal(again[1], dirs))
        r['eig_unchanged'] = snapshot(v_in) == sv and snapshot(d_in) == sd
        r['mats'] = exa(mats)
        r['rebuilt'] = exa(reb)
    elif k == 'inv':
        a = arr(c['a'])
        s0 = snapshot(a)
        b = F.invert_strain(a, is_engineering=c['eng'])
        r['a_unchanged'] = snapshot(a) == s0
        r['eigh1'] = take_eigh()
        r['b'] = exa(b)
        b_in = np.array(b, copy=True)
        s1 = snapshot(b_in)
        cc = F.invert_strain(b_in, is_engineering=c['eng'])
        r['b_unchanged'] = snapshot(b_in) == s1
        r['eigh2'] = take_eigh()
        r['c'] = exa(cc)
    elif k == 'lte':
        # c['a'][k] is the tensor of element c['var_ids'][k]; the mesh stores its
        # elements in the order c['ids'] (may differ from the variable's order)
        a = arr(c['a'])
        n = len(a)
        ids = np.array(c['ids'], dtype=np.int64)
        vids = np.array(c.get('var_ids', c['ids']), dtype=np.int64)
        nn = 4 + n
        fd = femio.FEMData(
            nodes=femio.FEMAttribute('NODE', np.arange(1, nn + 1),
                                     np.arange(3 * nn, dtype=float).reshape(nn, 3) ** 2 % 7),
            elements=femio.FEMElementalAttribute('ELEMENT', {'tet': femio.FEMAttribute(
                'tet', ids, np.array([[i + 1, i + 2, i + 3, i + 4] for i in range(n)]))}))

        def attr(name):
            return {'ids': [int(i) for i in fd.elemental_data.get_attribute_ids(name)],
                    'rows': exa(fd.elemental_data.get_attribute_data(name))}
        s0 = snapshot(a)
        r['element_ids'] = [int(i) for i in fd.elements.ids]
        if c.get('l2g_only'):
            oids = np.array(c['orient_ids'], dtype=np.int64)
            fd.elemental_data.update_data(vids, {'lte': arr(c['lte'])}, allow_overwrite=True)
            fd.elemental_data.update_data(oids, {'orient': arr(c['orient'])}, allow_overwrite=True)
            r['a_unchanged'] = True
            r['eigh'] = []
        else:
            fd.elemental_data.update_data(vids, {c['name_in']: a}, allow_overwrite=True)
            r['full_before'] = attr('lte_full')
            s_st = snapshot(fd.elemental_data.get_attribute_data('lte_full'))
            fd.convert_lte_global2local()
            r['a_unchanged'] = snapshot(a) == s0 and \
                snapshot(fd.elemental_data.get_attribute_data('lte_full')) == s_st
            r['eigh'] = take_eigh()
            if c.get('repeat'):
                fd.convert_lte_global2local()        # the same conversion twice
                take_eigh()
        r['lte'], r['orient'] = attr('lte'), attr('orient')
        sl = snapshot(fd.elemental_data.get_attribute_data('lte'))
        so = snapshot(fd.elemental_data.get_attribute_data('orient'))
        if c.get('pop', True) and not c.get('l2g_only'):
            fd.elemental_data.pop('lte_full')
        fd.convert_lte_local2global()
        if c.get('repeat'):
            fd.convert_lte_local2global()
        r['local_unchanged'] = snapshot(fd.elemental_data.get_attribute_data('lte')) == sl and \
            snapshot(fd.elemental_data.get_attribute_data('orient')) == so
        r['eigh_after'] = take_eigh()
        r['lte_full'] = attr('lte_full')
        r['keys'] = sorted(fd.elemental_data.keys())
    elif k == 'align':
        import scipy.sparse as sp
        shape = tuple(c['shape'])
        mats = []
        for spec in c['mats']:
            shape = tuple(spec.get('shape', c['shape']))
            ddt = DTYPES[spec.get('data_dtype', 'float64')]
            rows = [e[0] for e in spec['entries']]
            cols = [e[1] for e in spec['entries']]
            vals = [fl(e[2]) for e in spec['entries']]
            # what scipy itself uses for this shape: int32 unless a dimension needs more
            idt = np.int32 if max(shape) < 2 ** 31 - 1 else np.int64
            if spec['format'] in ('csr', 'csr_unsorted'):
                # CSR built by hand so that stored zeros stay stored; 'csr_unsorted'
                # keeps the (shuffled) entry order inside each row: legitimate,
                # non-canonical storage (has_sorted_indices == False)
                if spec['format'] == 'csr':
                    order = sorted(range(len(rows)), key=lambda t: (rows[t], cols[t]))
                else:
                    order = sorted(range(len(rows)), key=lambda t: rows[t])
                counts = np.zeros(shape[0] + 1, dtype=np.int64)
                for t in order:
                    counts[rows[t] + 1] += 1
                indptr = np.cumsum(counts)
                m = sp.csr_matrix((np.array([vals[t] for t in order], dtype=float).astype(ddt),
                                   np.array([cols[t] for t in order], dtype=idt),
                                   indptr.astype(idt)), shape=shape)
            else:
                m = sp.coo_matrix((np.array(vals, dtype=float).astype(ddt), (np.array(rows, dtype=idt),
                                                                  np.array(cols, dtype=idt))),
                                  shape=shape)
            mats.append(m)

        def snap(m):
            # the VALUE of the caller's matrix (scipy may canonicalise the storage
            # of a non-canonical input in place; that is not a change of value)
            # (canonical triplets, not toarray(): shapes may have > 2^31 positions)
            cc = m.tocoo(copy=True)
            cc.sum_duplicates()
            o_ = np.lexsort((cc.col, cc.row))
            return (cc.row[o_].astype(np.int64).tobytes(), cc.col[o_].astype(np.int64).tobytes(),
                    cc.data[o_].astype(float).tobytes())
        s0 = [snap(m) for m in mats]
        out = F.align_nnz(mats)
        r['inputs_unchanged'] = [snap(m) for m in mats] == s0
        res = []
        shape = tuple(c['shape'])
        for o in out:
            fmt_returned = o.format
            o = o.tocsr() if o.format != 'csr' else o
            ent = []
            row_of = np.repeat(np.arange(o.shape[0], dtype=np.int64), np.diff(o.indptr))
            for p in range(len(o.data)):            # storage order of the returned CSR
                ent.append([int(row_of[p]), int(o.indices[p]), ex(o.data[p])])
            res.append({'format': fmt_returned, 'shape': [int(x) for x in o.shape], 'entries': ent,
                        'index_dtype': str(o.indices.dtype), 'data_dtype': str(o.data.dtype),
                        'same_structure_as_first': bool(
                            np.array_equal(o.indices, out[0].indices) and
                            np.array_equal(o.indptr, out[0].indptr))})
        r['out'] = res
    else:
        raise ValueError(k)
    return r


def main():
    import resource
    resource.setrlimit(resource.RLIMIT_AS, (12 * 2 ** 30, 12 * 2 ** 30))   # never exhaust the machine
    spec = json.loads(open(sys.argv[1]).read())
    real_stdout = sys.stdout
    sys.stdout = io.StringIO()          # femio prints a lot
    import femio
    from femio import functions as F
    results = []
    for c in spec['cases']:
        try:
            results.append(run_case(c, F, femio))
        except Exception as e:          # noqa
            results.append({'id': c['id'], 'error': type(e).__name__ + ': ' + str(e)[:300]})
        sys.stdout.seek(0)
        sys.stdout.truncate()
    sys.stdout = real_stdout
    with open(spec['out'], 'w') as f:
        json.dump(results, f)


if __name__ == '__main__':
    main()
