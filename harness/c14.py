"""C14 — nodal <-> elemental conversion preserves constants, bounds, totals.

build proofs -> corpus -> correspondence (Model.n2e / Model.e2n evaluated in
Coq over Q on the very meshes/fields the implementation ran on; every float of
the implementation enters as its exact rational, |impl - model| <= tol is
decided inside Coq) -> the property itself as an exact Python oracle on the
implementation's arrays -> shrink -> violations.
"""
import copy
import json
import os
import re
import shutil
import subprocess
import sys
from fractions import Fraction as F
from pathlib import Path

sys.path.insert(0, str(Path(__file__).resolve().parent))
sys.path.insert(0, str(Path(__file__).resolve().parent.parent / 'translate'))
import lib  # noqa
import c13_gen as gen  # noqa
import c14_e2n  # noqa
import c14_n2e  # noqa
from c13 import mesh_at, apply_mod_py, new_connectivity, rebuild_history, strip  # noqa

PID = 'C14'
TOL_BITS = 40          # |impl - exact| <= 2^-40 * (1 + max |input|)
AREA_TYPES = ('tri', 'quad')
VOL_TYPES = ('tet', 'tet2', 'hex', 'prism')


# ------------------------------------------------ source variant (tie T-lite)
def detect_metric_variant():
    """which assignment the 'mix' branch of calculate_element_metrics contains.
    Fail-closed: returns ('scatter'|'by_id', sha) or raises ValueError."""
    import ast
    src = (lib.REPO / 'femio' / 'geometry_processor.py').read_text()
    tree = ast.parse(src)
    fn = None
    for n in ast.walk(tree):
        if isinstance(n, ast.FunctionDef) and n.name == 'calculate_element_metrics':
            fn = n
    if fn is None:
        raise ValueError('calculate_element_metrics not found')
    region = ast.get_source_segment(src, fn)
    found = []
    for n in ast.walk(fn):
        if isinstance(n, ast.For) and isinstance(n.iter, ast.Call) and \
                ast.unparse(n.iter) == 'self.elements.items()' and isinstance(n.target, ast.Tuple) \
                and len(n.target.elts) == 2 and all(isinstance(x, ast.Name) for x in n.target.elts):
            kname, ename = (x.id for x in n.target.elts)
            # locals are renamed to k / e / partial_metrics: the decision is read, not the spelling
            local = {}
            for st in n.body:
                if isinstance(st, ast.Assign) and len(st.targets) == 1 and \
                        isinstance(st.targets[0], ast.Name) and isinstance(st.value, ast.Call) and \
                        ast.unparse(st.value.func) == 'self.calculate_element_metrics':
                    local[st.targets[0].id] = 'partial_metrics'

            class Ren(ast.NodeTransformer):
                def visit_Name(self, node):
                    m = {kname: 'k', ename: 'e', **local}
                    return ast.copy_location(ast.Name(m.get(node.id, node.id), node.ctx), node)
            for st in n.body:
                if isinstance(st, ast.Assign) and len(st.targets) == 1 and \
                        isinstance(st.targets[0], ast.Subscript) and \
                        ast.unparse(st.targets[0].value) == 'metrics':
                    t = Ren().visit(ast.parse(ast.unparse(st)).body[0])
                    found.append((ast.unparse(t.targets[0].slice), ast.unparse(t.value)))
    if len(found) != 1:
        raise ValueError(f'expected one assignment into metrics[...] in the mix loop, found {found}')
    sl, val = found[0]
    if val != 'partial_metrics':
        raise ValueError(f'unrecognised mix loop: metrics[{sl}] = {val}')
    if sl == 'self.elements.types == k':
        return 'scatter', lib.sha(region)
    if sl in ('self.elements.id2index.loc[e.ids].values[:, 0]',
              'self.elements.id2index.loc[e.ids].values.ravel()',
              'self.collect_element_indices_by_ids(e.ids)'):
        return 'by_id', lib.sha(region)
    raise ValueError(f'unrecognised index expression metrics[{sl}]')


VARIANT = {'by_id': False}
EXTRA_MODES = []        # strings the code compares `mode` with besides 'effective' / 'mean'
PROG_FAIL = set()       # (case id, query index) where the translated program differs from the impl
TIE = {'mode': 'T', 'reason': ''}
TIE_N2E = {'mode': 'T', 'reason': ''}


# --------------------------------------------------------------- geometry
def respace(mesh, rng):
    """monotone integer re-spacing of the lattice lines of each axis (elements
    stay boxes / half boxes / Kuhn tets but get different sizes)"""
    cums = []
    for ax in range(3):
        cum = [0]
        for _ in range(700):
            cum.append(cum[-1] + rng.choice([1, 1, 2, 3]))
        cums.append(cum)

    def g(ax, c):
        k, odd = divmod(c, 2)
        cum = cums[ax]
        return 2 * cum[k] if not odd else cum[k] + cum[k + 1]
    for r in mesh['nodes']:
        r[1], r[2], r[3] = g(0, r[1]), g(1, r[2]), g(2, r[3])


SCALES = [2.0 ** -14, 2.0 ** -30, 1e-4, 1e-2, 2.0 ** 10, 1e3]
WEIGHT_SCALES = [2.0 ** -14, 2.0 ** -40, 1e-4, 1e-12, 2.0 ** 30, 1e6]


def rescale(mesh, s):
    """multiply every coordinate by the float s (one rounding when s is not a
    power of two); the exact value of each resulting float is what the model
    and the oracle use"""
    for r in mesh['nodes']:
        r[1], r[2], r[3] = float(r[1]) * s, float(r[2]) * s, float(r[3]) * s


# far from the origin (in units of the cell size; decimal parts so that the
# products with decimal scales round): UTM-like coordinates
OFFSETS = [(432100.5, 5412345.25, 120.125), (1e7 + 0.3, -3e6 + 0.7, 5e5 + 0.1),
           (-2.0 ** 20, 2.0 ** 22 + 0.5, 2.0 ** 18), (1e5 + 0.1, 1e5 + 0.2, -1e5 - 0.3)]


def translate(mesh, off, s):
    """x -> x + off * s in binary64 (one rounding per coordinate; every lattice
    line still maps to ONE float, so boxes stay boxes); 2D meshes keep z const"""
    for r in mesh['nodes']:
        r[1], r[2], r[3] = (float(r[1]) + off[0] * s, float(r[2]) + off[1] * s,
                            float(r[3]) + off[2] * s)


def det3(a, b, c):
    return (a[0] * (b[1] * c[2] - b[2] * c[1]) - a[1] * (b[0] * c[2] - b[2] * c[0])
            + a[2] * (b[0] * c[1] - b[1] * c[0]))


def sub(a, b):
    return tuple(x - y for x, y in zip(a, b))


def tetvol(p):
    return F(det3(sub(p[1], p[0]), sub(p[2], p[0]), sub(p[3], p[0]))) / 6


def metric_of(t, pts):
    """exact area / volume, None for types calculate_element_metrics rejects"""
    if t == 'tri':
        a, b = sub(pts[1], pts[0]), sub(pts[2], pts[0])
        cr = (a[1] * b[2] - a[2] * b[1], a[2] * b[0] - a[0] * b[2], a[0] * b[1] - a[1] * b[0])
        assert cr[0] == 0 and cr[1] == 0
        return abs(F(cr[2])) / 2
    if t == 'quad':
        return metric_of('tri', [pts[0], pts[1], pts[2]]) + metric_of('tri', [pts[0], pts[2], pts[3]])
    if t in ('tet', 'tet2'):
        return tetvol(pts[:4])
    if t == 'hex':
        return sum(tetvol([pts[q] for q in k]) for k in gen.KUHN)
    if t == 'prism':
        return abs(tetvol([pts[0], pts[1], pts[2], pts[3]]) + tetvol([pts[1], pts[2], pts[3], pts[4]])
                   + tetvol([pts[2], pts[3], pts[4], pts[5]]))
    return None


def metrics_by_id(mesh):
    xyz = {r[0]: tuple(F(v) for v in r[1:4]) for r in mesh['nodes']}
    out = {}
    for t, rows in mesh['blocks']:
        for e, c in rows:
            out[e] = metric_of(t, [xyz[n] for n in c])
    return out


# ------------------------------------------------------------------ impl
def run_impl(ctx, cases, tag='impl'):
    spec = {'out': str(ctx.scratch / f'{tag}_out.json'),
            'cases': [{'id': c['id'], 'mesh': c['mesh'], 'queries': c['queries'],
                       'shared': bool(c.get('shared'))} for c in cases]}
    r = subprocess.run([lib.PY, str(lib.VERIF / 'harness' / 'c14_impl.py')],
                       input=json.dumps(spec), text=True, capture_output=True,
                       env=lib.impl_env(), timeout=1500)
    if r.returncode != 0:
        raise RuntimeError('impl runner failed: ' + r.stderr[-2000:])
    res = json.loads(Path(spec['out']).read_text())
    return {x['id']: x['results'] for x in res['cases']}


def impl_rows(r):
    if 'rows' not in r:
        return None
    return [[F(n, d) for n, d in row] for row in r['rows']]


def tol_of(q):
    if q['kind'] == 'n2e':
        mx = max([abs(F(x)) for row in q['data'] for x in row] + [F(0)])
    else:
        mx = max([abs(F(x)) for row in q['values'].values() for x in row] + [F(0)])
    # since /repo 38049d8 every metric kernel works relative to a local point in
    # float64: measured <= 3e-15 relative (against the exact metric of the actual
    # float coordinates) at every scale and offset, so one tolerance everywhere
    return (1 + mx) / 2 ** TOL_BITS


# ------------------------------------------------------- property (oracle)
def view(mesh, order1):
    """node ids of the rows, {eid: node ids} as the incidence sees them"""
    nodes = [r[0] for r in mesh['nodes']]
    conn = {}
    second = any('2' in t for t, _ in mesh['blocks'])
    for t, rows in mesh['blocks']:
        for e, c in rows:
            if order1 and '2' in t:
                c = c[:{'tet2': 4, 'hex2': 8}[t]]
            conn[e] = list(c)
    if order1 and second:
        used = set(x for c in conn.values() for x in c)
        nodes = [n for n in nodes if n in used]
    return nodes, conn


def blocks_sorted(mesh):
    return all(rows == sorted(rows) for _, rows in mesh['blocks'])


def scattered_metrics(mesh, eids):
    """what the 'mix' branch of calculate_element_metrics computes: positions of
    type k (ascending id) receive block k's metrics in storage order"""
    mu = metrics_by_id(mesh)
    typ = {e: t for t, rows in mesh['blocks'] for e, _ in rows}
    pools = {t: [mu[e] for e, _ in rows] for t, rows in mesh['blocks']}
    return {e: pools[typ[e]].pop(0) for e in eids}


def pattern(mesh, q, eids):
    """rows of the incidence matrix the call works with, each as the list of
    touching element ids: computed (order1_only) / the mesh's own matrix passed
    as `incidence=` (its own order1_only; the call's flag is then ignored) / an
    arbitrary matrix given as `incidence=`"""
    inc = q.get('inc')
    if inc and inc['kind'] == 'given':
        return [[e for e in eids if inc['cols'][str(e)][i]] for i in range(inc['nrows'])]
    nodes, conn = view(mesh, inc['order1'] if inc else q['order1'])
    return [[e for e in eids if nid in conn[e]] for nid in nodes]


def expected_e2n(mesh, q, eids, weights):
    rows = pattern(mesh, q, eids)
    w = len(next(iter(q['values'].values())))
    colcount = {e: sum(1 for t in rows if e in t) for e in eids}
    out = []
    for touching in rows:
        if q['mode'] == 'effective':
            out.append([sum(F(q['values'][str(e)][c], colcount[e]) for e in touching)
                        for c in range(w)])
        else:
            s = sum(weights[e] for e in touching)
            if not touching:
                out.append(None)
            else:
                out.append([sum(weights[e] * q['values'][str(e)][c] for e in touching) / s
                            for c in range(w)])
    return out


def zero_weight_sum(mesh, q):
    """signed implicit weights (raise_negative_volume=False on a mesh with
    inverted elements) that cancel at some node: the mean is not defined there"""
    eids = sorted(e for _, rows in mesh['blocks'] for e, _ in rows)
    mu = metrics_by_id(mesh)
    if any(mu[e] is None for e in eids):
        return False
    # also NEARLY cancelling sums (the cells are equal only up to the rounding of the scaled
    # coordinates): the quotient is then ill-conditioned and no tolerance is meaningful
    return any(t and 8 * abs(sum(mu[e] for e in t)) < sum(abs(mu[e]) for e in t)
               for t in pattern(mesh, q, eids))


def oracle(mesh, q, r):
    """None | 'unsupported' | description of the violated clause"""
    tags = mesh.get('tags', {})
    far_f32 = (q.get('kind') == 'e2n' and q.get('weight') == 'implicit' and q.get('mode') == 'mean'
               and q.get('f32_kernel') and bool(tags.get('offset')))
    if q['kind'] == 'e2n' and q['mode'] not in ('mean', 'effective'):
        # not a mode of the property; the correspondence says what the code does with it
        return 'unsupported' if r.get('exc') == 'ValueError' else None
    if 'exc' in r and q['kind'] == 'e2n' and q['mode'] == 'mean' and q['weight'] == 'implicit' \
            and q.get('raise_neg', True) and r['exc'] == 'ValueError' and mesh.get('tags', {}).get('inverted'):
        return 'unsupported'            # not a mesh with positive elements: refused as documented
    if 'exc' in r and far_f32 and r['exc'] == 'ValueError' and 'Negative metric' in r.get('msg', ''):
        return 'volume-kernel-origin-fan'
    if 'exc' in r:
        if q['kind'] == 'n2e' and r['exc'] == 'ValueError' and \
                len(set(len(c) for _, rows in mesh['blocks'] for _, c in rows)) > 1:
            return 'unsupported'        # mixed arities: numpy refuses the ragged gather
        if q['kind'] == 'e2n' and q['mode'] == 'mean' and q['weight'] == 'implicit' and \
                r['exc'] == 'NotImplementedError' and \
                any(t not in AREA_TYPES + VOL_TYPES for t, _ in mesh['blocks']):
            return 'unsupported'        # no metric for pyr / hex2
        return 'raised ' + r['exc']
    if r.get('nonfinite'):
        return 'non-finite result'
    got = impl_rows(r)
    eids = r['elem_ids']
    tol = tol_of(q)
    if q['kind'] == 'n2e' and not q.get('avg', True):
        pos = {x[0]: i for i, x in enumerate(mesh['nodes'])}
        conn = {e: c for _, rows in mesh['blocks'] for e, c in rows}
        wd = len(q['data'][0])
        if len(got) != len(eids):
            return 'gather: wrong number of rows'
        for j, e in enumerate(eids):
            exp = [F(q['data'][pos[n]][c]) for n in conn[e] for c in range(wd)]
            if len(got[j]) != len(exp) or any(abs(a - b) > tol for a, b in zip(got[j], exp)):
                return f'gather: element at position {j} does not get the rows of its own nodes'
            want = [len(eids), len(conn[e]) * wd] if q['ravel'] else [len(eids), len(conn[e]), wd]
            if r.get('orig_shape') != want:
                return 'gather: result shape ' + str(r.get('orig_shape')) + ' instead of ' + str(want)
        return None
    if q['kind'] == 'n2e':
        nodes = [x[0] for x in mesh['nodes']]
        pos = {n: i for i, n in enumerate(nodes)}
        conn = {e: c for _, rows in mesh['blocks'] for e, c in rows}
        if len(got) != len(eids):
            return 'wrong number of rows'
        for j, e in enumerate(eids):
            for c in range(len(q['data'][0])):
                exp = sum(F(q['data'][pos[n]][c]) for n in conn[e]) / len(conn[e])
                if abs(got[j][c] - exp) > tol:
                    return f'element at position {j} is not the mean of its own nodes'
                if q.get('affine'):
                    a, b = q['affine']
                    xyz = {x[0]: x[1:4] for x in mesh['nodes']}
                    cen = [sum(F(xyz[n][k]) for n in conn[e]) / len(conn[e]) for k in range(3)]
                    if c == 0 and abs(got[j][0] - (sum(a[k] * cen[k] for k in range(3)) + b)) > 2 * tol:
                        return f'affine field not reproduced at the centroid of position {j}'
        return None
    if q['mode'] == 'effective':
        weights = None
    elif q['weight'] == 'false':
        weights = {e: F(1) for e in eids}
    elif q['weight'] == 'explicit':
        weights = {e: F(q['weights'][str(e)]) for e in eids}
    else:
        weights = metrics_by_id(mesh)
    exp = expected_e2n(mesh, q, eids, weights)
    if len(got) != len(exp):
        return f'wrong number of rows {len(got)} != {len(exp)}'
    w = len(exp and next((x for x in exp if x is not None), []))
    bad = [i for i, row in enumerate(exp) if row is not None and
           any(abs(got[i][c] - row[c]) > tol for c in range(w))]
    if q['mode'] == 'effective' and all(any(e in t for t in pattern(mesh, q, eids)) for e in eids):
        # (an element without a node — possible only with an `incidence=` argument — has nowhere
        # to put its value: hypothesis of C14_e2n_effective)
        for c in range(w):
            if abs(sum(g[c] for g in got) - sum(F(q['values'][str(e)][c]) for e in eids)) > tol * len(got):
                return 'grand total not conserved'
    if not bad:
        return None
    if far_f32:
        return 'volume-kernel-origin-fan'
    if q['mode'] == 'mean' and q['weight'] == 'implicit' and len(mesh['blocks']) > 1 \
            and not blocks_sorted(mesh):
        exp2 = expected_e2n(mesh, q, eids, scattered_metrics(mesh, eids))
        if all(row is None or all(abs(got[i][c] - row[c]) <= tol for c in range(w))
               for i, row in enumerate(exp2)):
            return 'mixed-metric-order'
    kind = 'effective: not the equal share of each element' if q['mode'] == 'effective' else \
        'mean: not the weighted mean of the touching elements'
    return f'{kind} (node position {bad[0]})'


# ------------------------------------------------------------- Coq side
def qlit(x):
    return lib.coq_Q(F(x))


def field_lit(rows):
    return lib.coq_list([lib.coq_list([qlit(x) for x in row]) for row in rows])


def bmat_lit(rows, nc):
    return (f"(mkb {len(rows)} {nc} " +
            lib.coq_list([lib.coq_list(['true' if x else 'false' for x in r]) for r in rows]) + ')')


def q_to_coq(mesh, q, eids):
    b = lambda x: 'true' if x else 'false'  # noqa
    if q['kind'] == 'n2e':
        return f"{'XN2E' if q.get('avg', True) else 'XGATHER'} {field_lit(q['data'])} {len(q['data'][0])}"
    omit = set(q.get('omit', []))
    opt = lambda key, txt: 'None' if key in omit else f'(Some {txt})'  # noqa
    w = len(next(iter(q['values'].values())))
    vrows = [q['values'][str(e)] for e in eids]
    if q.get('drop_last'):
        vrows = vrows[:-1]
    v = field_lit(vrows)
    mu = metrics_by_id(mesh)
    tbl = lib.coq_list([f'({lib.coq_Z(e)}, {qlit(m)})' for e, m in sorted(mu.items())
                        if m is not None])
    wimp = f"(WImplicit {'true' if VARIANT['by_id'] else 'false'} (table_lookup {tbl}))"
    if q['weight'] == 'false':
        wm = 'WFalse'
    elif q['weight'] == 'explicit':
        wm = '(WExplicit ' + lib.coq_list([qlit(q['weights'][str(e)]) for e in eids]) + ')'
    else:
        wm = wimp
    inc = q.get('inc')
    if not inc:
        ic = 'None'
    elif inc['kind'] == 'own':
        ic = f"(Some (IOwn {b(inc['order1'])}))"
    else:
        rows = [[inc['cols'][str(e)][i] for e in eids] for i in range(inc['nrows'])]
        ic = f"(Some (IGiven {bmat_lit(rows, len(eids))}))"
    return (f"XCALL (mkcall {opt('mode', lib.coq_str(q['mode']))} {opt('order1', b(q['order1']))} "
            f"{opt('raise_neg', b(q.get('raise_neg', True)))} {opt('weight', wm)} {wimp} {ic} {v} {w})")


def res_to_coq(r):
    rows = impl_rows(r)
    if rows is None:
        return 'None'
    return 'Some ' + field_lit(rows)


HEADER = '''From Coq Require Import ZArith QArith String List.
Import ListNotations.
From FV.C13 Require Import Model.
From FV.C14 Require Import Model Prog Corr.
Open Scope string_scope.
Set Printing Width 100000.
Set Printing Depth 100000.
'''


def coq_check(ctx, cases, results, name):
    """-> {case id: [failing step indices]}; history cases are cut into segments
    of consecutive queries on the same mesh state"""
    out = {}
    entries = []
    for c in cases:
        rs = results[c['id']]
        eids = next((r['elem_ids'] for r in rs if 'elem_ids' in r), None)
        if eids is None:
            out[c['id']] = None
            continue
        out[c['id']] = []
        cur, cur_mesh = [], None
        for qi, q in enumerate(c['queries']):
            if q['kind'] == 'mod' or q.get('oracle_only'):
                continue
            mk = q.get('_m', 0) if 'meshes' in c else 0
            if cur and mk != cur_mesh:
                entries.append((c, cur, mesh_at(c, cur[0]), eids))
                cur = []
            cur_mesh = mk
            cur.append(qi)
        if cur:
            entries.append((c, cur, mesh_at(c, cur[0]), eids))
    files, chunk, size = [], [], 0
    for e in entries:
        chunk.append(e)
        size += len(e[1])
        if size >= 150:
            files.append(chunk)
            chunk, size = [], 0
    if chunk:
        files.append(chunk)
    for fi, chunk in enumerate(files):
        items = []
        for k, (c, idx, mesh, eids) in enumerate(chunk):
            rs = results[c['id']]
            qs = ';\n    '.join(
                f"({q_to_coq(mesh, c['queries'][qi], eids)}, {qlit(tol_of(c['queries'][qi]))}, "
                f"{res_to_coq(rs[qi])})" for qi in idx)
            items.append(f"({k}%nat, check_xcase {gen.mesh_to_coq(mesh, lib)}\n   "
                         f"{lib.coq_list([lib.coq_Z(e) for e in eids])}\n   [{qs}])")
        txt = HEADER + 'Definition cases : list (nat * list nat) := [\n' + ';\n'.join(items) + '].\n'
        txt += 'Goal True. idtac "@@ failing". Abort.\n'
        txt += ('Eval vm_compute in filter (fun c => match snd c with [] => false | _ => true end) '
                'cases.\n')
        rc, o, err = ctx.coq_eval(f'{name}_{fi}', txt, timeout=900)
        if rc != 0:
            ctx.log('correspondence file failed to compile:', err[-600:])
            for c, _, _, _ in chunk:
                out[c['id']] = None
            continue
        t = lib.parse_marked(o).get('failing', '')
        t = t.split(': list')[0].replace('%nat', '')
        for m in re.finditer(r'\((\d+),\s*\[([0-9;\s]*)\]\)', t):
            c, idx, _, _ = chunk[int(m.group(1))]
            if out[c['id']] is not None:
                for x in re.findall(r'\d+', m.group(2)):
                    x = int(x)
                    if x >= 1000:       # the translated program (not the hand model) differs
                        PROG_FAIL.add((c['id'], idx[x - 1000]))
                        x -= 1000
                    qi = 999 if x == 999 else idx[x]
                    if qi not in out[c['id']]:
                        out[c['id']].append(qi)
    return out


HEADER_N2E = '''From Coq Require Import ZArith QArith String List.
Import ListNotations.
From FV.C13 Require Import Model.
From FV.C14 Require Import Model N2EProg CorrN2E.
Open Scope string_scope.
Set Printing Width 100000.
Set Printing Depth 100000.
'''


def coq_check_n2e_prog(ctx, cases, results, name):
    """translator validation for convert_nodal2elemental: the interpreter on the translated
    program (gen/N2EProg.v), evaluated in Coq on every n2e call -> [(case id, query index)]
    that differ from the implementation; None when a file does not compile"""
    b = lambda x: 'true' if x else 'false'  # noqa
    entries = []
    for c in cases:
        rs = results[c['id']]
        for qi, q in enumerate(c['queries']):
            if q['kind'] != 'n2e':
                continue
            r = rs[qi]
            three = len(r.get('orig_shape') or []) == 3
            lit = (f"(mkncall {b(q.get('by_name'))} (Some {b(q.get('avg', True))}) "
                   f"(Some {b(q.get('ravel', False))}) {field_lit(q['data'])} {len(q['data'][0])} {b(three)}, "
                   f"{qlit(tol_of(q))}, {res_to_coq(r)})")
            entries.append((c, qi, mesh_at(c, qi), lit))
    bad = []
    for fi in range(0, len(entries), 150):
        chunk = entries[fi:fi + 150]
        items = [f"({k}%nat, check_ncase {gen.mesh_to_coq(mesh, lib)} [{lit}])"
                 for k, (c, qi, mesh, lit) in enumerate(chunk)]
        txt = HEADER_N2E + 'Definition cases : list (nat * list nat) := [\n' + ';\n'.join(items) + '].\n'
        txt += 'Goal True. idtac "@@ failing". Abort.\n'
        txt += ('Eval vm_compute in map fst (filter (fun c => match snd c with [] => false | _ => true end) '
                'cases).\n')
        rc, o, err = ctx.coq_eval(f'{name}_n2eprog_{fi // 150}', txt, timeout=900)
        if rc != 0:
            ctx.log('n2e translator-validation file failed to compile:', err[-600:])
            return None
        t = lib.parse_marked(o).get('failing', '').split(': list')[0].replace('%nat', '')
        bad += [(chunk[int(x)][0]['id'], chunk[int(x)][1]) for x in re.findall(r'\d+', t)]
    return bad


# --------------------------------------------------------- case generation
def queries_for(rng, mesh):
    nodes = mesh['nodes']
    eids = [e for _, rows in mesh['blocks'] for e, _ in rows]
    second = any('2' in t for t, _ in mesh['blocks'])
    qs = []
    w = rng.choice([1, 2, 3])
    qs.append({'kind': 'n2e', 'data': [[rng.randint(-9, 9) for _ in range(w)] for _ in nodes],
               'dtype': rng.choice(['float', 'int', 'int32']), 'by_name': rng.random() < 0.3})
    # flags / layer numbers: bool and small-integer nodal fields
    qs.append({'kind': 'n2e', 'data': [[rng.randint(0, 1) for _ in range(w)] for _ in nodes],
               'dtype': rng.choice(['bool', 'int']), 'by_name': rng.random() < 0.3})
    a = [rng.randint(-3, 3) for _ in range(3)]
    b = rng.randint(-5, 5)
    # the affine field is evaluated exactly and rounded once to a float; the
    # model and the oracle see the exact value of that float
    qs.append({'kind': 'n2e', 'affine': [a, b],
               'data': [[float(sum(a[k] * F(r[1 + k]) for k in range(3)) + b), 7.0]
                        for r in nodes]})

    # calc_average=False: the gathered rows themselves (3-D), ravel=True: flattened per element
    for rv in (False, True):
        wg = rng.choice([1, 2, 3])
        qs.append({'kind': 'n2e', 'avg': False, 'ravel': rv,
                   'data': [[rng.randint(-9, 9) for _ in range(wg)] for _ in nodes],
                   'dtype': rng.choice(['float', 'int', 'int32']), 'by_name': rng.random() < 0.3})

    def values(const_col):
        w = rng.choice([1, 2, 3])
        k = rng.randint(-9, 9)
        return {str(e): [(k if (c == 0 and const_col) else rng.randint(-9, 9)) for c in range(w)]
                for e in eids}
    o1s = [False, True] if second else [False]
    f32 = any(t in ('hex', 'prism', 'pyr', 'hex2') for t, _ in mesh['blocks'])
    far = bool(mesh.get('tags', {}).get('offset'))
    for o in o1s:
        qs.append({'kind': 'e2n', 'mode': 'mean', 'weight': 'false', 'order1': o,
                   'values': values(rng.random() < 0.5)})
        ws = rng.choice([1.0, 1.0, 1.0] + WEIGHT_SCALES)
        qs.append({'kind': 'e2n', 'mode': 'mean', 'weight': 'explicit', 'order1': o,
                   'weights': {str(e): float(rng.randint(1, 9)) * ws for e in eids},
                   'wdtype': 'int' if (ws == 1.0 and rng.random() < 0.6) else 'float',
                   'values': values(rng.random() < 0.5)})
        q = {'kind': 'e2n', 'mode': 'mean', 'weight': 'implicit', 'order1': o,
             'values': values(rng.random() < 0.5), 'f32_kernel': f32}
        qs.append(q)
        qs.append({'kind': 'e2n', 'mode': 'effective', 'weight': 'false', 'order1': o,
                   'values': values(False)})
    # calc_average=True together with ravel=True (the average wins): a configuration of the
    # translated table; private generator so that the main stream is not shifted
    import random as _random
    r2 = _random.Random(repr([r[0] for r in nodes]) + 'avg+ravel')
    qs.append({'kind': 'n2e', 'avg': True, 'ravel': True, 'by_name': r2.random() < 0.3,
               'data': [[r2.randint(-9, 9) for _ in range(2)] for _ in nodes],
               'dtype': r2.choice(['float', 'int'])})
    inverted = bool(mesh.get('tags', {}).get('inverted'))
    if inverted:
        # not "positive elements": raise_negative_volume=True must refuse, False uses the signed metric
        qs.append({'kind': 'e2n', 'mode': 'mean', 'weight': 'implicit', 'order1': False,
                   'raise_neg': False, 'values': values(rng.random() < 0.5)})
    # a string that is not a mode
    qs.append({'kind': 'e2n', 'mode': rng.choice(['median', 'Mean', 'MEAN', '', 'effective ', 'sum',
                                                  'means', 'nodal'] + 3 * EXTRA_MODES),
               'weight': rng.choice(['false', 'implicit']), 'order1': False, 'values': values(False)})
    for q in qs:
        if q['kind'] != 'e2n':
            continue
        q['vdtype'] = rng.choice(['float', 'int', 'int'])
        q.setdefault('raise_neg', True if inverted else rng.random() < 0.8)
        # the `incidence=` argument: the mesh's own matrix (built with ITS order1_only; the call's
        # flag is then ignored) or an arbitrary boolean matrix with one column per element
        u = rng.random()
        if u < 0.2:
            q['inc'] = {'kind': 'own', 'order1': rng.choice(o1s)}
        elif u < 0.35:
            k = rng.randint(1, 5)
            q['inc'] = {'kind': 'given', 'nrows': k,
                        'cols': {str(e): [int(rng.random() < 0.5) for _ in range(k)] for e in eids}}
        # keywords left out of the call where the documented default says the same
        can = [key for key, dv in (('mode', q['mode'] == 'mean'), ('order1', q['order1'] is False),
                                   ('raise_neg', q['raise_neg'] is True),
                                   ('weight', q['weight'] == 'implicit')) if dv]
        u = rng.random()
        q['omit'] = can if u < 0.4 else [key for key in can if rng.random() < 0.5] if u < 0.7 else []
    qs = [q for q in qs if not (q['kind'] == 'e2n' and q['mode'] == 'mean' and q['weight'] == 'implicit'
                                and inverted and not q['raise_neg'] and zero_weight_sum(mesh, q))]
    return qs


def invert_some(mesh, rng):
    """turn some tets / hexes inside out (swap two nodes / bottom and top face):
    their signed volume becomes negative — outside "positive elements", used
    for the raise_negative_volume glue"""
    n = 0
    for t, rows in mesh['blocks']:
        for i, (e, c) in enumerate(rows):
            if t in ('tet', 'hex') and (rng.random() < 0.4 or (n == 0 and i == len(rows) - 1)):
                rows[i] = [e, [c[1], c[0]] + list(c[2:])] if t == 'tet' else \
                    [e, list(c[4:8]) + list(c[0:4])]
                n += 1
    mesh['tags']['inverted'] = True


def malformed(rng, mesh):
    m = copy.deepcopy(mesh)
    eids = [e for _, rows in m['blocks'] for e, _ in rows]
    kind = rng.choice(['short-nodal', 'short-elemental'])
    if kind == 'short-nodal':
        qs = [{'kind': 'n2e', 'data': [[1] for _ in m['nodes'][1:]]}]
    else:
        qs = [{'kind': 'e2n', 'mode': 'mean', 'weight': 'false', 'order1': False,
               'drop_last': True, 'values': {str(e): [1] for e in eids}}]
    m['tags'] = dict(m.get('tags', {}), malformed=kind)
    return m, qs


def gen_cases(ctx):
    n_mesh = 80 if ctx.tier == 'quick' else 500
    if TIE['mode'] != 'T':
        n_mesh = max(n_mesh, 220)       # widened correspondence when the translator is not in force
    cases = []
    kinds = ['tri', 'quad', 'mixed2d', 'tet', 'tet2', 'hex', 'mixed3dv', 'hex2', 'mixed3d2',
             'mixed2d', 'mixed3d', 'mixed3dv']
    for i in range(n_mesh):
        kind = kinds[i % len(kinds)] if i < 2 * len(kinds) else ctx.rng.choice(kinds)
        mx = 26 if ctx.tier == 'quick' else ctx.rng.choice([26, 26, 40])
        mesh = gen.gen_mesh(ctx.rng, kind=kind, max_nodes=mx)
        if ctx.rng.random() < 0.8:
            respace(mesh, ctx.rng)
            mesh['tags']['respaced'] = True
        # the clauses of the property are scale-invariant: same mesh in other
        # length units (tiny and huge), exact powers of two and powers of ten
        sc = ctx.rng.choice([1.0, 1.0, 1.0] + SCALES)
        if sc != 1.0:
            rescale(mesh, sc)
        mesh['tags']['scale'] = sc
        if sc >= 1e-4 and ctx.rng.random() < 0.4:
            off = ctx.rng.choice(OFFSETS)
            translate(mesh, off, sc)
            mesh['tags']['offset'] = list(off)
        if kind in ('tet', 'hex') and ctx.rng.random() < 0.5:
            invert_some(mesh, ctx.rng)
        cases.append({'id': len(cases), 'mesh': mesh, 'queries': queries_for(ctx.rng, mesh)})
    # history stream on ONE object: conversions / connectivity assignment
    # (fem_data.elements.data = rows of other elements: shapes stay valid) / the
    # same conversions again; the model is evaluated on the modified mesh
    for c in [x for x in cases if len(x['mesh']['blocks']) == 1
              and len(x['mesh']['blocks'][0][1]) > 1 and not x['mesh']['tags'].get('inverted')][::2]:
        mesh = c['mesh']
        t, rows = mesh['blocks'][0]
        probe = [q for q in c['queries'] if q['kind'] == 'n2e' or
                 (q['kind'] == 'e2n' and q['weight'] in ('false', 'implicit'))]
        meshes, steps = [mesh], []
        for rnd in range(2):
            qs = copy.deepcopy(probe)
            ctx.rng.shuffle(qs)
            for q in qs:
                q['_m'] = len(meshes) - 1
            steps.extend(qs)
            if rnd == 0:
                k = ctx.rng.randint(1, len(rows) - 1)
                conns = [cc for _, cc in rows]
                conns = conns[k:] + conns[:k]
                mod = {'kind': 'mod', 'op': 'set_conn', 'how': 'permute-rows', '_m': 0,
                       'rows': {str(e): cc for (e, _), cc in zip(rows, conns)}}
                steps.append(mod)
                meshes.append(apply_mod_py(mesh, mod))
                meshes[-1]['tags'] = mesh['tags']
        cases.append({'id': len(cases), 'mesh': mesh, 'meshes': meshes, 'queries': steps,
                      'shared': True, 'history': True})
    for i in range(3 if ctx.tier == 'quick' else 12):
        mesh = gen.gen_mesh(ctx.rng, kind=ctx.rng.choice(['tri', 'tet', 'hex']), n_unref=0)
        m, qs = malformed(ctx.rng, mesh)
        cases.append({'id': len(cases), 'mesh': m, 'queries': qs})
    return cases


# ------------------------------------------------------------ evaluation
def evaluate(ctx, cases, name):
    results = run_impl(ctx, cases, tag=name)
    oracle_fail, unsupported = {}, 0
    for c in cases:
        fails = []
        if not c['mesh'].get('tags', {}).get('malformed'):
            for qi, (q, r) in enumerate(zip(c['queries'], results[c['id']])):
                if q['kind'] == 'mod':
                    if 'exc' in r:
                        fails.append((qi, 'in-place modification raised ' + r['exc']))
                    continue
                d = oracle(mesh_at(c, qi), q, r)
                if d == 'unsupported':
                    unsupported += 1
                elif d is not None:
                    fails.append((qi, d))
        oracle_fail[c['id']] = fails
    corr = coq_check(ctx, cases, results, name)

    # which of the two modelled assignments of the 'mix' branch the code follows is
    # decided by behaviour (the syntactic detection is only the first guess): if
    # implicit-weight queries disagree under the guessed variant, all cases with
    # such queries are re-evaluated under the other one, and that variant is
    # adopted when every one of them then agrees
    def implicit_fails(cr):
        return [(c['id'], qi) for c in cases for qi in (cr.get(c['id']) or [])
                if qi != 999 and c['queries'][qi].get('weight') == 'implicit'
                and c['queries'][qi].get('mode') == 'mean']
    if implicit_fails(corr):
        sub = [c for c in cases if any(q.get('weight') == 'implicit' for q in c['queries'])]
        VARIANT['by_id'] = not VARIANT['by_id']
        corr2 = coq_check(ctx, sub, results, name + '_alt')
        if not implicit_fails(corr2) and all(corr2.get(c['id']) is not None for c in sub):
            corr.update(corr2)
            ctx.notes['metric_mix_variant_by_behaviour'] = 'by_id' if VARIANT['by_id'] else 'scatter'
        else:
            VARIANT['by_id'] = not VARIANT['by_id']
    return results, oracle_fail, corr, unsupported


def drop_element(mesh, bi, ri):
    m = copy.deepcopy(mesh)
    del m['blocks'][bi][1][ri]
    if not m['blocks'][bi][1]:
        del m['blocks'][bi]
    return m


def restrict_query(q, mesh):
    q = copy.deepcopy(q)
    eids = set(str(e) for _, rows in mesh['blocks'] for e, _ in rows)
    if q['kind'] == 'e2n':
        q['values'] = {k: v for k, v in q['values'].items() if k in eids}
        if 'weights' in q:
            q['weights'] = {k: v for k, v in q['weights'].items() if k in eids}
        if q.get('inc') and q['inc']['kind'] == 'given':
            q['inc']['cols'] = {k: v for k, v in q['inc']['cols'].items() if k in eids}
    return q


def shrink(ctx, case, qi, pred, rounds=6):
    cur = {'id': 0, 'mesh': case['mesh'], 'queries': [case['queries'][qi]]}
    if case.get('shared'):
        meshes, steps = rebuild_history(case['mesh'], case['queries'][:qi + 1])
        for m in meshes:
            m.setdefault('tags', case['mesh'].get('tags', {}))
        return {'id': 0, 'mesh': case['mesh'], 'meshes': meshes, 'queries': steps, 'shared': True}
    for rd in range(rounds):
        cands = []
        for bi, (t, rows) in enumerate(cur['mesh']['blocks']):
            for ri in range(len(rows)):
                if sum(len(r) for _, r in cur['mesh']['blocks']) > 1:
                    cands.append(drop_element(cur['mesh'], bi, ri))
        cands = cands[:40]
        if not cands:
            break
        cs = [{'id': i, 'mesh': m, 'queries': [restrict_query(cur['queries'][0], m)]}
              for i, m in enumerate(cands)]
        try:
            ev = evaluate(ctx, cs, f'shrink{rd}')
        except Exception as e:  # noqa
            ctx.log('shrink aborted:', e)
            break
        nxt = next((c for c in cs if pred(ev, c['id'])), None)
        if nxt is None:
            break
        cur = {'id': 0, 'mesh': nxt['mesh'], 'queries': nxt['queries']}
    return cur


def describe(mesh):
    return {'nodes': mesh['nodes'], 'blocks': mesh['blocks']}


def summarise(r):
    out = {k: r.get(k) for k in ('exc', 'msg', 'elem_ids', 'nonfinite', 'shape')}
    if 'rows' in r:
        out['rows'] = [[float(F(n, d)) for n, d in row] for row in r['rows']][:12]
    return out


def report(ctx, cases, ev, do_shrink=True):
    results, oracle_fail, corr, _ = ev
    n_oracle = n_corr = 0
    budget = 3
    for c in cases:
        for qi, d in oracle_fail[c['id']]:
            q = c['queries'][qi]
            n_oracle += 1
            cls = re.sub(r'[\d(].*', '', d).strip()[:70]
            sig = {'fn': q['kind'], 'mode': q.get('mode'), 'weight': q.get('weight'),
                   'defect': cls, 'several_types': len(c['mesh']['blocks']) > 1}
            if d in ('mixed-metric-order', 'volume-kernel-origin-fan'):
                sig = {'fn': 'e2n', 'weight': 'implicit', 'defect': d}
            small, sqi = c, qi
            is_known = any(f.get('property') == PID and f.get('status') == 'open' and
                           all(sig.get(k) == v for k, v in f.get('match', {}).items())
                           for f in ctx.findings)
            if do_shrink and not is_known and budget > 0 and \
                    json.dumps(sig, sort_keys=True) not in ctx._seen_sigs:
                budget -= 1
                small = shrink(ctx, c, qi, lambda e2, i: any(
                    re.sub(r'[\d(].*', '', x[1]).strip()[:70] == cls for x in e2[1][i]))
                sqi = len(small['queries']) - 1 if small.get('shared') else 0
            r = run_impl(ctx, [small], tag='shrunk')[small['id']][sqi] if small is not c \
                else results[c['id']][qi]
            if c.get('history'):
                sig = dict(sig, after_connectivity_assignment=any(
                    x['kind'] == 'mod' for x in small['queries'][:sqi]))
            ctx.violation('impl-violation',
                          {'mesh': describe(small['mesh']), 'query': strip(small['queries'][sqi]),
                           'shared_object': bool(small.get('shared')),
                           'earlier_steps_on_the_same_object':
                               [strip(x) for x in small['queries'][:sqi]]
                               if small.get('shared') else []},
                          'conversion law of the property (' + d + ')', summarise(r),
                          'property oracle on the implementation / C14 theorems',
                          found_input=True, signature=sig, what=f"{q['kind']} "
                          f"{ {k: q.get(k) for k in ('mode', 'weight', 'order1')} }: {d}")
        cf = corr[c['id']]
        if cf is None:
            n_corr += 1
            ctx.violation('correspondence', {'mesh': describe(c['mesh'])}, 'model evaluates',
                          'coqc failed / no element order', 'correspondence C14', found_input=False,
                          signature={'kind': 'correspondence', 'defect': 'coq-eval-failed'})
            continue
        for qi in cf:
            n_corr += 1
            if qi == 999:
                ctx.violation('correspondence', {'mesh': describe(c['mesh'])},
                              'elements.ids = Model.elems_of order',
                              results[c['id']][0].get('elem_ids'), 'correspondence C14 (element order)',
                              found_input=False, signature={'kind': 'correspondence',
                                                            'defect': 'element-order'})
                continue
            q = c['queries'][qi]
            r = results[c['id']][qi]
            has_oracle = any(x == qi for x, _ in oracle_fail[c['id']])
            sig = {'kind': 'correspondence', 'fn': q['kind'], 'mode': q.get('mode'),
                   'weight': q.get('weight'), 'several_types': len(c['mesh']['blocks']) > 1,
                   'malformed': c['mesh']['tags'].get('malformed')}
            small, sqi = c, qi
            if do_shrink and budget > 0 and json.dumps(sig, sort_keys=True) not in ctx._seen_sigs:
                budget -= 1
                small = shrink(ctx, c, qi, lambda e2, i: bool(e2[2][i]) or e2[2][i] is None)
                sqi = len(small['queries']) - 1 if small.get('shared') else 0
                r = run_impl(ctx, [small], tag='shrunk')[0][sqi]
            if c.get('history'):
                sig = dict(sig, after_connectivity_assignment=any(
                    x['kind'] == 'mod' for x in small['queries'][:sqi]))
            ctx.violation('correspondence',
                          {'mesh': describe(small['mesh']), 'query': strip(small['queries'][sqi]),
                           'shared_object': bool(small.get('shared')),
                           'earlier_steps_on_the_same_object':
                               [strip(x) for x in small['queries'][:sqi]]
                               if small.get('shared') else []},
                          'Model.run_cquery = implementation within 2^-40 (1 + max|input|)',
                          summarise(r), 'correspondence C14 (Model.run_cquery)',
                          found_input=has_oracle, signature=sig,
                          what=f"model and implementation differ on {q['kind']} "
                               f"{ {k: q.get(k) for k in ('mode', 'weight', 'order1', 'raise_neg', 'omit')} }"
                               + (' [incidence= given]' if q.get('inc') else '')
                               + (' [the translated program differs as well]'
                                  if (c['id'], qi) in PROG_FAIL else ''))
    return n_oracle, n_corr


def load_corpus():
    d = lib.VERIF / 'corpus' / PID
    out = []
    if d.exists():
        for f in sorted(d.glob('*.json')):
            j = json.loads(f.read_text())
            out.append({'mesh': j['mesh'], 'queries': j['queries'], 'corpus': f.name})
    return out


def main(ctx):
    ctx.rule = ('lattice meshes with re-spaced grid lines (tri, quad, tri+quad, tet, tet2, hex, '
                'hex+tet+prism+pyr, hex2, second-order mixed), 1-3 components, unreferenced nodes, '
                'ids 1..n / sparse / >2^31, node/element/block storage order shuffled; per mesh: '
                'n2e of a random integer field and of an affine field of the coordinates, e2n '
                'mean x {weight False, explicit integer weights, implicit metric} and effective, '
                'both order1_only values on second-order meshes, field width 1-3, integer values; '
                'n2e with calc_average=False with / without ravel; e2n with incidence= (own matrix built '
                'with its own order1_only / arbitrary boolean matrix), strings that are not modes, '
                'raise_negative_volume both values, tet / hex meshes with inverted elements, keywords '
                'left out of the call (resolved with the translated defaults); '
                'one case = one (mesh, query); non-trivial = the implementation returned an '
                'array; distinct = distinct (mesh, query)')
    ctx.trusted += [
        'hand model coq/C14/Model.v + Gather.v of signal_processor.py conversions on top of the C13 '
        'incidence model (tie H), pinned by the correspondence',
        'translate/c14_e2n.py (symbolic execution of convert_elemental2nodal -> coq/C14/gen/E2NProg.v): '
        'its output is compared with the reference table by a theorem and evaluated in Coq against the '
        'implementation on every e2n call; the meaning of the sparse-matrix primitives is the '
        "interpreter's (coq/C14/Prog.v)",
        'floating point is modelled as exact: each float of the implementation enters Coq as its '
        f'exact rational and must lie within 2^-{TOL_BITS} (1 + max|input|) of the model value over Q',
        'element metrics for the implicit weights are computed exactly by harness/c14.py '
        '(areas of planar z=const tri/quad, volumes of box/half-box/Kuhn-tet cells) and enter the '
        'model as a table `mu`; femio\'s own area/volume kernels are C11\'s subject',
        'harness/c14.py oracle (the property in Python, exact fractions) is a search aid, not proof',
    ]
    ctx.assumptions += ['every query on a freshly built FEMData', 'positive elements',
                        'wf ids (distinct node ids, distinct element ids)']
    ctx.scratch = ctx.scratch / f'run_{os.getpid()}'     # concurrent runs do not collide
    ctx.scratch.mkdir(parents=True, exist_ok=True)
    try:
        variant, sha = detect_metric_variant()
        ctx.sources['geometry_processor.py:calculate_element_metrics'] = sha
        ctx.notes['metric_mix_variant'] = variant
        VARIANT['by_id'] = variant == 'by_id'
    except (ValueError, SyntaxError, OSError) as e:
        # not a violation: the variant is then decided by behaviour (see evaluate)
        ctx.notes['metric_mix_variant'] = 'not recognised syntactically: ' + str(e)
    # ---- tie T: convert_elemental2nodal executed symbolically -> gen/E2NProg.v
    gen_file = lib.COQ / 'C14' / 'gen' / 'E2NProg.v'
    baseline = lib.COQ / 'C14' / 'gen_baseline' / 'E2NProg.v'
    try:
        text, info = c14_e2n.translate(lib.REPO)
        lib.write_if_changed(gen_file, text)
        ctx.sources['signal_processor.py:' + '+'.join(info['methods'])] = info['sha']
        EXTRA_MODES[:] = [x for x in info['mode_literals'] if x not in ('effective', 'mean')]
        ctx.notes['e2n_translated'] = {'methods_read': info['methods'],
                                       'mode_literals': info['mode_literals'],
                                       'defaults': info['defaults']}
    except c14_e2n.Untranslatable as e:
        TIE.update(mode='H', reason=f'translator could not read convert_elemental2nodal: {e}')
        ctx.log(TIE['reason'], '-> baseline table + widened correspondence')
        lib.write_if_changed(gen_file, baseline.read_text())
    scan = [lib.COQ / 'C14', lib.COQ / 'C13']
    proof_ok, log = ctx.build_props('C14/Props.v', extra_targets=['C14/Corr.vo'], scan_dirs=scan)
    if not proof_ok and TIE['mode'] == 'T':
        # the table read from the source is not the reference table (or the proofs broke): the
        # theorems are then built about the committed baseline table, which becomes the hand
        # model of that region, and the correspondence is widened — a changed body means
        # "search deeper", a violation needs a failing input
        diff = ''
        ok2, _, _ = lib.coq_make(['C14/Corr.vo'])
        if ok2:
            rc, o, err = ctx.coq_eval('tablediff', 'From Coq Require Import String List.\n'
                                      'From FV.C14 Require Import Prog Corr.\nOpen Scope string_scope.\n'
                                      'Set Printing Width 100000.\nGoal True. idtac "@@ diff". Abort.\n'
                                      'Eval vm_compute in table_diff.\n')
            diff = ' '.join(lib.parse_marked(o).get('diff', '').split())[:600] if rc == 0 else ''
        TIE.update(mode='H', reason='the program read from convert_elemental2nodal is not the '
                   'reference table' + (f' (configurations that differ: {diff})' if diff else
                                        ' / Props.v does not build against it'))
        ctx.log(TIE['reason'], '-> baseline table + widened correspondence')
        lib.write_if_changed(gen_file, baseline.read_text())
        first_log = log
        ctx.obligations.clear()
        proof_ok, log = ctx.build_props('C14/Props.v', extra_targets=['C14/Corr.vo'], scan_dirs=scan)
        if not proof_ok:
            log = first_log + log
    if TIE['mode'] != 'T':
        for o in ctx.obligations:
            if 'translated' in o['name']:
                o['note'] = (o.get('note') or '') + ' [about the baseline table coq/C14/gen_baseline/' \
                    'E2NProg.v: ' + TIE['reason'][:200] + ']'
        ctx.trusted.append('baseline table coq/C14/gen_baseline/E2NProg.v as the hand model of the '
                           'straight-line part of convert_elemental2nodal (' + TIE['reason'][:300] + ')')
    # ---- tie T for convert_nodal2elemental (second props file; same policy)
    gen_n = lib.COQ / 'C14' / 'gen' / 'N2EProg.v'
    base_n = lib.COQ / 'C14' / 'gen_baseline' / 'N2EProg.v'
    try:
        text, info = c14_n2e.translate(lib.REPO)
        lib.write_if_changed(gen_n, text)
        ctx.sources['signal_processor.py:' + '+'.join(info['methods'])] = info['sha']
        ctx.notes['n2e_translated'] = {'methods_read': info['methods'], 'defaults': info['defaults']}
    except c14_e2n.Untranslatable as e:
        TIE_N2E.update(mode='H', reason=f'translator could not read convert_nodal2elemental: {e}')
        ctx.log(TIE_N2E['reason'], '-> baseline table')
        lib.write_if_changed(gen_n, base_n.read_text())
    n_before = len(ctx.obligations)
    ok_n, log_n = ctx.build_props('C14/PropsN2E.v', extra_targets=['C14/CorrN2E.vo'], scan_dirs=scan)
    if not ok_n and TIE_N2E['mode'] == 'T':
        TIE_N2E.update(mode='H', reason='the program read from convert_nodal2elemental is not the '
                       'reference table / PropsN2E.v does not build against it')
        ctx.log(TIE_N2E['reason'], '-> baseline table')
        lib.write_if_changed(gen_n, base_n.read_text())
        del ctx.obligations[n_before:]
        ok_n, log_n = ctx.build_props('C14/PropsN2E.v', extra_targets=['C14/CorrN2E.vo'], scan_dirs=scan)
    if TIE_N2E['mode'] != 'T':
        for o in ctx.obligations[n_before:]:
            if 'translated' in o['name']:
                o['note'] = (o.get('note') or '') + ' [about the baseline table coq/C14/gen_baseline/' \
                    'N2EProg.v: ' + TIE_N2E['reason'][:200] + ']'
        ctx.trusted.append('baseline table coq/C14/gen_baseline/N2EProg.v as the hand model of the '
                           'dispatch of convert_nodal2elemental (' + TIE_N2E['reason'][:300] + ')')
    if not ok_n:
        log = log + log_n
    proof_ok = proof_ok and ok_n
    if not proof_ok:
        ctx.notes['build_log_tail'] = log[-1500:]
        lib.coq_make(['C14/Corr.vo'])
    cases = []
    for c in load_corpus():
        c['id'] = len(cases)
        c['mesh'].setdefault('tags', {'kind': 'corpus'})
        cases.append(c)
    n_corpus = len(cases)
    for c in gen_cases(ctx):
        c['id'] = len(cases)
        cases.append(c)
    ev = evaluate(ctx, cases, 'corr')
    results, oracle_fail, corr, unsupported = ev
    nq = 0
    for c in cases:
        tg = c['mesh'].get('tags', {})
        ctx.count('mesh_kind:' + str(tg.get('kind')))
        ctx.count('ids:' + str(tg.get('ids')))
        ctx.count('n_types:' + str(len(c['mesh']['blocks'])))
        ctx.count('blocks_id_sorted:' + str(blocks_sorted(c['mesh'])))
        ctx.count('length_scale:%g' % tg.get('scale', 1.0))
        ctx.count('offset_from_origin:' + ('%.3g' % max(abs(x) for x in tg['offset'])
                                           if tg.get('offset') else '0'))
        ctx.count('node_order:' + str(tg.get('node_order')))
        if tg.get('malformed'):
            ctx.count('malformed:' + tg['malformed'])
        ctx.count('object:' + ('history-with-connectivity-assignment' if c.get('history')
                               else 'fresh-per-query'))
        for qi, (q, r) in enumerate(zip(c['queries'], results[c['id']])):
            if q['kind'] == 'mod':
                continue
            nq += 1
            ctx.count('query:' + q['kind'] + (':' + ('mean' if q['mode'] == 'mean' else 'effective'
                                                     if q['mode'] == 'effective' else 'not-a-mode')
                                              + ':' + q['weight'] if q['kind'] == 'e2n' else
                                              '' if q.get('avg', True) else
                                              ':calc_average=False' + (':ravel' if q['ravel'] else '')))
            if q['kind'] == 'e2n':
                ctx.count('incidence_arg:' + (q['inc']['kind'] if q.get('inc') else 'none'))
                ctx.count('raise_negative_volume:' + str(q.get('raise_neg', True)))
                ctx.count('keywords_left_out:' + str(len(q.get('omit', []))))
            ctx.count('inverted_elements:' + str(bool(tg.get('inverted'))))
            if q.get('oracle_only'):
                ctx.count('tie:oracle-only (float32 origin-fan volume kernel far from the origin)')
            if q['kind'] == 'n2e':
                ctx.count('nodal_dtype:' + q.get('dtype', 'float') + (':by-name' if q.get('by_name') else ''))
            else:
                ctx.count('elemental_dtype:' + q.get('vdtype', 'float'))
            if q.get('weights'):
                ctx.count('explicit_weight_magnitude:1e%d' % round(
                    __import__('math').log10(max(q['weights'].values()))))
            ctx.count('impl:' + ('raised ' + r['exc'] if 'exc' in r else 'array'))
            ctx.case([describe(mesh_at(c, qi)), strip(q), qi if c.get('shared') else 0],
                     nontrivial='rows' in r,
                     sample={'mesh': describe(mesh_at(c, qi)), 'query': strip(q), 'impl': summarise(r)}
                     if len(c['mesh']['nodes']) <= 6 else None)
    ctx.count('oracle:unsupported-by-femio', unsupported)
    n_oracle, n_corr = report(ctx, cases, ev)
    nbad = coq_check_n2e_prog(ctx, cases, results, 'corr') if proof_ok or \
        (lib.COQ / 'C14' / 'CorrN2E.vo').exists() else None
    if nbad is None:
        n_corr += 1
        ctx.violation('correspondence', {}, 'the translated n2e program evaluates', 'coqc failed',
                      'translator validation C14 (CorrN2E.run_ncall)', found_input=False,
                      signature={'kind': 'correspondence', 'fn': 'n2e', 'defect': 'n2e-program-eval-failed'})
    else:
        for cid, qi in nbad[:5]:
            c = next(x for x in cases if x['id'] == cid)
            q = c['queries'][qi]
            n_corr += 1
            ctx.violation('correspondence',
                          {'mesh': describe(mesh_at(c, qi)), 'query': strip(q),
                           'shared_object': bool(c.get('shared')),
                           'earlier_steps_on_the_same_object':
                               [strip(x) for x in c['queries'][:qi]] if c.get('shared') else []},
                          'interpreter on the translated program of convert_nodal2elemental = implementation',
                          summarise(results[cid][qi]), 'translator validation C14 (CorrN2E.run_ncall)',
                          found_input=any(x == qi for x, _ in ev[1][cid]),
                          signature={'kind': 'correspondence', 'fn': 'n2e', 'defect': 'translated-program-differs',
                                     'avg': q.get('avg', True), 'ravel': q.get('ravel', False),
                                     'by_name': bool(q.get('by_name'))},
                          what='the program translated from convert_nodal2elemental and the implementation differ')
    ctx.notes['tie_n2e_program'] = (
        'T (convert_nodal2elemental executed symbolically on this tree -> coq/C14/gen/N2EProg.v; '
        'C14_n2e_program_translated checks it against the reference table; the interpreter on it is '
        'evaluated in Coq on every n2e call)' if TIE_N2E['mode'] == 'T' else
        f"H ({TIE_N2E['reason']}; baseline table + the correspondence of the hand model)")
    ctx.notes['n2e_translated_program_disagreements'] = len(nbad or [])
    ctx.corr = {'cases': nq, 'meshes': len(cases), 'corpus_meshes': n_corpus,
                'disagreements': n_corr, 'tolerance': f'2^-{TOL_BITS} * (1 + max|input|)'}
    ctx.notes['tie_e2n_program'] = (
        'T (convert_elemental2nodal executed symbolically on this tree -> coq/C14/gen/E2NProg.v; '
        'C14_e2n_program_translated checks it against the reference table; both the hand model and the '
        'translated program are evaluated in Coq on every e2n call)' if TIE['mode'] == 'T' else
        f"H ({TIE['reason']}; baseline model + widened correspondence, {nq} cases)")
    ctx.notes['translated_program_disagreements'] = len(PROG_FAIL)
    ctx.notes['search_evaluations'] = nq
    ctx.notes['impl_property_failures'] = n_oracle
    if not proof_ok and n_oracle == 0 and n_corr == 0:
        bad = [o['name'] for o in ctx.obligations if not o['discharged']]
        ctx.violation('proof-broken', {}, 'all theorems of C14/Props.v check', 'do not check',
                      ', '.join(bad), found_input=False, signature={'kind': 'proof-broken'})
    rc = ctx.finish()
    shutil.rmtree(ctx.scratch, ignore_errors=True)
    return rc


def replay(path):
    rp = json.loads(Path(path).read_text())
    c = rp['case']
    ctx = lib.Ctx(PID, 'quick')
    ctx.scratch = ctx.scratch / f'replay_{os.getpid()}'
    ctx.scratch.mkdir(parents=True, exist_ok=True)
    if 'mesh' not in c or 'query' not in c:
        print('nothing to replay on the implementation:', json.dumps(rp, indent=1)[:2000])
        return 1
    mesh = {'nodes': c['mesh']['nodes'], 'blocks': c['mesh']['blocks'], 'tags': {'kind': 'replay'}}
    pre = c.get('earlier_steps_on_the_same_object', []) if c.get('shared_object') else []
    meshes, steps = rebuild_history(mesh, pre + [c['query']])
    for m in meshes:
        m['tags'] = {'kind': 'replay'}
    case = {'id': 0, 'mesh': mesh, 'meshes': meshes, 'queries': steps,
            'shared': bool(c.get('shared_object'))}
    lib.coq_make(['C14/Model.vo'])
    try:
        VARIANT['by_id'] = detect_metric_variant()[0] == 'by_id'
    except (ValueError, SyntaxError, OSError) as e:
        print('metric variant not recognised:', e)
    results, oracle_fail, corr, _ = evaluate(ctx, [case], 'replay')
    print('implementation:', json.dumps(summarise(results[0][len(pre)])))
    print('property oracle:', oracle_fail[0] or 'holds')
    print('model agrees with implementation:', corr[0] == [] if corr[0] is not None else 'coq failed')
    bad = bool(oracle_fail[0]) or corr[0] is None or bool(corr[0])
    print('property/correspondence', 'VIOLATED' if bad else 'holds', 'on this input')
    return 1 if bad else 0


if __name__ == '__main__':
    if len(sys.argv) > 2 and sys.argv[1] == 'replay':
        sys.exit(replay(sys.argv[2]))
    tier = sys.argv[1] if len(sys.argv) > 1 else 'quick'
    sys.exit(main(lib.Ctx(PID, tier)))
