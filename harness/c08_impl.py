"""C08 child process: runs femio attribute histories and records every public
read path after every step.  Input: JSON spec on stdin; output: JSON file."""
import contextlib
import io
import json
import random
import sys

import numpy as np
import pandas as pd

with contextlib.redirect_stdout(io.StringIO()):
    from femio import FEMAttribute, FEMAttributes, FEMElementalAttribute

BIG = 10 ** 15  # marker for a value that is not an integer-valued float


def num(x):
    try:
        f = float(x)
    except Exception:
        return BIG
    if f != f or f in (float('inf'), float('-inf')) or not f.is_integer():
        return BIG
    return int(f)


def rows_of(arr, ts):
    """ndarray -> list of flattened integer rows, one per id"""
    arr = np.asarray(arr)
    if ts:
        arr = np.moveaxis(arr, 0, 1)
    n = arr.shape[0]
    flat = np.reshape(arr, (n, -1)) if arr.size or arr.ndim > 1 else np.reshape(arr, (n, 0))
    return [[num(v) for v in r] for r in flat.tolist()]


DTYPE = ['float64']      # dtype of the arrays handed to femio in the current case


def to_arr(rows, tail, ts, T):
    """model rows -> ndarray as a caller would pass it"""
    n = len(rows)
    a = np.array(rows, dtype=float).astype(DTYPE[0])
    if ts:
        a = a.reshape([n, T] + list(tail))
        return np.ascontiguousarray(np.moveaxis(a, 0, 1))
    return a.reshape([n] + list(tail))


def frame_rows(df, ts):
    if ts:
        return rows_of(df.values, True)
    return rows_of(df.values, False)


def slice_obs(f, ts, flags):
    """(ids, rows) of a slice-like FEMAttribute, or None when it raises"""
    try:
        with contextlib.redirect_stdout(io.StringIO()):
            s = f()
            ids = [int(i) for i in s.ids]
            d = rows_of(s.data, s.time_series)
            fr = frame_rows(s.data_frame, s.time_series)
            fi = [int(i) for i in s.data_frame.index]
    except Exception:
        return None
    if d != fr or fi != ids:
        flags.append('slice-own-views-differ')
    if len(ids) != len(d):
        flags.append('slice-length')
        return None
    return [[i, r] for i, r in zip(ids, d)]


def read_all(a, q, q1, ks, k1, others=(), cq=None):
    flags = []
    ts = a.time_series
    o = {'q': q, 'q1': q1, 'ks': ks, 'k1': k1}
    o['ids'] = [int(i) for i in a.ids]
    try:
        o['data'] = rows_of(a.data, ts)
    except Exception:
        o['data'] = None
    try:
        dd = a.to_dict()
        if [int(i) for i in dd['ids']] != o['ids'] or rows_of(dd['data'], ts) != o['data']:
            flags.append('to_dict')
        if rows_of(a.values, ts) != o['data']:
            flags.append('values')
    except Exception:
        if o['data'] is not None:
            flags.append('to_dict-raises')
    if len(a) != len(o['ids']):
        flags.append('len')
    df = a.data_frame
    o['frame'] = [[int(i), r] for i, r in zip(df.index, frame_rows(df, ts))]
    o['loc'] = slice_obs(lambda: a.loc[q], ts, flags)
    o['loc1'] = slice_obs(lambda: a.loc[q1], ts, flags)
    o['iloc'] = slice_obs(lambda: a.iloc[ks], ts, flags)
    o['iloc1'] = slice_obs(lambda: a.iloc[k1], ts, flags)
    try:
        o['getitem'] = rows_of(a[q], ts)
    except Exception:
        o['getitem'] = None
    o['filter'] = slice_obs(lambda: a.filter_with_ids(q), False, flags)
    try:
        r = a.ids2indices(q)
        o['i2i'] = [int(k) for k in np.ravel(r)]
    except Exception:
        o['i2i'] = None
    # whole-table reads (state-only oracle: does not depend on the random query)
    ids = o['ids']
    n = len(ids)
    full = {}
    fflags = []
    full['loc'] = slice_obs(lambda: a.loc[ids], ts, fflags)
    full['iloc'] = slice_obs(lambda: a.iloc[list(range(n))], ts, fflags)
    full['filter'] = slice_obs(lambda: a.filter_with_ids(ids), False, fflags)
    try:
        full['getitem'] = rows_of(a[ids], ts)
    except Exception:
        full['getitem'] = None
    try:
        full['i2i'] = [int(k) for k in np.ravel(a.ids2indices(ids))]
    except Exception:
        full['i2i'] = None
    ref = [r for _, r in o['frame']]
    full['loc1_bad'] = [i for k, i in enumerate(ids)
                        if slice_obs(lambda: a.loc[i], ts, fflags) != [[i, ref[k]]]] \
        if len(set(ids)) == n else []
    full['iloc1_bad'] = [k for k, i in enumerate(ids)
                         if slice_obs(lambda: a.iloc[k], ts, fflags) != [[i, ref[k]]]]
    # collection-level read paths over members stored in different orders
    if True:
        if cq is None:
            cq = list(q)
        with contextlib.redirect_stdout(io.StringIO()):
            B = FEMAttributes({'x': a, **{f'm{j}': m for j, m in enumerate(others)}})
        members = list(B.values())
        o['cq'] = cq

        def cf(sel):
            with contextlib.redirect_stdout(io.StringIO()):
                r = B.filter_with_ids(sel)
            out = []
            for key, m in zip(B.keys(), members):
                v = r[key]
                if bool(v.time_series) != bool(m.time_series):
                    flags.append('collection filter changes time_series')
                d = rows_of(v.data, v.time_series)
                idl = [int(i) for i in v.ids]
                if len(idl) != len(d):
                    raise ValueError('length')
                out.append([[i, row] for i, row in zip(idl, d)])
            return out
        try:
            o['cfilter'] = cf(cq)
        except Exception:
            o['cfilter'] = None
        try:
            ed = B.extract_dict(cq)
            o['cextract'] = [rows_of(ed[key], m.time_series) for key, m in zip(B.keys(), members)]
        except Exception:
            o['cextract'] = None
        common = [i for i in ids if all(i in set(int(x) for x in m.ids) for m in others)]
        bad = []
        if common:
            try:
                res = cf(common)
                for key, m, tb in zip(B.keys(), members, res):
                    own = {int(i): row for i, row in zip(m.data_frame.index, frame_rows(m.data_frame, m.time_series))}
                    if tb != [[i, own[i]] for i in common]:
                        bad.append(key)
            except Exception:
                bad.append('raises')
        full['cfilter_bad'] = bad
        try:
            if [int(i) for i in B.get_attribute_ids('x')] != o['ids']:
                flags.append('get_attribute_ids')
            gd = B.get_attribute_data('x')
            if o['data'] is not None and rows_of(gd, ts) != o['data']:
                flags.append('get_attribute_data')
            td = B.to_dict()
            if [int(i) for i in td['x/ids']] != o['ids'] or \
                    (o['data'] is not None and rows_of(td['x/data'], ts) != o['data']):
                flags.append('FEMAttributes.to_dict')
        except Exception:
            if o['data'] is not None:
                flags.append('collection reads raise')
    o['full'] = full
    o['gen'] = bool(a.generate_id2index)
    o['ts'] = bool(ts)
    o['flags'] = flags + fflags
    return o


class Gen:
    """adaptive generator of histories (all choices from one seeded Random)"""

    def __init__(self, seed, bias=()):
        self.r = random.Random(seed)
        self.vc = 0
        self.bias = list(bias)   # op kinds to exercise more (widened search for an unreadable site)
        self.kept = {}           # step index -> ids of a slice object kept by the caller

    def val_rows(self, n, w):
        out = []
        for _ in range(n):
            row = []
            for _ in range(w):
                self.vc += 1
                row.append(self.vc * 7 + self.r.randrange(7))
            out.append(row)
        return out

    def fresh_ids(self, n, mode, avoid=()):
        r = self.r
        out = []
        avoid = set(avoid)
        while len(out) < n:
            if mode == 'dense':
                i = r.randrange(0, 3 * n + 8 + 2 * len(avoid))   # the range grows with the ids in use
            elif mode == 'sparse':
                i = r.randrange(0, 5000)
            else:
                i = r.choice([r.randrange(0, 50), r.randrange(2 ** 31, 2 ** 31 + 50),
                              r.randrange(2 ** 40, 2 ** 40 + 1000)])
            if i not in avoid:
                avoid.add(i)
                out.append(i)
        return out

    def init(self):
        r = self.r
        n = r.choice([1, 2, 3, 3, 4, 5, 6, 8])
        mode = r.choice(['dense', 'sparse', 'sparse', 'large', 'almost', 'almost'])
        if mode == 'almost':
            # dense ids a..a+n-1 stored almost sorted
            a0 = r.choice([0, 1, 1, 1000, 2 ** 31 - 2])
            ids = [a0 + k for k in range(n)]
            how = r.choice(['interior', 'swap', 'move', 'reversed'])
            if how == 'interior' and n > 3:
                mid = ids[1:-1]
                r.shuffle(mid)
                ids = [ids[0]] + mid + [ids[-1]]
            elif how == 'swap' and n > 1:
                j = r.randrange(n - 1)
                ids[j], ids[j + 1] = ids[j + 1], ids[j]
            elif how == 'move' and n > 2:
                x = ids.pop(r.randrange(n))
                ids.insert(r.randrange(n), x)
            else:
                ids.reverse()
            mode = 'dense'
        else:
            ids = self.fresh_ids(n, mode)
        if r.random() < 0.2:
            ids.sort()
        ts = r.random() < 0.15
        tail = r.choice([[], [1], [3], [3]] if ts else [[], [1], [3], [3], [2, 2], [3, 3]])
        T = r.choice([1, 2, 3]) if ts else 1
        w = int(np.prod(tail)) if tail else 1
        # other members of the collection: the same ids in other orders (a time series whose
        # step count equals the row count included)
        others = []
        for j in range(r.choice([1, 1, 2])):
            oid = list(ids)
            r.shuffle(oid)
            ots = j == 1 or r.random() < 0.2
            otail = r.choice([[], [1], [3]] if ots else [[], [1], [2], [3, 3]])
            oT = (n if r.random() < 0.6 else r.choice([1, 2, 3])) if ots else 1
            ow = (int(np.prod(otail)) if otail else 1) * oT
            others.append({'ids': oid, 'rows': self.val_rows(n, ow), 'tail': otail, 'ts': ots, 'T': oT})
        return {'ids': ids, 'rows': self.val_rows(n, w * T), 'tail': tail, 'ts': ts, 'T': T,
                'gen': r.random() < 0.6, 'mode': mode, 'others': others,
                'dtype': r.choice(['float64', 'float64', 'float64', 'int64', 'float32'])}

    def query(self, ids, mode):
        r = self.r
        n = len(ids)
        m = r.choice([1, 1, 2, 3, 4])
        q = [r.choice(ids) for _ in range(m)] if r.random() < 0.15 else r.sample(ids, min(m, n))
        if r.random() < 0.12:
            q.insert(r.randrange(len(q) + 1), self.fresh_ids(1, mode, ids)[0])
        q1 = r.choice(ids) if r.random() < 0.9 else self.fresh_ids(1, mode, ids)[0]
        ks = [r.randrange(n) for _ in range(r.choice([1, 2, 3]))]
        if r.random() < 0.08:
            ks.append(n + r.randrange(3))
        k1 = r.randrange(n) if r.random() < 0.93 else n + r.randrange(2)
        return q, q1, ks, k1

    def cquery(self, ids, others, q):
        r = self.r
        common = [i for i in ids if all(i in o['ids'] for o in others)]
        if common and r.random() < 0.75:
            return r.sample(common, min(len(common), r.choice([1, 2, 3, 4])))
        return list(q)

    def op(self, ids, st):
        """st: tail, ts, T, mode"""
        r = self.r
        n = len(ids)
        mode = st['mode']
        w = (int(np.prod(st['tail'])) if st['tail'] else 1) * (st['T'] if st['ts'] else 1)
        kinds = ['SetData'] * 2 + ['Update'] * 4 + ['SliceWrite'] * 5 + ['SetFrame', 'SetIds',
                                                                        'Overwrite', 'OverwriteIds', 'SetAttr']
        k = r.choice(kinds + self.bias * 6)
        if st['ts'] and k in ('SetFrame',):
            k = 'SetData'
        if k == 'SetData':
            m = n if r.random() < 0.93 else n + r.choice([-1, 1])
            o = {'k': k, 'rows': self.val_rows(max(m, 0), w), 'via': r.choice(['setter', 'update_data'])}
            if not st['ts'] and r.random() < 0.1 and m == n:
                tail = r.choice([[], [2], [3], [2, 2]])
                o['tail'] = tail
                o['rows'] = self.val_rows(n, int(np.prod(tail)) if tail else 1)
            return o
        if k == 'SetFrame':
            new = self.fresh_ids(n, mode) if r.random() < 0.6 else r.sample(ids, n)
            return {'k': k, 'ids': new, 'rows': self.val_rows(n, w)}
        if k == 'SetIds':
            m = n if r.random() < 0.9 else n + 1
            return {'k': k, 'ids': self.fresh_ids(m, mode)}
        if k == 'Update':
            p = r.random()
            if p < 0.12:
                new = list(ids)                      # identical index: pandas keeps the order
            elif p < 0.2:
                new = r.sample(ids, n)
            else:
                m = r.choice([1, 1, 2, 3])
                old = r.sample(ids, min(n, r.randrange(0, m + 1)))
                new = old + self.fresh_ids(m - len(old), mode, ids)
                r.shuffle(new)
            return {'k': k, 'ids': new, 'rows': self.val_rows(len(new), w),
                    'via': r.choice(['attr', 'attrs'])}
        if k == 'SliceWrite' and self.kept and r.random() < 0.4:
            # write again through a slice object taken at an earlier step (the parent may have
            # been updated / re-ordered / re-labelled in between): for the model this is a
            # write to the ids the slice holds
            j = r.choice(sorted(self.kept))
            kid = self.kept[j]
            cnt = len(kid) + (1 if r.random() < 0.05 else 0)
            return {'k': k, 'sel': ['ByIds', list(kid)], 'rows': self.val_rows(cnt, w), 'kept': j}
        if k == 'SliceWrite':
            sk = r.choice(['ByIds'] * 4 + ['ById1', 'ByPos', 'ByPos', 'ByPos1'])
            if sk == 'ByIds':
                m = r.choice([1, 2, 2, 3])
                sel = r.sample(ids, min(m, n))
                p = r.random()
                if p < 0.06:
                    sel.append(self.fresh_ids(1, mode, ids)[0])
                elif p < 0.1:
                    sel.append(sel[0])
                cnt = len(sel)
            elif sk == 'ById1':
                sel = r.choice(ids) if r.random() < 0.93 else self.fresh_ids(1, mode, ids)[0]
                cnt = 1
            elif sk == 'ByPos':
                sel = r.sample(range(n), min(r.choice([1, 2, 3]), n))
                if r.random() < 0.05:
                    sel.append(n)
                cnt = len(sel)
            else:
                sel = r.randrange(n)
                cnt = 1
            if r.random() < 0.05:
                cnt += 1
            return {'k': k, 'sel': [sk, sel], 'rows': self.val_rows(cnt, w)}
        if k == 'Overwrite':
            m = n if r.random() < 0.85 else n + r.choice([-1, 1])
            return {'k': k, 'rows': self.val_rows(max(m, 0), w)}
        if k == 'OverwriteIds':
            m = r.choice([1, 2, 3, 4])
            return {'k': k, 'ids': self.fresh_ids(m, mode), 'rows': self.val_rows(m, w)}
        if k == 'SetAttr':
            m = n if r.random() < 0.92 else n + 1
            return {'k': k, 'rows': self.val_rows(m, w)}
        raise AssertionError(k)


KEPT = {}          # step index -> slice object
LAST = [None]      # slice object made by the op just applied
NAMES = ['x', 'x']  # key the attribute is stored under, name the caller uses for it (an alias)


def apply_op(A, o, st):
    """apply one op to the attribute; updates the harness' idea of the row shape"""
    a = A[NAMES[0]]
    X = NAMES[1]
    LAST[0] = None
    k = o['k']
    ts, T, tail = st['ts'], st['T'], st['tail']
    if k == 'SetData':
        t2 = o.get('tail', tail)
        arr = to_arr(o['rows'], t2, ts, T)
        if o.get('via') == 'update_data':
            a.update_data(arr)
        else:
            a.data = arr
        st['tail'] = t2
    elif k == 'SetFrame':
        a.data_frame = pd.DataFrame(np.array(o['rows'], dtype=float).astype(DTYPE[0]), index=o['ids'])
    elif k == 'SetIds':
        a.ids = list(o['ids'])
    elif k == 'Update':
        arr = to_arr(o['rows'], tail, ts, T)
        if o.get('via') == 'attrs':
            A.update_data(o['ids'], {X: arr}, allow_overwrite=True)
        else:
            a.update(o['ids'], arr, allow_overwrite=True)
    elif k == 'SliceWrite':
        sk, sel = o['sel']
        if o.get('kept') in KEPT:
            s = KEPT[o['kept']]
        else:
            s = a.loc[sel] if sk in ('ByIds', 'ById1') else a.iloc[sel]
        LAST[0] = s
        s.data = to_arr(o['rows'], tail, ts, T)
    elif k == 'Overwrite':
        A.overwrite(X, to_arr(o['rows'], tail, ts, T))
    elif k == 'OverwriteIds':
        w = len(o['rows'][0]) if o['rows'] else 1
        A.overwrite(X, np.array(o['rows'], dtype=float).astype(DTYPE[0]).reshape(len(o['rows']), w), ids=o['ids'])
        st.update(ts=False, T=1, tail=[w])
    elif k == 'SetAttr':
        w = len(o['rows'][0]) if o['rows'] else 1
        A.set_attribute_data(X, np.array(o['rows'], dtype=float).astype(DTYPE[0]).reshape(len(o['rows']), w),
                             allow_overwrite=True)
        st.update(ts=False, T=1, tail=[w])
    else:
        raise AssertionError(k)


def run_case(case):
    g = Gen(case['seed'], case.get('bias') or ())
    init = case.get('init') or g.init()
    if 'init' not in case and g.r.random() < 0.3:
        init['names'] = ['INITIAL_TEMPERATURE', 't_init']     # stored under the canonical name, used by alias
    st = {'tail': init['tail'], 'ts': init['ts'], 'T': init['T'], 'mode': init.get('mode', 'sparse')}
    out = {'id': case['id'], 'init': init, 'steps': []}
    DTYPE[0] = init.get('dtype', 'float64')
    NAMES[:] = init.get('names') or ['x', 'x']
    KEPT.clear()
    K = NAMES[0]
    init.setdefault('others', [])
    with contextlib.redirect_stdout(io.StringIO()):
        others = [FEMAttribute(f'm{j}', np.array(o['ids']), to_arr(o['rows'], o['tail'], o['ts'], o['T']),
                               silent=True, time_series=o['ts']) for j, o in enumerate(init['others'])]
        a = FEMAttribute(K, np.array(init['ids']), to_arr(init['rows'], st['tail'], st['ts'], st['T']),
                         silent=True, generate_id2index=init['gen'], time_series=init['ts'])
        A = FEMAttributes({K: a})
    keys0 = sorted(A.keys())
    fixed_ops = case.get('ops')
    fixed_q = case.get('queries')
    n_ops = len(fixed_ops) if fixed_ops is not None else case['n_ops']

    def q_for(i):
        if fixed_q is not None:
            q4 = list(fixed_q[i])
            return q4[:4] + [others, q4[4] if len(q4) > 4 else q4[0]]
        cur = [int(x) for x in A[K].ids]
        q4 = g.query(cur, st['mode'])
        return list(q4) + [others, g.cquery(cur, init['others'], q4[0])]
    out['obs0'] = read_all(A[K], *q_for(0))
    for i in range(n_ops):
        ids = [int(x) for x in A[K].ids]
        o = fixed_ops[i] if fixed_ops is not None else g.op(ids, st)
        st_before = dict(st)
        obj_before = A[K]
        raised = None
        try:
            with contextlib.redirect_stdout(io.StringIO()):
                apply_op(A, o, st)
        except Exception as e:  # noqa
            raised = type(e).__name__
            st.clear()
            st.update(st_before)
        # slice objects the caller keeps: usable as long as the attribute object and its row
        # shape are the ones they were taken from
        if A[K] is not obj_before or st['tail'] != st_before['tail']:
            KEPT.clear()
            g.kept.clear()
        elif raised is None and LAST[0] is not None and 'kept' not in o:
            sk, sel = o['sel']
            try:
                kid = {'ByIds': lambda: list(sel), 'ById1': lambda: [sel], 'ByPos': lambda: [ids[k] for k in sel],
                       'ByPos1': lambda: [ids[sel]]}[sk]()
                if len(KEPT) >= 3:
                    old = min(KEPT)
                    KEPT.pop(old)
                    g.kept.pop(old, None)
                KEPT[i] = LAST[0]
                g.kept[i] = kid
            except IndexError:
                pass
        ob = read_all(A[K], *q_for(i + 1))
        ob['raised'] = raised
        if sorted(A.keys()) != keys0 or len(A) != len(keys0):
            ob['flags'].append('collection-keys-changed')
        out['steps'].append({'op': o, 'obs': ob})
    return out


def eblock(t, ids, rows):
    """one block as a reader would hand it over: a 2-D integer array, an array of
    per-element arrays for the ragged type"""
    if t == 'polyhedron' or len({len(r) for r in rows}) > 1:
        data = np.empty(len(rows), dtype=object)
        data[:] = [np.array(r, dtype=int) for r in rows]
    else:
        data = np.array(rows, dtype=int)
    return FEMAttribute(t, np.array(ids), data, silent=True)


def run_ecase(case):
    with contextlib.redirect_stdout(io.StringIO()):
        try:
            e = FEMElementalAttribute('ELEMENT', {t: eblock(t, ids, rows) for t, ids, rows in case['blocks']})
            for u in case.get('updates', []):
                e.update({t: eblock(t, ids, rows) for t, ids, rows in u})
        except Exception as ex:     # noqa: raise / no-raise is compared with the model
            return {'id': case['id'], 'raised': True, 'exception': type(ex).__name__}

        def summ(x):
            return {'ids': [int(i) for i in x.ids],
                    'types': [str(t) for t in x.types],
                    'data': [[int(v) for v in r] for r in x.data],
                    'id2index': [[int(i), int(k)] for i, k in zip(x.id2index.index, x.id2index.values[:, 0])],
                    'ids_types': [[int(i), str(t)] for i, t in zip(x.ids_types.index, x.ids_types.values[:, 0])],
                    'element_type': x.element_type,
                    'keys': [str(k) for k in x.keys()],
                    'unique_types': sorted(str(t) for t in x.unique_types),
                    'dict_type_ids': [[str(t), [int(i) for i in v]] for t, v in x.dict_type_ids.items()]}
        out = {'id': case['id'], 'raised': False, 'summary': summ(e)}
        f = e.filter_with_ids(np.array(case['q']))
        out['filter_blocks'] = [[str(t), [[int(i), [int(v) for v in r]] for i, r in zip(b.ids, b.data)]]
                                for t, b in f.items()]
        out['filter_summary'] = summ(f)
        # generate_elemental_attribute: values handed in by id (in the order of case['g'])
        gids = case.get('g') or []
        if gids:
            g = e.generate_elemental_attribute('v', np.array(gids), np.array([[float(i % 100003 * 3 + 1)] for i in gids]))
            out['generated'] = [[str(t), [[int(i), [num(v) for v in np.ravel(r)]]
                                          for i, r in zip(b.ids, b.data)]] for t, b in g.items()]
            out['generated_summary_ids'] = [int(i) for i in g.ids]
    return out


def ids_writable():
    """the environment fact the duplicate-id branch depends on: is `block.ids += offset` allowed"""
    try:
        with contextlib.redirect_stdout(io.StringIO()):
            a = FEMAttribute('probe', np.array([1, 2]), np.array([[1.], [2.]]), silent=True)
            a.ids += 0
        return True
    except ValueError:
        return False


def run_dcase(case):
    with contextlib.redirect_stdout(io.StringIO()):
        out = {'id': case['id']}
        # (b) the same final dict reached by a public update: the first block alone, then
        #     update({the other blocks}); on a raise the state that is left behind is recorded
        first, rest = case['blocks'][0], case['blocks'][1:]
        e0 = FEMElementalAttribute('ELEMENT', {first[0]: eblock(*first)})
        try:
            e0.update({t: eblock(t, ids, rows) for t, ids, rows in rest})
            out['upd_raised'] = False
        except Exception as ex:     # noqa
            out['upd_raised'] = True
        out['upd'] = {'ids': [int(i) for i in e0.ids], 'types': [str(t) for t in e0.types],
                      'id2index_ids': [int(i) for i in e0.id2index.index],
                      'keys': [str(k) for k in e0.keys()],
                      'dti_keys': [str(k) for k in e0.dict_type_ids.keys()]}
        # (a) the constructor
        d = {t: eblock(t, ids, rows) for t, ids, rows in case['blocks']}
        try:
            e = FEMElementalAttribute('ELEMENT', d)
        except Exception as ex:     # noqa
            out.update({'raised': True, 'exception': type(ex).__name__})
            return out
        out.update({'raised': False, 'ids': [int(i) for i in e.ids],
                    'types': [str(t) for t in e.types], 'data': [[int(v) for v in r] for r in e.data],
                    'block_ids': [[str(t), [int(i) for i in bl.ids]] for t, bl in e.items()]})
        return out


def main():
    spec = json.loads(sys.stdin.read())
    res = {'cases': [], 'ecases': [], 'element_types': [str(t) for t in FEMElementalAttribute.ELEMENT_TYPES]}
    for c in spec.get('cases', []):
        try:
            res['cases'].append(run_case(c))
        except Exception as e:  # harness-level failure: reported by the parent
            import traceback
            res['cases'].append({'id': c['id'], 'error': traceback.format_exc()[-1500:]})
    for c in spec.get('ecases', []):
        try:
            res['ecases'].append(run_ecase(c))
        except Exception as e:
            import traceback
            res['ecases'].append({'id': c['id'], 'error': traceback.format_exc()[-1500:]})
    res['dcases'] = []
    for c in spec.get('dcases', []):
        try:
            res['dcases'].append(run_dcase(c))
        except Exception as e:
            import traceback
            res['dcases'].append({'id': c['id'], 'error': traceback.format_exc()[-1500:]})
    res['ids_writable'] = ids_writable()
    with open(spec['out'], 'w') as f:
        json.dump(res, f)


if __name__ == '__main__':
    main()
