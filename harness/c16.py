"""C16 — spatial searches return exactly what brute force returns.

Tie H: the public functions of femio (k-nearest nodes, node-set Hausdorff
distance, Euclidean hop graph) run in ONE child process per batch on generated
integer point sets / meshes; their outputs are compared *inside Coq*
(vm_compute) with the specifications of coq/C16/Model.v (knn_spec_dists,
hausdorff_spec) and with the executable models (knn on an exact octree,
hausdorff, hop_nodal_row / hop_elemental_row) that the theorems of
coq/C16/Props.v relate to those specifications."""
import ast
import json
import math
import subprocess
import sys
from fractions import Fraction
from pathlib import Path

sys.path.insert(0, str(Path(__file__).resolve().parent))
sys.path.insert(0, str(Path(__file__).resolve().parent.parent / 'translate'))
import lib  # noqa
import c16_bounds  # noqa
import c16_loops  # noqa

PID = 'C16'
INF = None


# ------------------------------------------------------------------ generators
def _ri(rng, a, b):
    return rng.randint(a, b)


def fam_random(rng, n):
    s = rng.choice([3, 10, 50])
    return [[_ri(rng, -s, s) for _ in range(3)] for _ in range(n)]


def fam_cluster(rng, n):
    cs = [[_ri(rng, -1500, 1500) for _ in range(3)] for _ in range(rng.choice([2, 3]))]
    return [[c + _ri(rng, -2, 2) for c in rng.choice(cs)] for _ in range(n)]


def fam_collinear(rng, n):
    p0 = [_ri(rng, -20, 20) for _ in range(3)]
    d = rng.choice([[1, 0, 0], [0, 0, 1], [1, 1, 0], [1, 2, 3], [2, -1, 2], [3, 4, 0]])
    return [[p0[i] + t * d[i] for i in range(3)] for t in (_ri(rng, -6, 6) for _ in range(n))]


def fam_coplanar(rng, n):
    p0 = [_ri(rng, -20, 20) for _ in range(3)]
    u, v = rng.choice([([1, 0, 0], [0, 1, 0]), ([1, 0, 0], [0, 0, 1]), ([1, 1, 0], [0, 1, 1]),
                       ([2, 1, 0], [0, 1, 2]), ([3, 4, 0], [4, -3, 0])])
    out = []
    for _ in range(n):
        s, t = _ri(rng, -4, 4), _ri(rng, -4, 4)
        out.append([p0[i] + s * u[i] + t * v[i] for i in range(3)])
    return out


def fam_lattice(rng, n):
    sc = rng.choice([1, 2, 5])
    pts = [[sc * x, sc * y, sc * z] for x in range(3) for y in range(3) for z in range(3)]
    rng.shuffle(pts)
    return pts[:n]


def fam_dups(rng, n):
    base = fam_random(rng, max(1, n // 3))
    return [list(rng.choice(base)) for _ in range(n)]


def fam_pythag(rng, n):
    offs = [[3, 4, 0], [0, 3, 4], [6, 8, 0], [2, 3, 6], [1, 4, 8], [0, 0, 5], [4, 4, 7], [2, 2, 1],
            [0, 0, 0], [-3, -4, 0], [0, 5, 0], [-2, 6, 3]]
    p0 = [_ri(rng, -9, 9) for _ in range(3)]
    sel = [rng.choice(offs) for _ in range(n)]
    return [[p0[i] + o[i] for i in range(3)] for o in sel]


def fam_border(rng, n):
    """bounding box of extent 25600 => w0 = 13056 exactly, leaf half width 51: cell
    borders and cell centres of every octree level fall on integers"""
    aniso = rng.random() < 0.4
    hi = [25600, 25600, 25600]
    if aniso:
        hi = [25600, rng.choice([0, 100, 204]), rng.choice([0, 0, 102])]
        rng.shuffle(hi)
    pts = [[0, 0, 0], list(hi)]
    c = [h // 2 for h in hi]
    while len(pts) < max(n, 3):
        p = []
        for i in range(3):
            if hi[i] == 25600:
                m = _ri(rng, -120, 120)
                step = rng.choice([102, 102, 51, 204, 408, 3264])
                x = c[i] + step * (m % (12000 // step + 1)) * rng.choice([-1, 1]) + rng.choice([-1, 0, 0, 0, 1])
                x = min(max(x, 0), hi[i])
            else:
                x = _ri(rng, 0, hi[i]) if hi[i] else 0
            p.append(x)
        pts.append(p)
    # a few near neighbours across a border
    if len(pts) >= 4:
        q = list(pts[2])
        q[rng.randrange(3)] += rng.choice([-1, 1])
        q = [min(max(q[i], 0), hi[i]) for i in range(3)]
        pts[3] = q
    return pts


def fam_axisplane(rng, n):
    """one coordinate constant and non-zero: every point sits on a cell border of every level"""
    ax = rng.randrange(3)
    c = rng.choice([9, 7, -3, 1, 100, 13])
    s = rng.choice([5, 12, 40])
    out = []
    for _ in range(n):
        p = [_ri(rng, -s, s) for _ in range(3)]
        p[ax] = c
        out.append(p)
    return out


def fam_dyadic(rng, n):
    """corners of a box plus points at dyadic fractions of it (centre, quarter points)"""
    lo = [_ri(rng, -30, 30) for _ in range(3)]
    ext = [rng.choice([8, 16, 24, 64, 40]) for _ in range(3)]
    pts = [list(lo), [lo[i] + ext[i] for i in range(3)], [lo[i] + ext[i] // 2 for i in range(3)]]
    while len(pts) < n:
        pts.append([lo[i] + ext[i] * rng.choice([0, 1, 2, 3, 4, 5, 6, 7, 8]) // 8 for i in range(3)])
    return pts[:max(n, 2)]


def fam_same(rng, n):
    p = [_ri(rng, -5, 5) for _ in range(3)]
    return [list(p) for _ in range(n)]


def _sphere_pt(rng, c, R, jit):
    """integer point at distance about R from c, jittered by up to jit per axis; the direction is
    a coordinate axis (as between the layers of a structured mesh) or random"""
    if rng.random() < 0.65:
        u = [0.0, 0.0, 0.0]
        u[rng.randrange(3)] = rng.choice([-1.0, 1.0])
        nu = 1.0
    else:
        while True:
            u = [rng.gauss(0, 1) for _ in range(3)]
            nu = math.sqrt(sum(x * x for x in u))
            if nu > 1e-6:
                break
    return [int(round(c[i] + R * u[i] / nu)) + rng.randint(-jit, jit) for i in range(3)]


def leafscale_pair(rng, nA, nB):
    """near ties at the scale of an octree leaf (NOT exact ties).  The corners (0,0,0), (E,E,E)
    pin the bounding box, so the leaf grid is known: leaf width lw = 2^ceil(log2(0.51 E)) / 128,
    origin g0.  Points of B sit in chosen leaves; every point of A sits m leaves away from "its"
    point of B along a coordinate axis (as between the layers of a structured mesh) or in a random
    direction, and the positions *inside* the leaves are drawn with a bias to the two ends of the
    leaf.  Nearest distances then differ by fractions of a leaf width while the cell-to-cell
    bounds that order the search and trigger its early exits differ by whole leaves."""
    E = rng.choice([30000, 30000, 14000, 60000, 25600])
    w0 = 2 ** math.ceil(math.log2(0.51 * E))
    lw = w0 // 128
    g0 = round((E / 2) / (lw // 2)) * (lw // 2) - w0            # low face of the root cell
    ncell = E // lw

    def off():
        r = rng.random()
        f = rng.uniform(0.02, 0.2) if r < 0.4 else rng.uniform(0.8, 0.98) if r < 0.8 else rng.uniform(0.05, 0.95)
        return max(1, min(lw - 1, int(f * lw)))

    def place(cell):
        return [min(max(g0 + cell[i] * lw + off(), 0), E) for i in range(3)]
    m = rng.choice([2, 3, 5, 8, 20, 33])
    B = [[0, 0, 0], [E, E, E]]
    cellsB = []
    lo_c = -(g0 // lw) + m + 2
    hi_c = lo_c + ncell - 2 * m - 6
    for _ in range(max(1, nB - 2)):
        cb = [rng.randint(lo_c, max(lo_c, hi_c)) for _ in range(3)]
        cellsB.append(cb)
        B.append(place(cb))
    A = []
    for i in range(nA):
        cb = cellsB[i % len(cellsB)] if rng.random() < 0.7 else rng.choice(cellsB)
        ca = list(cb)
        if rng.random() < 0.75:
            ax = rng.randrange(3)
            ca[ax] += rng.choice([-1, 1]) * (m + rng.choice([0, 0, 0, 0, 1, -1]))
            for j in range(3):
                if j != ax and rng.random() < 0.2:
                    ca[j] += rng.choice([-1, 1])
        else:
            d = _sphere_pt(rng, [0, 0, 0], m, 0)
            ca = [cb[j] + d[j] for j in range(3)]
        A.append(place(ca))
    return A, B


def fam_leafscale(rng, n):
    A, B = leafscale_pair(rng, max(1, n // 2), max(2, n - n // 2))
    return (A + B)[:max(n, 2)]


FAMILIES = {
    'random': fam_random, 'cluster': fam_cluster, 'collinear': fam_collinear,
    'coplanar': fam_coplanar, 'lattice': fam_lattice, 'dups': fam_dups,
    'pythag': fam_pythag, 'border': fam_border, 'same': fam_same,
    'axisplane': fam_axisplane, 'dyadic': fam_dyadic, 'leafscale': fam_leafscale,
}
FAM_ORDER = ['border', 'pythag', 'axisplane', 'lattice', 'dyadic', 'cluster', 'collinear', 'coplanar',
             'dups', 'random', 'border', 'same', 'axisplane', 'pythag', 'dyadic', 'lattice']


def d2(p, q):
    return sum((a - b) ** 2 for a, b in zip(p, q))


def PA(c):
    """query / first point set the measured call sees (after the call's history, if any)"""
    return c['final']['A'] if c.get('final') else c['A']['pts']


def PB(c):
    if c.get('B') is None:
        return PA(c)
    return c['final']['B'] if c.get('final') else c['B']['pts']


def bound_choices(rng, A, B):
    """candidate bounds: (float or None, squared bound for the model)"""
    ds = sorted({d2(a, b) for a in A for b in B})
    squares = [d for d in ds if d > 0 and math.isqrt(d) ** 2 == d]
    r = rng.random()
    if r < 0.3:
        return None
    if r < 0.4:
        return 0.0                                              # hits the distance 0 exactly
    if r < 0.65 and squares:
        return float(math.isqrt(rng.choice(squares)))          # hits a distance exactly
    if r < 0.8 and ds:
        return math.isqrt(rng.choice(ds)) + 0.5                 # half-integer
    if r < 0.88:
        return 0.0
    if r < 0.93:
        return -1.0
    return float(_ri(rng, 1, 12))


def bound_sq(b):
    """squared bound for the model: d > b  <=>  d^2 > floor(b^2) for integer d^2 (b >= 0);
    negative b excludes everything (modelled as -1)"""
    if b is None:
        return None
    if b < 0:
        return -1
    f = Fraction(b) ** 2
    return f.numerator // f.denominator


def add_history(rng, c):
    """search, move the target (and sometimes the queries) IN PLACE on the same objects, search
    again: the measured call must see the moved coordinates"""
    A0 = c['A']['pts']
    B0 = None if c.get('B') is None else c['B']['pts']

    def move(pts):
        kind = rng.choice(['translate', 'translate', 'assign'])
        if kind == 'translate':
            v = [rng.choice([-7, -1, 1, 3, 40, 1000]) * rng.choice([0, 1, 1]) for _ in range(3)]
            if v == [0, 0, 0]:
                v = [5, 0, 0]
            return {'op': 'translate', 'v': v}, [[p[i] + v[i] for i in range(3)] for p in pts]
        # quarter turn about the set's own first point (NOT about the origin: a cloud far from the
        # origin would land 1e8 units from the other set and squared distances would no longer
        # be exact in binary64) plus a small shift
        sh = [rng.randint(-3, 3) for _ in range(3)]
        c0 = pts[0]
        flip = [rng.random() < 0.5 for _ in pts]
        new = [[c0[0] - (p[1] - c0[1]) + sh[0], c0[1] + (p[0] - c0[0]) + sh[1],
                c0[2] + ((p[2] - c0[2]) if f else -(p[2] - c0[2])) + sh[2]] for p, f in zip(pts, flip)]
        # a non-rigid part: one point moves on its own
        j = rng.randrange(len(new))
        new[j] = [new[j][0] + rng.choice([0, 2]), new[j][1], new[j][2] - rng.choice([0, 1])]
        return {'op': 'assign', 'pts': new}, new

    hist = [{'op': 'search'}]
    fin = {'A': [list(p) for p in A0], 'B': None if B0 is None else [list(p) for p in B0]}
    tgt = 'A' if B0 is None else 'B'
    op, new = move(fin[tgt])
    op['target'] = tgt
    fin[tgt] = new
    hist.append(op)
    if rng.random() < 0.4:
        hist.append({'op': 'search'})
        other = 'A' if (B0 is not None and rng.random() < 0.5) else tgt
        op, new = move(fin[other])
        op['target'] = other
        fin[other] = new
        hist.append(op)
    c['history'] = hist
    c['final'] = fin if B0 is not None else {'A': fin['A'], 'B': None}
    return c


def final_ok(c, r):
    if not c.get('history'):
        return True
    f = r.get('final')
    if not f:
        return False

    def ints(rows):
        out = []
        for row in rows:
            if not all(isinstance(x, list) and x[1] == 1 for x in row):
                return None
            out.append([x[0] for x in row])
        return out
    if ints(f['A']) != c['final']['A']:
        return False
    return c.get('B') is None or ints(f['B']) == c['final']['B']


def gen_knn_leafscale(rng):
    """many targets at nearly the same distance (differences of a fraction of a leaf width) from
    each query; k small, bound none / just above / just below those distances"""
    T, Q = leafscale_pair(rng, _ri(rng, 20, 40), _ri(rng, 3, 5))
    corners = Q[:2]
    Q = Q[2:] + ([rng.choice(T)] if rng.random() < 0.5 else [])
    ds = sorted(d2(q, t) for q in Q for t in T)
    r = rng.random()
    b = None if r < 0.4 else float(math.isqrt(ds[len(ds) // 3])) + rng.choice([0.5, 0.25, 0.0])
    return {'fn': 'knn', 'family': 'leafscale', 'qmode': 'other', 'big': True,
            'A': {'pts': Q}, 'B': {'pts': T + corners},
            'k': rng.choice([1, 2, 3, 5]), 'bound': None if b is None else float(b).hex(), 'bound_f': b,
            'bound2': bound_sq(b)}


def gen_knn_calls(ctx, n_calls, nmax, leaf_every=9):
    rng = ctx.rng
    calls = []
    for i in range(n_calls):
        if i % leaf_every == leaf_every - 4:
            c = gen_knn_leafscale(rng)
            c['id'] = len(calls)
            calls.append(c)
            continue
        fam = FAM_ORDER[i % len(FAM_ORDER)]
        nB = 1 if (fam == 'same' and rng.random() < 0.3) else _ri(rng, 2, nmax)
        if i % 11 == 7:
            nB = rng.choice([1, 2, 2])                      # single-point / two-point target sets
            fam = rng.choice(['random', 'pythag', 'axisplane'])
        B = FAMILIES[fam](rng, nB)[:max(nB, 1)] if i % 11 == 7 else FAMILIES[fam](rng, nB)
        nB = len(B)
        mode = rng.choice(['self', 'self', 'same-object', 'other', 'shifted', 'outside', 'subset', 'superset'])
        same_object = False
        if mode == 'self':
            A = None
        elif mode == 'same-object':
            A = None                                        # target_fem_data=self passed explicitly
            same_object = True
        elif mode == 'subset':
            A = [list(p) for p in rng.sample(B, max(1, len(B) - rng.choice([1, 2, 3])))]
        elif mode == 'superset':
            extra = [[x + rng.choice([-2, 0, 1, 5]) for x in rng.choice(B)] for _ in range(rng.choice([1, 2, 3]))]
            A = [list(p) for p in B] + extra
            rng.shuffle(A)
            A = A[:max(2, nmax)]
        elif mode == 'other':
            fa = rng.choice(list(FAMILIES))
            A = FAMILIES[fa](rng, _ri(rng, 1, max(2, nmax // 2)))
        elif mode == 'shifted':
            A = [[x + rng.choice([-1, 0, 0, 1]) for x in p] for p in B[:max(1, nmax // 2)]]
        else:
            far = rng.choice([40000, -7, 300])
            A = [[x + far * rng.choice([0, 1]) for x in p] for p in B[:max(1, nmax // 3)]]
            A[0][0] += far
        if fam == 'border' and A is not None and len(A) > 6:
            A = A[:6]
        ks = [1, 1, 2, 3, max(1, nB - 1), nB, nB + 1, nB + 3]
        k = rng.choice(ks)
        b = bound_choices(rng, A if A is not None else B, B)
        # cloud far from the origin relative to its size: integer offset of 1e5 .. 1e7 extents
        far = ''
        if i % 6 == 3:
            allp = B + (A or [])
            ext = max(1, max(max(p[j] for p in allp) - min(p[j] for p in allp) for j in range(3)))
            off = [rng.choice([-1, 1, 1]) * ext * rng.choice([10 ** 5, 3 * 10 ** 5, 10 ** 6, 10 ** 7])
                   * rng.choice([0, 1, 1]) for _ in range(3)]
            if off == [0, 0, 0]:
                off[0] = ext * 10 ** 6
            B = [[p[j] + off[j] for j in range(3)] for p in B]
            A = None if A is None else [[p[j] + off[j] for j in range(3)] for p in A]
            far = '+far'
        c = {'id': len(calls), 'fn': 'knn', 'family': fam + far, 'qmode': mode,
             'A': {'pts': A if A is not None else B}, 'B': None if A is None else {'pts': B},
             'k': k, 'bound': None if b is None else float(b).hex(), 'bound_f': b,
             'bound2': bound_sq(b)}
        if same_object:
            c['same_object'] = True
        if i % 5 == 4:
            add_history(rng, c)
            c['qmode'] = mode + '+moved-in-place'
        else:
            pick_dtypes(rng, c)
        calls.append(c)
    return calls


def pick_dtypes(rng, c):
    """coordinates stored as float32 / int64 / int32 arrays when they are exactly representable"""
    for key in ('A', 'B'):
        m = c.get(key)
        if not m or 'pts' not in m:
            continue
        big = max([abs(x) for p in m['pts'] for x in p] + [0])
        dt = rng.choice(['float64', 'float64', 'float64', 'float32', 'int64', 'int32'])
        if (dt == 'float32' and big >= 2 ** 24) or (dt == 'int32' and big >= 2 ** 31):
            dt = 'float64'
        if dt != 'float64':
            m['dtype'] = dt
    return c


# ---------------------------------------------- decimal scales / far clouds (tolerant mode)
def gen_approx_calls(ctx, n_calls, nmax, start_id):
    """coordinates offset + n * scale with a decimal scale, far from the origin: not small
    integers, so femio's float results are compared with a stated tolerance against the exact
    brute force over the exact binary64 coordinates"""
    rng = ctx.rng
    calls = []
    for i in range(n_calls):
        scale = rng.choice([0.001, 0.1, 1e-4, 0.3, 3.7, 1e3, 0.01])
        ext = rng.choice([3, 10, 40])
        offm = rng.choice([0, 1e5, 1e6, 1e7, 1e7])
        off = [rng.choice([-1, 1, 1]) * offm * ext * scale * (0.5 + rng.random()) for _ in range(3)]
        fam = rng.choice(['random', 'lattice', 'dups', 'axisplane', 'collinear'])
        nB = _ri(rng, 1, nmax)
        Bi = FAMILIES[fam](rng, nB)
        Bf = [[off[j] + (p[j] % (ext + 1)) * scale for j in range(3)] for p in Bi]
        mode = rng.choice(['self', 'other', 'subset'])
        if mode == 'self':
            Af = None
        elif mode == 'subset':
            Af = [list(p) for p in rng.sample(Bf, max(1, len(Bf) - 1))]
        else:
            Af = [[off[j] + rng.randint(-2, ext + 2) * scale + rng.choice([0, 0.5 * scale]) for j in range(3)]
                  for _ in range(_ri(rng, 1, max(2, nmax // 2)))]
        k = rng.choice([1, 2, 3, max(1, nB - 1), nB, nB + 2])
        b = None if rng.random() < 0.5 else rng.choice([0.5, 1.5, 2.5, 4.25]) * scale * rng.choice([1, 2])
        c = {'id': start_id + len(calls), 'fn': 'knn', 'approx': True, 'family': 'decimal:' + fam,
             'qmode': mode + ('+far' if offm else ''), 'scale': scale, 'offset_extents': offm,
             'A': {'pts_hex': [[float(x).hex() for x in p] for p in (Af if Af is not None else Bf)]},
             'B': None if Af is None else {'pts_hex': [[float(x).hex() for x in p] for p in Bf]},
             'k': k, 'bound': None if b is None else float(b).hex(), 'bound_f': b}
        calls.append(c)
    return calls


def hexpts(m):
    return [[Fraction(float.fromhex(x)) for x in p] for p in m['pts_hex']]


def scaled_ints(fr_lists):
    """exact binary64 values -> integers by a common power of two; returns (unit exponent E,
    integer lists) with value = int * 2^-E"""
    E = 0
    for L in fr_lists:
        for p in L:
            for x in p:
                E = max(E, x.denominator.bit_length() - 1)
    return E, [[[int(x * 2 ** E) for x in p] for p in L] for L in fr_lists]


TAU = 2 ** 40


def check_knn_approx(ctx, calls, res):
    defs, items, fails, meta = [], [], [], {}
    for c in calls:
        r = res[c['id']]
        ctx.count('knn:approx:' + c['family'])
        ctx.count('knn:approx:offset:%g' % c['offset_extents'])
        if 'exc' in r:
            fails.append((c, None, 'exception: ' + r['exc'], 'impl'))
            continue
        Af = hexpts(c['A'])
        Bf = Af if c['B'] is None else hexpts(c['B'])
        E, (Ai, Bi) = scaled_ints([Af, Bf])
        k = c['k']
        b = c['bound_f']
        if b is None:
            b2 = None
        else:
            fb = Fraction(b) ** 2 * 4 ** E
            b2 = fb.numerator // fb.denominator
            # keep the bound away from every attained distance (rounding of d is not modelled)
            near = any(abs(d2(a, p) - fb) * 10 ** 9 <= fb for a in Ai for p in Bi)
            if near:
                ctx.count('knn:approx:bound-too-close-skipped')
                continue
        # the replayed float octree must store every target
        bb = bbox_of([[float(x) for x in p] for p in Bf])
        lost = [i for i, p in enumerate(Bf) if octree_descend_fixed([float(x) for x in p], bb) != 'ok']
        if lost:
            ctx.count('knn:approx:octree-replay-loses-a-point')
        defs.append(f'Definition B_{c["id"]} : list P := {cPl(Bi)}.')
        if len(r['idx']) != len(Ai):
            fails.append((c, None, 'row-count', 'oracle'))
            continue
        for qi, q in enumerate(Ai):
            cid = c['id'] * 1000 + qi
            meta[cid] = (c, qi)
            idx, vec, dist = r['idx'][qi], r['vec'][qi], r['dist'][qi]
            ctx.case(['knn-approx', Bi, q, k, b2], nontrivial=len(Bi) >= 2,
                     sample={'fn': 'knn', 'mode': 'tolerant', 'scale': c['scale'],
                             'offset_extents': c['offset_extents'], 'k': k, 'impl_idx': idx})
            # vectors and distances: float results of exact inputs (checked with exact rationals)
            bad = None
            for j, (ix, v, dd) in enumerate(zip(idx, vec, dist)):
                if ix == -1:
                    if not (all(x == 'inf' for x in v) and dd == 'inf'):
                        bad = 'padding-vector'
                    continue
                if not (0 <= ix < len(Bf)) or not all(isinstance(x, list) for x in v) or not isinstance(dd, list):
                    bad = 'index-range' if not (0 <= ix < len(Bf)) else 'vector-not-finite'
                    break
                tv = [Bf[ix][t] - Af[qi][t] for t in range(3)]
                vv = [Fraction(x[0], x[1]) for x in v]
                if any(abs(vv[t] - tv[t]) * 2 ** 50 > abs(tv[t]) for t in range(3)):
                    bad = 'vector-mismatch'
                    break
                n2 = sum(x * x for x in tv)
                df = Fraction(dd[0], dd[1])
                if abs(df * df - n2) * TAU > n2:
                    bad = 'dists-inconsistent'
                    break
            if bad:
                fails.append((c, qi, bad, 'oracle'))
            items.append((cid, f'knn_agree_tol {TAU} {k}%nat {cD(b2)} {cP(q)} B_{c["id"]} '
                               f'{lib.coq_list([lib.coq_Z(i) for i in idx])}'))
    failing, ok = coq_failing(ctx, 'CorrKnnTol', defs, items)
    ctx.corr['knn_tolerant_rows_checked_in_coq'] = ctx.corr.get('knn_tolerant_rows_checked_in_coq', 0) + len(items)
    for cid in sorted(failing):
        c, qi = meta[cid]
        if not any(f[0] is c and f[1] == qi for f in fails):
            fails.append((c, qi, 'coq-spec-disagreement(tolerant)', 'coq'))
    return fails


def octree_descend_fixed(pt, bbox):
    """binary64 replay of the descent of build_octree_node as of /repo 7a2f8fc (snapped grid);
    the text of that function is pinned by translate/c16_loops.py"""
    import numpy as np
    xmin, xmax, ymin, ymax, zmin, zmax = (float(v) for v in bbox)
    w0 = max(xmax - xmin, ymax - ymin, zmax - zmin) * 0.51
    x0, y0, z0 = (xmin + xmax) / 2, (ymin + ymax) / 2, (zmin + zmax) / 2
    if w0 > 0:
        w0 = float(2.0 ** np.ceil(np.log2(w0)))
        lw = w0 / 256
        x0, y0, z0 = (float(np.round(v / lw) * lw) for v in (x0, y0, z0))
    vx, vy, vz, vw = x0, y0, z0, w0
    x, y, z = (float(v) for v in pt)
    for _ in range(8):
        if not (vx - vw <= x <= vx + vw and vy - vw <= y <= vy + vw and vz - vw <= z <= vz + vw):
            return 'assert'
        cw = vw / 2
        for r in range(8):
            cx = vx - cw if r & 4 else vx + cw
            cy = vy - cw if r & 2 else vy + cw
            cz = vz - cw if r & 1 else vz + cw
            if cx - cw <= x <= cx + cw and cy - cw <= y <= cy + cw and cz - cw <= z <= cz + cw:
                vx, vy, vz, vw = cx, cy, cz, cw
                break
        else:
            return 'fallout'
    return 'ok'


def octree_grid_replay(ctx, n_clouds):
    """does the (snapped) float octree lose a point on clouds far from the origin / at decimal
    scales?  pure replay of the descent, no femio call; clouds that lose a point are returned
    so that they are run on the implementation"""
    rng = ctx.rng
    lost_clouds, n_pts = [], 0
    for _ in range(n_clouds):
        scale = rng.choice([1.0, 0.001, 0.1, 1e-4, 3.7, 1e3, 0.3, 2.0 ** -10])
        ext = rng.choice([1, 5, 40, 1000])
        offm = rng.choice([0, 1e3, 1e5, 1e6, 1e7, 3e7, 1e9])
        off = [rng.choice([-1, 0, 1]) * offm * ext * scale * rng.random() for _ in range(3)]
        pts = [[off[j] + rng.randint(0, ext) * scale for j in range(3)] for _ in range(rng.randint(1, 8))]
        if rng.random() < 0.3:
            ax = rng.randrange(3)
            for p in pts:
                p[ax] = pts[0][ax]
        bb = bbox_of(pts)
        n_pts += len(pts)
        if any(octree_descend_fixed(p, bb) != 'ok' for p in pts):
            lost_clouds.append(pts)
    ctx.notes['octree_grid_replay'] = {'clouds': n_clouds, 'points': n_pts, 'clouds_losing_a_point': len(lost_clouds),
                                       'offsets_in_extents': 'up to 1e9', 'scales': 'decimal and dyadic, 1e-4 .. 1e3'}
    return lost_clouds


def gen_hd_calls(ctx, n_calls, nmax, start_id, leaf_every=6):
    rng = ctx.rng
    calls = []
    for i in range(n_calls):
        if i % leaf_every == leaf_every - 2:
            # near ties at leaf scale, many points (the value depends on the leaf visiting order)
            A, B = leafscale_pair(rng, _ri(rng, 30, 70), _ri(rng, 3, 5))
            if rng.random() < 0.25:
                A, B = B, A
            calls.append({'id': start_id + len(calls), 'fn': 'hd', 'family': 'leafscale', 'big': True,
                          'A': {'pts': A}, 'B': {'pts': B}, 'directed': rng.random() < 0.6})
            continue
        fa = FAM_ORDER[(2 * i) % len(FAM_ORDER)]
        fb = rng.choice(list(FAMILIES))
        A = FAMILIES[fa](rng, _ri(rng, 1, nmax))
        r = rng.random()
        if i % 4 == 1:
            # A in a single octree leaf (one point, or coincident points): the main loop has
            # exactly one iteration
            B = FAMILIES[fb](rng, _ri(rng, 1, nmax))
            src = rng.choice(B)
            off = rng.choice([[0, 0, 0], [1, 0, 0], [0, 7, 0], [300, -40, 5], [3, 4, 0]])
            A = [[src[j] + off[j] for j in range(3)]] * rng.choice([1, 1, 2, 3])
            A = [list(p) for p in A]
            fa = 'single-leaf'
            calls.append({'id': start_id + len(calls), 'fn': 'hd', 'family': fa + '/' + fb,
                          'A': {'pts': A}, 'B': {'pts': B}, 'directed': True})
            continue
        if i % 4 == 3:
            # one set contained in the other: one direction is exactly 0, symmetric mode
            B = FAMILIES[fb](rng, _ri(rng, 2, nmax))
            keep = max(1, len(B) - rng.choice([1, 1, 2, 3]))
            A = [list(p) for p in rng.sample(B, keep)]
            if rng.random() < 0.5:
                A, B = B, A
            c = {'id': start_id + len(calls), 'fn': 'hd', 'family': 'subset/' + fb,
                 'A': {'pts': A}, 'B': {'pts': B}, 'directed': False}
            calls.append(c)
            continue
        if r < 0.25:
            B = [[x + rng.choice([-1, 0, 0, 1]) for x in p] for p in A]
            rng.shuffle(B)
            B = B[:max(1, len(B) - rng.choice([0, 1, 2]))]
            fb = 'perturbed'
        elif r < 0.35:
            B = [list(p) for p in A]
            fb = 'equal'
        else:
            B = FAMILIES[fb](rng, _ri(rng, 1, nmax))
        if rng.random() < 0.5:
            A, B, fa, fb = B, A, fb, fa
        far = ''
        if i % 5 == 0:
            allp = A + B
            ext = max(1, max(max(p[j] for p in allp) - min(p[j] for p in allp) for j in range(3)))
            off = [rng.choice([-1, 1]) * ext * rng.choice([10 ** 5, 10 ** 6, 10 ** 7]) for _ in range(3)]
            A = [[p[j] + off[j] for j in range(3)] for p in A]
            B = [[p[j] + off[j] for j in range(3)] for p in B]
            far = '+far'
        c = {'id': start_id + len(calls), 'fn': 'hd', 'family': fa + '/' + fb + far,
             'A': {'pts': A}, 'B': {'pts': B}, 'directed': rng.random() < 0.6}
        if i % 4 == 2:
            add_history(rng, c)
            c['family'] += '+moved-in-place'
        else:
            pick_dtypes(rng, c)
        calls.append(c)
    return calls


# --------------------------------------------------------------------- meshes
def sparse_ids(rng, n, mode):
    if mode == 'seq':
        return list(range(1, n + 1))
    ids = rng.sample(range(1, 20 * n + 50), n)
    if mode == 'sparse_sorted':
        ids.sort()
    return ids


def lattice_nodes(nx, ny, nz, sp):
    idx = {}
    pts = []
    for i in range(nx + 1):
        for j in range(ny + 1):
            for k in range(nz + 1):
                idx[(i, j, k)] = len(pts)
                pts.append([i * sp[0], j * sp[1], k * sp[2]])
    return idx, pts


def mesh_hex(rng):
    nx, ny, nz = rng.choice([(1, 1, 1), (2, 1, 1), (2, 2, 1), (3, 1, 1), (2, 2, 2), (4, 1, 1)])
    sp = [rng.choice([1, 1, 2, 3]) for _ in range(3)]
    idx, pts = lattice_nodes(nx, ny, nz, sp)
    el = []
    for i in range(nx):
        for j in range(ny):
            for k in range(nz):
                el.append([idx[(i + a, j + b, k + c)] for a, b, c in
                           [(0, 0, 0), (1, 0, 0), (1, 1, 0), (0, 1, 0), (0, 0, 1), (1, 0, 1), (1, 1, 1), (0, 1, 1)]])
    return 'hex', pts, el


def mesh_tet(rng):
    _, pts, hexes = mesh_hex(rng)
    el = []
    for h in hexes:
        for t in [(0, 1, 3, 4), (1, 2, 3, 6), (1, 4, 5, 6), (3, 4, 6, 7), (1, 3, 4, 6)]:
            el.append([h[i] for i in t])
    if len(el) > 24:
        el = el[:24]
    return 'tet', pts, el


def mesh_quad(rng):
    nx, ny = rng.choice([(1, 1), (2, 1), (3, 1), (2, 2), (3, 2), (5, 1)])
    sp = [rng.choice([1, 2, 3]), rng.choice([1, 2])]
    idx, pts = {}, []
    for i in range(nx + 1):
        for j in range(ny + 1):
            idx[(i, j)] = len(pts)
            pts.append([i * sp[0], j * sp[1], rng.choice([0, 0, 0, 1])])
    el = [[idx[(i, j)], idx[(i + 1, j)], idx[(i + 1, j + 1)], idx[(i, j + 1)]]
          for i in range(nx) for j in range(ny)]
    return 'quad', pts, el


def mesh_tri(rng):
    _, pts, quads = mesh_quad(rng)
    el = []
    for q in quads:
        el.append([q[0], q[1], q[2]])
        el.append([q[0], q[2], q[3]])
    return 'tri', pts, el


def mesh_line(rng):
    """polyline that folds back on itself: nodes close in space but far apart along the chain"""
    n = _ri(rng, 2, 12)
    p = [0, 0, 0]
    pts = [list(p)]
    for i in range(n):
        step = rng.choice([[1, 0, 0], [-1, 0, 0], [0, 1, 0], [0, -1, 0], [0, 0, 1], [2, 0, 0], [1, 1, 0], [0, 3, 4]])
        p = [p[j] + step[j] for j in range(3)]
        pts.append(list(p))
    el = [[i, i + 1] for i in range(n)]
    if rng.random() < 0.3 and n > 3:       # a gap: two components
        del el[n // 2]
    return 'line', pts, el


MESHES = [mesh_hex, mesh_tet, mesh_quad, mesh_tri, mesh_line, mesh_line]


def gen_hop_calls(ctx, n_calls, start_id):
    rng = ctx.rng
    calls = []
    radii = [0.0, 0.5, 1.0, 1.0, 1.5, 2.0, math.sqrt(2), math.sqrt(3), math.sqrt(5), 2.5, 3.0, 5.0, 100.0]
    for i in range(n_calls):
        et, pts, el = MESHES[i % len(MESHES)](rng)
        # unreferenced extra nodes
        for _ in range(rng.choice([0, 0, 1, 2])):
            pts.append([_ri(rng, -1, 3) for _ in range(3)])
        n = len(pts)
        perm = list(range(n))
        idmode = rng.choice(['seq', 'sparse_sorted', 'sparse_shuffled'])
        if idmode == 'sparse_shuffled':
            rng.shuffle(perm)                  # storage order of the nodes
        inv = [0] * n
        for new, old in enumerate(perm):
            inv[old] = new
        pts2 = [pts[old] for old in perm]
        nids = sparse_ids(rng, n, idmode)
        conn_idx = [[inv[v] for v in e] for e in el]
        if rng.random() < 0.5:
            rng.shuffle(conn_idx)
        eids = sparse_ids(rng, len(conn_idx), rng.choice(['seq', 'sparse_sorted']))
        conn_ids = [[nids[v] for v in e] for e in conn_idx]
        r = rng.choice(radii)
        scale_exp = 0
        if i % 4 == 3:
            # small length scale: coordinates are integers times 2^-14 (6.1e-5), where the
            # kernel's eps = 1e-8 is no longer negligible against r^2
            scale_exp = rng.choice([-14, -14, -13, -16])
            m = rng.choice([0, 1, 2, 3, 4, 5, 8])
            r = (2.0 ** scale_exp) * rng.choice([math.sqrt(m + 0.5), math.sqrt(m + 0.25), float(m),
                                                 m + 0.5, math.sqrt(m + 0.75)])
        A = {'pts': pts2, 'ids': nids, 'elems': {et: [eids, conn_ids]}}
        if scale_exp:
            A['scale_exp'] = scale_exp
        calls.append({'id': start_id + len(calls), 'fn': 'hop', 'family': et, 'idmode': idmode,
                      'A': A, 'scale_exp': scale_exp,
                      'conn_idx': conn_idx, 'r': float(r).hex(), 'r_f': r,
                      'mode': rng.choice(['nodal', 'elemental'])})
    return calls


def radius_sq(r, scale_exp=0):
    """largest integer D with D * s^2 <= (r + 1e-8)^2 as the kernel computes it (s = 2^scale_exp
    is the length unit of the integer coordinates); None when the float value is too close to
    a multiple of s^2 for the floor to be robust against the last-bit rounding of `**`"""
    md = r + 1e-8
    md2 = (md ** 2) / (4.0 ** scale_exp)           # exact division by a power of two
    ex = Fraction(md) ** 2 / Fraction(4) ** scale_exp
    fl = ex.numerator // ex.denominator
    if abs(md2 - round(md2)) <= 16 * math.ulp(md2):
        return None
    if math.floor(md2) != fl:
        return None
    return fl


# ------------------------------------------- float emulation of build_octree_node
def octree_descend(pt, bbox):
    """binary64 replay of the descent loop of build_octree_node for one point (same operations
    in the same order); returns 'ok', or 'fallout' when no child box contains the point at
    some level (the point is then registered at inner nodes only and no search can see it)"""
    xmin, xmax, ymin, ymax, zmin, zmax = (float(v) for v in bbox)
    w0 = max(xmax - xmin, ymax - ymin, zmax - zmin) * 0.51
    vx, vy, vz, vw = (xmin + xmax) / 2, (ymin + ymax) / 2, (zmin + zmax) / 2, w0
    x, y, z = (float(v) for v in pt)
    for _ in range(8):
        if not (vx - vw <= x <= vx + vw and vy - vw <= y <= vy + vw and vz - vw <= z <= vz + vw):
            return 'assert'
        cw = vw / 2
        for r in range(8):
            cx = vx - cw if r & 4 else vx + cw
            cy = vy - cw if r & 2 else vy + cw
            cz = vz - cw if r & 1 else vz + cw
            if cx - cw <= x <= cx + cw and cy - cw <= y <= cy + cw and cz - cw <= z <= cz + cw:
                vx, vy, vz, vw = cx, cy, cz, cw
                break
        else:
            return 'fallout'
    return 'ok'


def bbox_of(pts):
    return (min(p[0] for p in pts), max(p[0] for p in pts), min(p[1] for p in pts),
            max(p[1] for p in pts), min(p[2] for p in pts), max(p[2] for p in pts))


def fallout_points(c):
    """indices of stored points that the float octree of this call loses"""
    if c['fn'] == 'knn':
        B = PB(c)
        bb = bbox_of(B)
        return [('B', i) for i, p in enumerate(B) if octree_descend(p, bb) != 'ok']
    if c['fn'] == 'hd':
        A, B = PA(c), PB(c)
        bb = bbox_of(A + B)
        return ([('A', i) for i, p in enumerate(A) if octree_descend(p, bb) != 'ok'] +
                [('B', i) for i, p in enumerate(B) if octree_descend(p, bb) != 'ok'])
    return []


def explained_by_fallout(c, r):
    """True iff the float octree of this call loses stored points AND the whole output of the
    call is what the searches return when exactly those points are invisible (k-NN: every row is
    the brute-force answer over the remaining targets; Hausdorff: A's lost points are not
    iterated, B's lost points are invisible except that they may still trigger the hi<=HD
    shortcut, so the value lies between HD(A', B) and HD(A', B'))"""
    lost = fallout_points(c)
    if not lost or 'exc' in r:
        return False
    if c['fn'] == 'knn':
        A = PA(c)
        B = PB(c)
        lostB = {i for _, i in lost}
        if len(r['idx']) != len(A):
            return False
        for qi, q in enumerate(A):
            if knn_oracle(q, B, c['k'], c['bound2'], r['idx'][qi], r['vec'][qi], lost=lostB) is not None:
                return False
        return True
    if c['fn'] == 'hd':
        A, B = PA(c), PB(c)
        la = {i for s_, i in lost if s_ == 'A'}
        lb = {i for s_, i in lost if s_ == 'B'}
        A1 = [p for i, p in enumerate(A) if i not in la]
        B1 = [p for i, p in enumerate(B) if i not in lb]

        def dirhd(X, Y):
            if not X:
                return 0
            if not Y:
                return None
            return max([0] + [min(d2(a, b) for b in Y) for a in X])

        def rng(X, Xfull, Y, Yfull):
            return dirhd(X, Yfull), dirhd(X, Y)
        if c['directed']:
            lo, hi = rng(A1, A, B1, B)
        else:
            lo1, hi1 = rng(A1, A, B1, B)
            lo2, hi2 = rng(B1, B, A1, A)
            lo = max(lo1, lo2)
            hi = None if (hi1 is None or hi2 is None) else max(hi1, hi2)
        x = r['hd']
        if x == 'inf':
            return hi is None
        if not isinstance(x, list):
            return False
        f = Fraction(x[0], x[1]) ** 2
        tol = Fraction(1, 2 ** 50)
        return f >= lo * (1 - tol) and (hi is None or f <= hi * (1 + tol))
    return False


# ----------------------------------------------------------------- impl runner
def run_impl(ctx, calls, tag, timeout=1500):
    spec_path = ctx.scratch / f'impl_spec_{tag}.json'
    out_path = ctx.scratch / f'impl_out_{tag}.json'
    if out_path.exists():
        out_path.unlink()
    spec_path.write_text(json.dumps({'out': str(out_path), 'calls': calls}))
    with open(ctx.scratch / f'impl_stdout_{tag}.log', 'w') as so:
        r = subprocess.run([lib.PY, str(lib.VERIF / 'harness' / 'c16_impl.py'), str(spec_path)],
                           stdout=so, stderr=subprocess.PIPE, text=True, env=lib.impl_env(),
                           timeout=timeout)
    if r.returncode != 0 or not out_path.exists():
        raise RuntimeError('impl runner failed: ' + (r.stderr or '')[-2000:])
    return {x['id']: x for x in json.loads(out_path.read_text())}


def run_impl_parallel(ctx, calls, nproc, tag):
    if nproc <= 1 or len(calls) < 2 * nproc:
        return run_impl(ctx, calls, tag)
    import concurrent.futures as cf
    chunks = [calls[i::nproc] for i in range(nproc)]
    res = {}
    with cf.ThreadPoolExecutor(nproc) as ex:
        for part in ex.map(lambda a: run_impl(ctx, a[1], f'{tag}{a[0]}', timeout=3000), enumerate(chunks)):
            res.update(part)
    return res


# --------------------------------------------------------------- Coq literals
def cP(p):
    return '(' + ', '.join(lib.coq_Z(x) for x in p) + ')'


def cPl(pts):
    return lib.coq_list([cP(p) for p in pts])


def cD(b2):
    return 'Inf' if b2 is None else f'(Fin {lib.coq_Z(b2)})'


def cfl(x):
    if x == 'inf':
        return 'FInf'
    if isinstance(x, list):
        return f'(FQ {lib.coq_Z(x[0])} {lib.coq_Z(x[1])})'
    return 'FBad'


def cvec(v):
    """offset vector: None for (inf,inf,inf), integer triple, or 'bad'"""
    if all(x == 'inf' for x in v):
        return 'None'
    if all(isinstance(x, list) and x[1] == 1 for x in v):
        return 'Some ' + cP([x[0] for x in v])
    return None


def cnatl(l):
    return lib.coq_list([f'{int(x)}%nat' for x in l])


HEADER = ['From Coq Require Import ZArith List Bool. Import ListNotations.',
          'From FV.C16 Require Import Model ModelSnap.', 'Open Scope Z_scope.', 'Set Printing Width 100000.']


def coq_failing(ctx, name, defs, items, timeout=900):
    """items: [(case_id, coq bool expr)] -> set of failing ids (all if the file breaks)"""
    if not items:
        return set(), True
    failing = set()
    ok_all = True
    for chunk_no in range(0, len(items), 400):
        chunk = items[chunk_no:chunk_no + 400]
        txt = list(HEADER) + defs
        txt.append('Definition cases : list (Z * bool) := [')
        txt.append(';\n'.join(f'({lib.coq_Z(i)}, {e})' for i, e in chunk) + '].')
        txt.append('Goal True. idtac "@@ failing". Abort.')
        txt.append('Eval vm_compute in map fst (filter (fun c => negb (snd c)) cases).')
        txt.append('Goal True. idtac "@@ count". Abort.')
        txt.append('Eval vm_compute in length cases.')
        rc, out, err = ctx.coq_eval(f'{name}_{chunk_no // 400}', '\n'.join(txt) + '\n', timeout=timeout)
        if rc != 0:
            ctx.log(f'{name}: scratch file failed to compile', err[-600:])
            failing |= {i for i, _ in chunk}
            ok_all = False
            continue
        import re
        t = lib.parse_marked(out).get('failing', '')
        t = t.split(':')[0]
        failing |= {int(x) for x in re.findall(r'-?\d+', t)}
    return failing, ok_all


# ------------------------------------------------- python oracles (untrusted)
def vec_int(v):
    if all(x == 'inf' for x in v):
        return None
    if all(isinstance(x, list) and x[1] == 1 for x in v):
        return [x[0] for x in v]
    return 'bad'


def knn_oracle(q, B, k, b2, idx, vec, lost=()):
    """None if the row satisfies the property, else a short reason (lost: target indices to be
    treated as absent -- used only to recognise the known octree defect)"""
    ds = sorted(d2(q, p) for i, p in enumerate(B) if i not in lost and (b2 is None or d2(q, p) <= b2))
    want = (ds + [None] * k)[:k]
    if len(idx) != k or len(vec) != k:
        return 'shape'
    got = []
    seen = set()
    for i, v in zip(idx, vec):
        vi = vec_int(v)
        if vi == 'bad':
            return 'vector-not-integer'
        if i == -1:
            if vi is not None:
                return 'padding-vector'
            got.append(None)
            continue
        if not (0 <= i < len(B)) or i in lost:
            return 'index-range'
        if i in seen:
            return 'duplicate-index'
        seen.add(i)
        if vi is None or vi != [B[i][j] - q[j] for j in range(3)]:
            return 'vector-mismatch'
        got.append(d2(q, B[i]))
    if got != want:
        gs = [g for g in got if g is not None]
        if len(gs) < len([w for w in want if w is not None]):
            return 'missing-neighbour'
        if sorted(gs) == [w for w in want if w is not None]:
            return 'wrong-order'
        return 'wrong-neighbour'
    return None


def dist_close(x, s):
    """|x^2 - s| <= s * 2^-50 for the exact float x = [n, d]"""
    if s is None:
        return x == 'inf'
    if not isinstance(x, list):
        return False
    f = Fraction(x[0], x[1])
    return f >= 0 and abs(f * f - s) * 2 ** 50 <= s


def hd_oracle(A, B, directed):
    def dirhd(X, Y):
        return max([0] + [min(d2(a, b) for b in Y) for a in X])
    return dirhd(A, B) if directed else max(dirhd(A, B), dirhd(B, A))


def hop_oracle(n_node, conn, pos, r2, mode):
    """reachability in the radius-filtered bipartite graph, by fixpoint iteration"""
    n_elem = len(conn)
    e_of = [[e for e in range(n_elem) if v in conn[e]] for v in range(n_node)]
    pairs = set()
    srcs = range(n_node) if mode == 'nodal' else range(n_elem)
    for s in srcs:
        if mode == 'nodal':
            def near(w):
                return d2(pos[s], pos[w]) <= r2
            nodes, elems = {s}, set()
        else:
            def near(w):
                return any(d2(pos[w], pos[u]) <= r2 for u in conn[s])
            nodes, elems = set(), {s}
        while True:
            ne = elems | {e for v in nodes for e in e_of[v]}
            nn = nodes | {w for e in ne for w in conn[e] if near(w)}
            if ne == elems and nn == nodes:
                break
            nodes, elems = nn, ne
        for t in (nodes if mode == 'nodal' else elems):
            if t != s:
                pairs.add((s, t))
    return sorted(list(p) for p in pairs)


# ----------------------------------------------------------------- the checks
def check_knn(ctx, calls, res, with_model=True):
    """returns list of failures (call, query index, reason, source)"""
    defs, items, fails = [], [], []
    model_items = []
    meta = {}
    for c in calls:
        r = res[c['id']]
        A = PA(c)
        B = PB(c)
        k, b2 = c['k'], c['bound2']
        ctx.count('knn:family:' + c['family'])
        ctx.count('knn:query:' + c['qmode'])
        ctx.count('knn:dtype:' + c['A'].get('dtype', 'float64') + '/' + ((c['B'] or c['A']).get('dtype', 'float64')))
        ctx.count('knn:n_targets:' + ('1' if len(B) == 1 else '2' if len(B) == 2 else '>2'))
        ctx.count('knn:bound:' + ('inf' if b2 is None else 'neg' if b2 < 0 else 'zero' if b2 == 0 else
                                  'exact-hit' if any(d2(a, b) == b2 for a in A for b in B) else 'finite'))
        ctx.count('knn:k:' + ('1' if k == 1 else '>n' if k > len(B) else '=n' if k == len(B) else 'mid'))
        if 'exc' in r:
            fails.append((c, None, 'exception: ' + r['exc'], 'impl'))
            continue
        if c.get('history'):
            ctx.count('knn:history')
            if not final_ok(c, r):
                fails.append((c, None, 'coordinates-after-history', 'harness'))
                continue
        if max(d2(a, b) for a in A for b in B) >= 2 ** 52:
            # stated assumption of the exact mode: squared distances are exact in binary64
            ctx.count('knn:skipped:squared-distances-not-exact-in-binary64')
            continue
        defs.append(f'Definition B_{c["id"]} : list P := {cPl(B)}.')
        if with_model and not c.get('big'):
            defs.append(f'Definition T_{c["id"]} : tree := snapped_octree 8 B_{c["id"]} B_{c["id"]}.')
        if len(r['idx']) != len(A):
            fails.append((c, None, 'row-count', 'oracle'))
            continue
        for qi, q in enumerate(A):
            cid = c['id'] * 1000 + qi
            idx, vec, dist = r['idx'][qi], r['vec'][qi], r['dist'][qi]
            meta[cid] = (c, qi)
            reason = knn_oracle(q, B, k, b2, idx, vec)
            if reason is None:
                ds = sorted(d2(q, p) for p in B if b2 is None or d2(q, p) <= b2)
                want = (ds + [None] * k)[:k]
                if not all(dist_close(x, s) for x, s in zip(dist, want)) or len(dist) != k:
                    reason = 'dists-inconsistent'
            if reason is not None:
                fails.append((c, qi, reason, 'oracle'))
            vs = [cvec(v) for v in vec]
            ties = len({d2(q, p) for p in B}) < len(B)
            ctx.case(['knn', B, q, k, b2], nontrivial=len(B) >= 2,
                     sample={'fn': 'knn', 'targets': B, 'query': q, 'k': k, 'bound_sq': b2,
                             'impl_idx': idx})
            ctx.count('knn:ties' if ties else 'knn:no-ties')
            if any(v is None for v in vs):
                if reason is None:
                    fails.append((c, qi, 'vector-not-integer', 'harness'))
                continue
            items.append((cid, f'knn_agree_full {k}%nat {cD(b2)} {cP(q)} B_{c["id"]} '
                               f'{lib.coq_list([lib.coq_Z(i) for i in idx])} '
                               f'{lib.coq_list(vs)} {lib.coq_list([cfl(x) for x in dist])}'))
            if with_model and not c.get('big'):
                sb2 = 'Inf' if b2 is None else ('(Fin (-1))' if b2 < 0 else
                                                f'(Fin ({b2} * snap_scale 8 * snap_scale 8))')
                model_items.append((cid, f'mdl T_{c["id"]} {k}%nat {sb2} {cP(q)} B_{c["id"]} {cD(b2)} '
                                         f'{lib.coq_list([lib.coq_Z(i) for i in idx])}'))
    failing, ok = coq_failing(ctx, 'CorrKnn', defs, items)
    ctx.corr['knn_rows_checked_in_coq'] = len(items)
    for cid in sorted(failing):
        c, qi = meta[cid]
        if not any(f[0] is c and f[1] == qi for f in fails):
            fails.append((c, qi, 'coq-spec-disagreement', 'coq'))
    # the executable search model on an exact octree: must equal knn_spec (theorem) -- evaluated
    # as a cross-check of the model itself; exact index agreement with the implementation
    # (tie break) is recorded, not required
    if with_model and model_items:
        mdefs = defs + [
            'Definition mdl (t : tree) (k : nat) (sb : D) (q : P) (B : list P) (b : D) (idx : list Z) : bool :=',
            '  match knn (S (size t)) k sb (scale_pt (snap_scale 8) q) t with',
            '  | Some r => validb t && list_eqb Z.eqb (map snd r) (map snd (knn_spec k b q B))',
            '  | None => false end.']
        mfail, mok = coq_failing(ctx, 'ModelKnn', mdefs, [(i, e) for i, e in model_items])
        ctx.notes['knn_model_vs_spec'] = {'rows': len(model_items), 'model_differs_from_spec': len(mfail),
                                          'compiled': mok}
        if mfail:
            ctx.log('search model differs from knn_spec on', sorted(mfail)[:5])
            c, qi = meta[sorted(mfail)[0]]
            ctx.violation('correspondence', {'call': strip(c), 'query_index': qi},
                          'knn (model on exact octree) = knn_spec', 'differs',
                          'C16_knn_code_queue (model evaluation)', found_input=False,
                          signature={'kind': 'model-vs-spec', 'fn': 'knn'},
                          what='executable search model disagrees with its specification')
        # tie-break agreement with the implementation (informational)
        tdefs = defs + ['Definition tb (k : nat) (b : D) (q : P) (B : list P) (idx : list Z) : bool :=',
                        '  list_eqb Z.eqb idx (map snd (knn_spec k b q B)).']
        titems = []
        for cid, e in model_items:
            c, qi = meta[cid]
            titems.append((cid, f'tb {c["k"]}%nat {cD(c["bound2"])} {cP(PA(c)[qi])} B_{c["id"]} '
                                f'{lib.coq_list([lib.coq_Z(i) for i in res[c["id"]]["idx"][qi]])}'))
        tfail, _ = coq_failing(ctx, 'TieKnn', tdefs, titems)
        ctx.notes['knn_tie_break'] = {'rows': len(titems), 'index_lists_equal_to_model': len(titems) - len(tfail),
                                      'note': 'informational: the property leaves the choice among ties free'}
    return fails


def strip(c):
    return {k: v for k, v in c.items() if k not in ('conn_idx',)}


def check_hd(ctx, calls, res, with_model=True):
    defs, items, mitems, fails, meta = [], [], [], [], {}
    for c in calls:
        r = res[c['id']]
        A, B = PA(c), PB(c)
        ctx.count('hd:' + ('directed' if c['directed'] else 'symmetric'))
        ctx.count('hd:family:' + c['family'])
        if 'exc' in r:
            fails.append((c, None, 'exception: ' + r['exc'], 'impl'))
            continue
        if c.get('history'):
            ctx.count('hd:history')
            if not final_ok(c, r):
                fails.append((c, None, 'coordinates-after-history', 'harness'))
                continue
        want = hd_oracle(A, B, c['directed'])
        ctx.case(['hd', A, B, c['directed']], nontrivial=len(A) + len(B) >= 3,
                 sample={'fn': 'hd', 'A': A, 'B': B, 'directed': c['directed'], 'impl': r['hd'],
                         'expected_sq': want})
        ctx.count('hd:zero' if want == 0 else 'hd:positive')
        if not dist_close(r['hd'], want):
            fails.append((c, None, 'hausdorff-value', 'oracle'))
        meta[c['id']] = c
        defs.append(f'Definition A_{c["id"]} : list P := {cPl(A)}.')
        defs.append(f'Definition B_{c["id"]} : list P := {cPl(B)}.')
        spec = (f'hausdorff_directed_spec A_{c["id"]} B_{c["id"]}' if c['directed']
                else f'hausdorff_spec A_{c["id"]} B_{c["id"]}')
        items.append((c['id'], f'dist_ok {cfl(r["hd"])} ({spec})'))
        if with_model and not c.get('big'):
            U = f'(A_{c["id"]} ++ B_{c["id"]})'
            mitems.append((c['id'], f'hmdl {"true" if c["directed"] else "false"} '
                                    f'(snapped_octree 8 {U} A_{c["id"]}) (snapped_octree 8 {U} B_{c["id"]}) ({spec})'))
    failing, ok = coq_failing(ctx, 'CorrHd', defs, items)
    ctx.corr['hd_calls_checked_in_coq'] = len(items)
    for cid in sorted(failing):
        c = meta[cid]
        if not any(f[0] is c for f in fails):
            fails.append((c, None, 'coq-spec-disagreement', 'coq'))
    if with_model and mitems:
        mdefs = defs + [
            'Definition scaleD (x : D) : D := match x with Fin d => Fin (d * snap_scale 8 * snap_scale 8) | Inf => Inf end.',
            'Definition hmdl (dir : bool) (tA tB : tree) (spec : D) : bool :=',
            '  match hausdorff pop_min (S (size tA + size tB)) dir tA tB with',
            '  | Some h => validb tA && validb tB && Deq_dec_b h (scaleD spec) | None => false end.']
        mfail, mok = coq_failing(ctx, 'ModelHd', mdefs, mitems)
        ctx.notes['hd_model_vs_spec'] = {'calls': len(mitems), 'model_differs_from_spec': len(mfail),
                                         'compiled': mok}
        # the kernel with the comparisons translated from the current source (gen/HdCfg.v)
        cdefs = ['From FV.C16 Require Import ModelHdCfg.', 'From FV.C16.gen Require Import HdCfg.'] + defs + [
            mdefs[-4],
            'Definition hmdl (dir : bool) (tA tB : tree) (spec : D) : bool :=',
            '  match hausdorff_cfg gen_hcfg pop_min (S (size tA + size tB)) dir tA tB with',
            '  | Some h => validb tA && validb tB && Deq_dec_b h (scaleD spec) | None => false end.']
        cfail, cok = coq_failing(ctx, 'ModelHdCfg', cdefs, mitems)
        ctx.notes['hd_translated_cfg_model_vs_spec'] = {'calls': len(mitems), 'differs_from_spec': len(cfail),
                                                         'compiled': cok}
        if cfail and not mfail:
            c = meta[sorted(cfail)[0]]
            ctx.violation('correspondence', {'call': strip(c)},
                          'hausdorff_cfg gen_hcfg (model with the translated comparisons) = hausdorff_spec',
                          'differs', 'C16_hausdorff_translated_correct (model evaluation)', found_input=False,
                          signature={'kind': 'model-vs-spec', 'fn': 'hd-cfg'},
                          what='Hausdorff model with the comparisons read from the source disagrees with its specification')
        if mfail:
            c = meta[sorted(mfail)[0]]
            ctx.violation('correspondence', {'call': strip(c)}, 'hausdorff (model) = hausdorff_spec',
                          'differs', 'C16_hausdorff_correct (model evaluation)', found_input=False,
                          signature={'kind': 'model-vs-spec', 'fn': 'hd'},
                          what='executable Hausdorff model disagrees with its specification')
    return fails


def check_hop(ctx, calls, res):
    defs, items, fails, meta = [], [], [], {}
    skipped = 0
    for c in calls:
        r = res[c['id']]
        pos = c['A']['pts']
        ctx.count('hop:' + c['mode'])
        ctx.count('hop:mesh:' + c['family'])
        ctx.count('hop:ids:' + c['idmode'])
        if 'exc' in r:
            fails.append((c, None, 'exception: ' + r['exc'], 'impl'))
            continue
        r2 = radius_sq(c['r_f'], c.get('scale_exp', 0))
        ctx.count('hop:scale:2^%d' % c.get('scale_exp', 0))
        if r2 is None:
            skipped += 1
            continue
        conn = r['conn']
        own = sorted(sorted(set(e)) for e in c['conn_idx'])
        if sorted(sorted(e) for e in conn) != own:
            ctx.count('hop:incidence-differs-from-connectivity')
        n_node, n_elem = r['n_node'], r['n_elem']
        n_rows = n_node if c['mode'] == 'nodal' else n_elem
        want = hop_oracle(n_node, conn, pos, r2, c['mode'])
        ctx.case(['hop', pos, conn, r2, c['mode']], nontrivial=len(want) > 0,
                 sample={'fn': 'hop', 'pos': pos, 'conn': conn, 'r_sq': r2, 'mode': c['mode'],
                         'impl_pairs': r['pairs']})
        full = len(want) == n_rows * (n_rows - 1)
        ctx.count('hop:result:' + ('empty' if not want else 'complete' if full else 'partial'))
        if r['shape'] != [n_rows, n_rows]:
            fails.append((c, None, 'shape', 'oracle'))
        if r['pairs'] != want:
            fails.append((c, None, 'hop-pairs', 'oracle'))
        if c['family'] == 'corpus:docstring_elemental_hop':
            ctx.notes['elemental_docstring_observation'] = {
                'mesh': 'line elements e0={0,1}, e1={0,2}, e2={2,3}; node 3 within r of node 1, node 2 far',
                'implementation_row_0': [j for i, j in r['pairs'] if i == 0],
                'kernel_relation_row_0 (theorem C16_elemental_docstring_differs)': [1],
                'docstring_relation_row_0': [1, 2],
                'note': 'the docstring of calculate_euclidean_hop_graph (elemental) is weaker than the '
                        'kernel; the property is checked against the kernel\'s relation (DESIGN C16)'}
        meta[c['id']] = c
        defs.append(f'Definition conn_{c["id"]} : list (list nat) := '
                    f'{lib.coq_list([cnatl(e) for e in conn])}.')
        defs.append(f'Definition pos_{c["id"]} : list P := {cPl(pos)}.')
        rows = [[] for _ in range(n_rows)]
        bad_pair = False
        for i, j in r['pairs']:
            if 0 <= i < n_rows:
                rows[i].append(j)
            else:
                bad_pair = True
        if bad_pair:
            fails.append((c, None, 'pair-out-of-range', 'harness'))
        fn = 'hop_nodal_row' if c['mode'] == 'nodal' else 'hop_elemental_row'
        for v in range(n_rows):
            items.append((c['id'] * 1000 + v,
                          f'row_agree ({fn} {n_node}%nat conn_{c["id"]} pos_{c["id"]} {lib.coq_Z(r2)} '
                          f'{v}%nat) {cnatl(rows[v])}'))
    failing, ok = coq_failing(ctx, 'CorrHop', defs, items)
    ctx.corr['hop_rows_checked_in_coq'] = len(items)
    ctx.notes['hop_radius_skipped'] = skipped
    for cid in sorted(failing):
        c = meta[cid // 1000]
        if not any(f[0] is c for f in fails):
            fails.append((c, cid % 1000, 'coq-model-disagreement', 'coq'))
    return fails


# ------------------------------------------------------------------ shrinking
def shrink(ctx, c, still_fails, budget=2):
    """greedy removal of points; every round evaluates all single removals in one child"""
    cur = c
    for rnd in range(budget):
        cands = []
        for key in ('A', 'B'):
            if cur.get(key) is None or 'elems' in cur[key]:
                continue
            pts = cur[key]['pts']
            if len(pts) <= 1:
                continue
            for i in range(len(pts)):
                d = json.loads(json.dumps(cur))
                d[key]['pts'] = pts[:i] + pts[i + 1:]
                d['id'] = len(cands)
                cands.append(d)
        if cur['fn'] == 'knn' and cur['k'] > 1:
            d = json.loads(json.dumps(cur))
            d['k'] = cur['k'] - 1
            d['id'] = len(cands)
            cands.append(d)
        if not cands:
            break
        try:
            res = run_impl(ctx, cands, 'shrink')
        except Exception as e:  # noqa
            ctx.log('shrink: impl failed', e)
            break
        nxt = None
        for d in cands:
            if still_fails(d, res[d['id']]):
                nxt = d
                break
        if nxt is None:
            break
        cur = nxt
    return cur


def knn_fails(c, r):
    if 'exc' in r:
        return False
    A = PA(c)
    B = PB(c)
    if len(r['idx']) != len(A):
        return True
    return any(knn_oracle(q, B, c['k'], c['bound2'], r['idx'][i], r['vec'][i]) is not None
               for i, q in enumerate(A))


def hd_fails(c, r):
    if 'exc' in r:
        return False
    return not dist_close(r['hd'], hd_oracle(PA(c), PB(c), c['directed']))


def report(ctx, fails, res, do_shrink=True):
    seen = set()
    n = 0
    for c, qi, reason, src in fails:
        fam = c['family']
        # attribution to the octree fall-out (fixed in /repo 7a2f8fc) is only attempted while an
        # open known finding names it; the replay emulates the descent of the code before the fix
        fallout_open = any(f.get('property') == PID and f.get('status') == 'open'
                           and f.get('match', {}).get('cause') == 'octree-fallout' for f in ctx.findings)
        lost = fallout_points(c) if fallout_open else []
        if lost and c['fn'] in ('knn', 'hd') and src != 'impl' and explained_by_fallout(c, res[c['id']]):
            # the float octree construction drops a stored point of this very input
            sig = {'fn': c['fn'], 'cause': 'octree-fallout'}
            ctx.count('failures:octree-fallout')
            ctx.violation('impl-violation',
                          {'call': strip(c), 'query_index': qi, 'points_lost_by_build_octree_node': lost},
                          'output equals the brute-force specification', reason,
                          'C16_knn_search_correct needs validb/tree_of: build_octree_node loses a point',
                          found_input=True, signature=sig,
                          what=f"{c['fn']}: build_octree_node drops stored point(s) {lost[:3]} (float "
                               'rounding on a cell border), searches cannot see them')
            continue
        sig = {'fn': c['fn'], 'reason': reason.split(':')[0], 'family': fam}
        key = json.dumps(sig, sort_keys=True)
        n += 1
        if key in seen:
            ctx._seen_sigs[key] = ctx._seen_sigs.get(key, 1) + 1
            continue
        seen.add(key)
        case = strip(c)
        shrunk_from = None
        if do_shrink and src in ('oracle', 'coq') and c['fn'] in ('knn', 'hd') and len(seen) <= 1 \
                and not c.get('history') and not c.get('approx') \
                and __import__('time').time() - ctx.t0 < 150:
            small = shrink(ctx, c, knn_fails if c['fn'] == 'knn' else hd_fails)
            if small is not c:
                shrunk_from = {'A': len(c['A']['pts']), 'B': None if c.get('B') is None else len(c['B']['pts'])}
                case = strip(small)
        theorem = {'knn': 'C16_knn_search_correct / correspondence knn_agree_full',
                   'hd': 'C16_hausdorff_correct / correspondence dist_ok hausdorff_spec',
                   'hop': 'C16_hop_graph_correct / correspondence row_agree'}[c['fn']]
        ctx.violation('impl-violation' if src in ('oracle', 'impl') else 'correspondence',
                      {'call': case, 'query_index': qi, 'shrunk_from': shrunk_from},
                      'output equals the brute-force specification', reason, theorem,
                      found_input=True, signature=sig,
                      what=f"{c['fn']} on family {fam}: {reason}")
    return n


# ------------------------------------------------- translated box-bound kernels
def translate_bounds(ctx):
    """regenerate coq/C16/gen/Bounds.v from the current source; returns (ok, pysrc)"""
    try:
        fns, consumed, pysrc = c16_bounds.translate(str(lib.REPO))
        ctx.sources.update(consumed)
        lib.write_if_changed(lib.COQ / 'C16' / 'gen' / 'Bounds.v', c16_bounds.emit(fns))
        return True, pysrc
    except c16_bounds.TranslateError as e:
        ctx.log('translator failed closed:', e)
        ctx.notes['translator_error'] = str(e)
    except SyntaxError as e:
        ctx.notes['translator_error'] = 'syntax error: ' + str(e)
    return False, None


def translate_loops(ctx):
    """match the kernels against the text the model was written from (literally, then in canonical
    form) and regenerate the decision points of the k-NN search (coq/C16/gen/KnnCfg.v).
    Returns None when the source cannot be parsed at all, else the dict of *unread* functions
    (name -> reason).  An unread function is not an alarm: the theorems are then built against
    the baseline configuration (cfg_code) and the streams of the functions it decides are widened."""
    try:
        cfg, consumed, status = c16_loops.translate_each(str(lib.REPO))
    except (SyntaxError, OSError, RecursionError) as e:
        ctx.notes['loop_translator_error'] = type(e).__name__ + ': ' + str(e)
        return None
    ctx.sources.update(consumed)
    ctx.notes['loop_translator_status'] = {f: s[:400] for f, s in status.items()}
    unread = {f: s for f, s in status.items() if s.startswith('unread')}
    if cfg is None:
        cfg = dict(c16_loops.BASELINE_CFG)
        ctx.notes['knn_decision_points_source'] = 'baseline (cfg_code): _nns_from_nodes_to_nodes could not be read'
    else:
        ctx.notes['knn_decision_points_source'] = 'read from the source (' + status['_nns_from_nodes_to_nodes'] + ')'
    ctx.notes['knn_decision_points'] = cfg
    lib.write_if_changed(lib.COQ / 'C16' / 'gen' / 'KnnCfg.v', c16_loops.emit(cfg))
    hcfg = c16_loops.LAST_HCFG[0]
    if hcfg is None:
        hcfg = dict(c16_loops.BASELINE_HCFG)
        ctx.notes['hd_decision_points_source'] = 'baseline (hcfg_code): _calc_directed_hausdorff_nodes could not be read'
    else:
        ctx.notes['hd_decision_points_source'] = 'read from the source (' + status['_calc_directed_hausdorff_nodes'] + ')'
    ctx.notes['hd_decision_points'] = hcfg
    lib.write_if_changed(lib.COQ / 'C16' / 'gen' / 'HdCfg.v', c16_loops.emit_hd(hcfg))
    for f, sres in unread.items():
        ctx.log('loop translator could not read', f, '->', sres[:300])
    return unread


def validate_translation(ctx, pysrc, n=40):
    """translator validation: the Python text of each kernel is executed on integer boxes and
    points; the square of the float it returns must equal the generated Coq function"""
    import numpy as np
    rng = ctx.rng
    items = []

    def rbox():
        return [rng.randint(-40, 40) for _ in range(3)] + [rng.choice([0, 1, 2, 5, 16])]

    def rpt():
        return [rng.randint(-60, 60) for _ in range(3)]

    def fq(x):
        n_, d_ = float(x).as_integer_ratio()
        return f'(FQ {lib.coq_Z(n_)} {lib.coq_Z(d_)})'

    ns = {}
    for name, src in pysrc.items():
        exec(src, ns)        # defines the nested function at module level of ns
    cid = 0
    for _ in range(n):
        a, b, q = rbox(), rbox(), rpt()
        ns['node_xyzw'] = np.array([b], dtype=float)
        ns['node_xyzw_A'] = np.array([a], dtype=float)
        ns['node_xyzw_B'] = np.array([b], dtype=float)
        cb = '(' + ', '.join(lib.coq_Z(v) for v in b) + ')'
        ca = '(' + ', '.join(lib.coq_Z(v) for v in a) + ')'
        r1 = ns['possible_dist_min'](0, float(q[0]), float(q[1]), float(q[2]))
        items.append((cid, f'dist_ok {fq(r1)} (Fin (gen_possible_dist_min {cb} {cP(q)}))'))
        r2 = ns['possible_dist_max_node'](0, 0)
        items.append((cid + 1, f'dist_ok {fq(r2)} (Fin (gen_possible_dist_max_node {ca} {cb}))'))
        lo, hi = ns['possible_dist_range'](0, float(q[0]), float(q[1]), float(q[2]))
        items.append((cid + 2, f'dist_ok {fq(lo)} (Fin (fst (gen_possible_dist_range {cb} {cP(q)}))) && '
                               f'dist_ok {fq(hi)} (Fin (snd (gen_possible_dist_range {cb} {cP(q)})))'))
        cid += 3
    failing, ok = coq_failing(ctx, 'ValidateBounds', ['From FV.C16.gen Require Import Bounds.'], items)
    ctx.notes['translator_validation'] = {'cases': len(items), 'disagreements': len(failing), 'compiled': ok}
    return not failing and ok


# ------------------------------------------- root cell of build_octree_node (snapped grid)
def source_root_fn(ctx):
    """the statements of build_octree_node that compute the root cell (everything before the cell
    table is allocated), compiled from the CURRENT source text into root(points, boundingbox) ->
    (x0, y0, z0, w0); None if the function does not have that shape"""
    try:
        src = (lib.REPO / 'femio' / 'graph_processor.py').read_text()
        tree = ast.parse(src)
        fn = c16_loops.find_def(tree, 'build_octree_node')
        body = c16_loops.strip_doc(list(fn.body))
        head = []
        for st in body:
            names = {n.id for n in ast.walk(st) if isinstance(n, ast.Name)}
            if 'node_xyzw' in names or isinstance(st, (ast.For, ast.While, ast.FunctionDef)):
                break
            head.append(st)
        stored = {n.id for st in head for n in ast.walk(st) if isinstance(n, ast.Name) and isinstance(n.ctx, ast.Store)}
        if not {'x0', 'y0', 'z0', 'w0'} <= stored or len(fn.args.args) != 2:
            return None
        a0, a1 = fn.args.args[0].arg, fn.args.args[1].arg
        f = ast.FunctionDef(name='root', args=ast.arguments(posonlyargs=[], args=[ast.arg(arg=a0), ast.arg(arg=a1)],
                                                          kwonlyargs=[], kw_defaults=[], defaults=[]),
                            body=head + [ast.parse('return (x0, y0, z0, w0)').body[0]], decorator_list=[])
        try:
            f.type_params = []
        except Exception:  # noqa
            pass
        mod = ast.fix_missing_locations(ast.Module(body=[f], type_ignores=[]))
        import numpy as np
        ns = {'np': np}
        ns.update(c16_loops.module_constants(tree))
        exec(compile(mod, '<build_octree_node root>', 'exec'), ns)
        ctx.notes['root_cell_source'] = ast.unparse(f)[:900]
        return ns['root']
    except Exception as e:  # noqa
        ctx.notes['root_cell_source_error'] = repr(e)[:300]
        return None


def check_root(ctx, calls, root):
    """correspondence for ModelSnap.snapped_box: the root cell computed by the source text on the
    call's bounding box (same dtype as the implementation sees) vs the Coq model, exactly"""
    import numpy as np
    defs, items, meta = [], [], {}
    for c in calls:
        if c.get('approx') or c['fn'] not in ('knn', 'hd'):
            continue
        if c['fn'] == 'knn':
            pts, key = PB(c), ('B' if c.get('B') else 'A')
            dt = (c.get(key) or {}).get('dtype', 'float64')
        else:
            pts = PA(c) + PB(c)
            dt = 'float64'
            if c['A'].get('dtype') or c['B'].get('dtype'):
                continue                      # mixed dtypes: min/max promote; not replayed
        if dt == 'float32' or len(pts) > 80:
            continue                          # float32 sums may round; informational only
        arr = np.array(pts, dtype=dt).reshape(-1, 3)
        # Python scalars: numba computes on int64 / float64 whatever the array dtype is (numpy
        # int32 scalars would wrap in xmin + xmax)
        bb = tuple(v.item() for v in (arr[:, 0].min(), arr[:, 0].max(), arr[:, 1].min(), arr[:, 1].max(),
                                      arr[:, 2].min(), arr[:, 2].max()))
        try:
            r = [float(v) for v in root(arr, bb)]
        except Exception as e:  # noqa
            ctx.notes['root_cell_exec_error'] = repr(e)[:200]
            return None
        if not all(math.isfinite(v) for v in r):
            continue
        fr = [float(v).as_integer_ratio() for v in r]
        defs.append(f'Definition RP_{c["id"]} : list P := {cPl(pts)}.')
        items.append((c['id'], f'root_agree 256 RP_{c["id"]} ' + ' '.join(
            f'({lib.coq_Z(n)}, {lib.coq_Z(d)})' for n, d in fr)))
        meta[c['id']] = c
    failing, ok = coq_failing(ctx, 'CorrRoot', defs, items)
    ctx.corr['root_cells_checked_in_coq'] = ctx.corr.get('root_cells_checked_in_coq', 0) + len(items)
    if failing:
        c = meta[sorted(failing)[0]]
        ctx.violation('correspondence', {'call': strip(c), 'n_disagreeing': len(failing)},
                      'root cell of build_octree_node (source text, binary64) = snapped_box (ModelSnap.v)',
                      'differs', 'C16_snapped_root_contains / correspondence root_agree', found_input=True,
                      signature={'kind': 'root-cell', 'fn': c['fn'], 'family': c['family']},
                      what='the root cell computed by build_octree_node differs from the model of the snapped grid')
    return len(failing)


# ----------------------------------------------------------------- source sha
REGIONS = ['_calculate_euclidean_hop_graph_nodal', '_calculate_euclidean_hop_graph_elemental',
           'calculate_euclidean_hop_graph', 'build_octree_node', '_nns_from_nodes_to_nodes',
           '_calc_directed_hausdorff_nodes', 'nearest_neighbor_search_from_nodes_to_nodes',
           'calculate_hausdorff_distance_nodes']


def source_regions():
    src = (lib.REPO / 'femio' / 'graph_processor.py').read_text()
    tree = ast.parse(src)
    out = {}
    for node in ast.walk(tree):
        if isinstance(node, ast.FunctionDef) and node.name in REGIONS:
            out['femio/graph_processor.py:' + node.name] = lib.sha(ast.get_source_segment(src, node))
    return out


def main(ctx):
    quick = ctx.tier == 'quick'
    ctx.rule = ('k-NN: one case per (target set, query point, k, squared bound); Hausdorff: per (A, B, '
                'directed); hop graph: per (mesh, radius, mode). Non-trivial = at least 2 targets / 3 '
                'points / a non-empty adjacency. Distinct = distinct inputs.')
    ctx.trusted += [
        'hand model coq/C16/Model.v of the numba kernels (written from the source text); squared '
        'distances over Z stand for the float distances (sqrt monotone, rounding not modelled)',
        'harness glue: float -> exact rational via as_integer_ratio, squared bound floor(b^2), '
        'radius floor((r+1e-8)^2); the incidence matrix handed to the hop kernels is taken from femio',
        'octree construction in floats (0.51*w, depth 8) is not modelled bit for bit: the theorems '
        'assume validb (every stored point lies in the boxes above it)',
        'untrusted Python oracles (brute force) are used only to classify and shrink failures',
    ]
    ctx.assumptions += ['integer coordinates (|x| < 2^26) so that femio computes squared distances exactly',
                        'numba JIT semantics = Python semantics of the kernel source']
    try:
        ctx.sources = source_regions()
    except Exception as e:  # noqa
        ctx.notes['source_regions_error'] = str(e)

    bounds_ok, pysrc = translate_bounds(ctx)
    unread = translate_loops(ctx)
    loops_ok = unread is not None
    unread = unread or {}
    tie_ok = bounds_ok and loops_ok
    if tie_ok:
        proof_ok, log = ctx.build_props('C16/Props.v')
        if not proof_ok:
            ctx.notes['build_log_tail'] = log[-1500:]
    else:
        proof_ok = False
        for nm in lib.theorem_names(lib.COQ / 'C16' / 'Props.v'):
            ctx.obligations.append({'name': nm, 'discharged': False, 'assumptions': [],
                                    'note': 'translator failed closed'})
    model_ok, _, _ = lib.coq_make(['C16/Model.vo', 'C16/ModelSnap.vo'])
    if proof_ok and not quick:
        rc, out, err, dt = lib.sh(['coqchk', '-silent', '-o', '-Q', str(lib.COQ), 'FV', 'FV.C16.Props'],
                                  cwd=lib.COQ, timeout=900)
        ctx.notes['coqchk'] = {'rc': rc, 'seconds': round(dt, 1), 'tail': (out + err)[-300:]}
        ctx.log(f'coqchk rc={rc} ({dt:.0f}s)')
        if rc != 0:
            proof_ok = False
            for o in ctx.obligations:
                o['discharged'] = False
                o['note'] = 'coqchk failed'
    valid_ok = True
    if bounds_ok:
        gen_ok, _, _ = lib.coq_make(['C16/gen/Bounds.vo', 'C16/gen/HdCfg.vo'])
        if gen_ok:
            try:
                valid_ok = validate_translation(ctx, pysrc)
            except Exception as e:  # noqa
                valid_ok = False
                ctx.notes['translator_validation'] = {'error': repr(e)[:300]}

    n_knn, n_hd, n_hop, nmax = (30, 16, 40, 10) if quick else (420, 100, 400, 14)
    root_fn = source_root_fn(ctx)
    if root_fn is None:
        ctx.notes['root_cell_correspondence'] = 'not run: the root-cell statements of build_octree_node could not be isolated'

    def run_stream(n_knn, n_hd, n_hop, tag, with_corpus, nproc=1, leaf_knn=9, leaf_hd=6):
        calls = []
        corpus = sorted((lib.VERIF / 'corpus' / PID).glob('*.json')) \
            if with_corpus and (lib.VERIF / 'corpus' / PID).exists() else []
        for f in corpus:
            c = json.loads(f.read_text())
            c['id'] = len(calls)
            c['family'] = 'corpus:' + f.stem
            calls.append(c)
        for c in gen_knn_calls(ctx, n_knn, nmax, leaf_knn):
            c['id'] = len(calls)
            calls.append(c)
        calls += gen_hd_calls(ctx, n_hd, nmax, len(calls), leaf_hd)
        calls += gen_hop_calls(ctx, n_hop, len(calls))
        if n_knn:
            calls += gen_approx_calls(ctx, max(4, n_knn // 4), nmax, len(calls))
            # replay of the float octree descent on far / decimal clouds; a cloud that loses a
            # point is run on the implementation (self search, k = 1)
            for pts in octree_grid_replay(ctx, 1500 if quick else 20000)[:5]:
                calls.append({'id': len(calls), 'fn': 'knn', 'approx': True, 'family': 'octree-replay-loss',
                              'qmode': 'self', 'scale': 0, 'offset_extents': -1,
                              'A': {'pts_hex': [[float(x).hex() for x in p] for p in pts]}, 'B': None,
                              'k': 1, 'bound': None, 'bound_f': None})
        ctx.log(f'[{tag}] {len(calls)} implementation calls ({len(corpus)} corpus)')
        res = run_impl_parallel(ctx, calls, nproc, tag)
        ctx.log('implementation done, max call time %.2fs' % max(r['t'] for r in res.values()))
        fails = []
        fails += check_knn(ctx, [c for c in calls if c['fn'] == 'knn' and not c.get('approx')], res,
                           with_model=model_ok)
        fails += check_knn_approx(ctx, [c for c in calls if c['fn'] == 'knn' and c.get('approx')], res)
        ctx.log('knn checked')
        fails += check_hd(ctx, [c for c in calls if c['fn'] == 'hd'], res, with_model=model_ok)
        ctx.log('hausdorff checked')
        fails += check_hop(ctx, [c for c in calls if c['fn'] == 'hop'], res)
        ctx.log('hop graph checked')
        if root_fn is not None and model_ok:
            check_root(ctx, calls, root_fn)
        ctx.corr['cases'] = ctx.evaluations
        ctx.corr['disagreements'] = ctx.corr.get('disagreements', 0) + len(fails)
        return report(ctx, fails, res)

    n_bad = run_stream(n_knn, n_hd, n_hop, 'main', True, 1 if quick else 4)
    ctx.notes['search_evaluations'] = ctx.evaluations
    if n_bad == 0 and not (tie_ok and proof_ok and valid_ok):
        # a proof / the translation broke and the regular stream shows no failing input:
        # search with a larger budget before reporting `no-failing-input-found`
        ctx.log('proof or tie broken: extended search for a failing input')
        n_bad = run_stream(60, 75, 20, 'search', False, 2, 5, 3)
        ctx.notes['extended_search'] = {'ran': True, 'failures_found': n_bad}
        ctx.notes['search_evaluations'] = ctx.evaluations
    elif n_bad == 0 and unread:
        # T -> H: the control flow of some kernel is written in a way the translator cannot
        # read.  Not an alarm: the theorems stand for the baseline model (Model.v / cfg_code);
        # what is decided here is whether the code still behaves like that model, by a widened
        # correspondence on everything the unread functions decide.
        kinds = sorted({k_ for f in unread for k_ in c16_loops.AFFECTS.get(f, ('knn', 'hd', 'hop'))})
        sizes = {'knn': 130 if 'knn' in kinds else 0, 'hd': 110 if 'hd' in kinds else 0,
                 'hop': 150 if 'hop' in kinds else 0}
        ctx.log('unread control flow', sorted(unread), '-> widened correspondence on', kinds)
        before = ctx.evaluations
        try:
            n_bad = run_stream(sizes['knn'], sizes['hd'], sizes['hop'], 'widened', False, 3, 5, 3)
            ran = True
        except Exception as e:  # noqa
            ran = False
            ctx.notes['widened_error'] = repr(e)[:500]
        n_w = ctx.evaluations - before
        ctx.notes['tie'] = ('H (translator could not read ' + ', '.join(sorted(unread)) + ': '
                            + '; '.join(s_[8:200] for s_ in unread.values())
                            + f'; baseline model + widened correspondence on {"/".join(kinds)}, {n_w} cases, '
                            + f'{n_bad} disagreements)')
        ctx.notes['widened_correspondence'] = {'functions_unread': sorted(unread), 'streams': sizes,
                                               'cases': n_w, 'failures_found': n_bad, 'ran': ran}
        ctx.notes['search_evaluations'] = ctx.evaluations
        if not ran:
            ctx.violation('tie-broken', {'unread': unread, 'error': ctx.notes.get('widened_error')},
                          'the widened correspondence runs when the control flow cannot be read',
                          'it could not run', 'translator c16_loops + widened correspondence',
                          found_input=False, signature={'kind': 'tie-broken', 'cause': 'widened-stream-failed'})
    else:
        ctx.notes['tie'] = 'T (bound kernels translated; control flow matched: ' + ', '.join(
            f'{f}={s_}' for f, s_ in (ctx.notes.get('loop_translator_status') or {}).items()) + ') + H'

    if not tie_ok and n_bad == 0:
        ctx.violation('tie-broken', {'translator_error': ctx.notes.get('translator_error'),
                                     'loop_translator_error': ctx.notes.get('loop_translator_error')},
                      'the kernels match the text the model was written from (bound formulas '
                      'translated, control flow matched up to renaming and the k-NN decision points)',
                      'fail-closed',
                      'translators c16_bounds / c16_loops (gen/Bounds.v, gen/KnnCfg.v cannot be regenerated)',
                      found_input=False, signature={'kind': 'tie-broken'})
    if bounds_ok and not valid_ok and n_bad == 0:
        ctx.violation('tie-broken', {'translator_validation': ctx.notes.get('translator_validation')},
                      'generated kernels agree with the Python text they were translated from',
                      'disagree', 'translator validation (gen/Bounds.v)', found_input=False,
                      signature={'kind': 'translator-validation'})
    if tie_ok and not proof_ok and n_bad == 0:
        bad = [o['name'] for o in ctx.obligations if not o['discharged']]
        ctx.violation('proof-broken', {'theorems': bad}, 'Props.v compiles with closed theorems',
                      'does not check', ', '.join(bad), found_input=False,
                      signature={'kind': 'proof-broken'})
    return ctx.finish()


def replay(path):
    rp = json.loads(Path(path).read_text())
    ctx = lib.Ctx(PID, 'quick')
    c = (rp.get('case') or {}).get('call')
    if not c or 'fn' not in c:
        print('nothing to replay on the implementation:', json.dumps(rp, indent=1)[:2000])
        return 1
    c['id'] = 0
    c.setdefault('conn_idx', [])
    for k_, v_ in (('family', 'replay'), ('qmode', 'replay'), ('idmode', 'replay')):
        c.setdefault(k_, v_)
    res = run_impl(ctx, [c], 'replay')
    print('implementation:', json.dumps(res[0])[:3000])
    lib.coq_make(['C16/Model.vo', 'C16/ModelSnap.vo'])
    if c['fn'] == 'knn' and c.get('approx'):
        c.setdefault('scale', 0)
        c.setdefault('offset_extents', 0)
        fails = check_knn_approx(ctx, [c], res)
    elif c['fn'] == 'knn':
        fails = check_knn(ctx, [c], res)
    elif c['fn'] == 'hd':
        fails = check_hd(ctx, [c], res)
    else:
        if not c['conn_idx']:
            c['conn_idx'] = res[0].get('conn', [])
        fails = check_hop(ctx, [c], res)
    for f in fails:
        print('FAILS:', f[1], f[2], 'source=' + f[3])
    print('model/specification (Coq) and implementation', 'DISAGREE' if fails else 'agree')
    return 1 if fails else 0


if __name__ == '__main__':
    if len(sys.argv) >= 3 and sys.argv[1] == 'replay':
        sys.exit(replay(sys.argv[2]))
    tier = sys.argv[1] if len(sys.argv) > 1 else 'quick'
    sys.exit(main(lib.Ctx(PID, tier)))
