"""C09 — sub-mesh extraction keeps ids, values and geometry attached."""
import json
import re
import subprocess
import sys
from concurrent.futures import ThreadPoolExecutor
from pathlib import Path

sys.path.insert(0, str(Path(__file__).resolve().parent))
sys.path.insert(0, str(Path(__file__).resolve().parent.parent / 'translate'))
import lib  # noqa
import c09_cfg  # noqa

PID = 'C09'
ELEMENT_TYPES = ['line', 'line2', 'spring', 'tri', 'tri2', 'quad', 'quad2', 'polygon', 'tet', 'tet2',
                 'pyr', 'pyr2', 'prism', 'prism2', 'hex', 'hex2', 'hexprism', 'polyhedron', 'unknown']
T = {n: i for i, n in enumerate(ELEMENT_TYPES)}
ARITY = {'tri': 3, 'quad': 4, 'tet': 4, 'pyr': 5, 'prism': 6, 'hex': 8, 'tet2': 10, 'hex2': 20}
OPNAME = {'CutEids': 'cut_with_element_ids', 'CutType': 'cut_with_element_type',
          'CutNids': 'cut_with_node_ids', 'ExtractIdx': 'extract_with_element_indices',
          'RemoveUseless': 'remove_useless_nodes', 'FirstOrder': 'to_first_order',
          'Surface': 'to_surface', 'Facets': 'to_facets'}
FLAG_OF = {'RemoveUseless': 'useless_by_id', 'FirstOrder': 'first_order_by_id', 'Surface': 'surface_by_id'}
CODES = {1: 'implementation raises, model does not', 2: 'model raises, implementation does not',
         3: 'nodes', 4: 'elements (blocks)', 5: 'nodal_data', 6: 'elemental_data',
         7: 'model cannot summarise result elements', 8: 'element summary (ids/types/data)',
         99: 'generated mesh not well formed (harness error)'}

# the reference meshes of Proofs.m_ref / m_ref2 (witnesses of the refuted theorems)
M_REF = {'nodes': {'ids': [3, 1, 9, 2], 'rows': [[30, 0, 0], [10, 0, 0], [90, 0, 0], [20, 0, 0]]},
         'elems': [[T['tri'], [7], [[1, 2, 3]]]],
         'nodal': [[0, [2, 9, 1, 3], [[2], [9], [1], [3]], [1]]], 'elemental': [], 'kind': 'witness',
         'var_modes': ['shuffled']}
M_REF2 = {'nodes': {'ids': [3, 1, 9, 2, 4, 11, 12, 13, 14, 15, 16],
                    'rows': [[i * 10, 0, 0] for i in [3, 1, 9, 2, 4, 11, 12, 13, 14, 15, 16]]},
          'elems': [[T['tet2'], [7], [[1, 2, 3, 4, 11, 12, 13, 14, 15, 16]]]],
          'nodal': [[0, [16, 15, 14, 13, 12, 11, 4, 2, 9, 1, 3],
                     [[i] for i in [16, 15, 14, 13, 12, 11, 4, 2, 9, 1, 3]], [1]]],
          'elemental': [], 'kind': 'witness', 'var_modes': ['shuffled']}
WITNESSES = [('useless_by_id', M_REF, {'k': 'RemoveUseless'}),
             ('first_order_by_id', M_REF2, {'k': 'FirstOrder'}),
             ('surface_by_id', M_REF, {'k': 'Surface', 'remove': True})]


# names the library itself stores derived results / caches under (FEMData.calculate_*,
# extract_*, _clear_query_caches, _own_table(drop=...)): a user variable of such a name is data
NODAL_RESERVED = ['normal', 'degree', 'jacobian', 'volume', 'area', 'metric', 'edge_lengths', 'angles', 'node',
                  'filter', 'surface']
ELEMENTAL_RESERVED = ['volume', 'area', 'metric', 'normal', 'jacobian', 'edge_lengths', 'angles', 'face', 'degree',
                      'element', 'facet']


def var_name(m, kind, k):
    names = m.get(kind + '_names')
    for j, v in enumerate(m[kind]):
        if v[0] == k:
            return names[j] if names else ('v' if kind == 'nodal' else 'e') + str(k)
    return None


def dropped_by(c):
    """the in-place modification / conversion of the history that runs FEMData._clear_query_caches or
    _own_table(drop=...) (they drop elemental variables BY NAME)"""
    k = c['op']['k']
    hist = [e['k'] for e in (c.get('pre') or []) + (c.get('mid') or [])]
    if k == 'RemoveUseless' or (c.get('first') or {}).get('k') == 'RemoveUseless' or 'useless' in hist:
        return 'remove_useless_nodes'
    if 'conn' in hist:
        return 'elements.data='
    if k == 'FirstOrder':
        return 'to_first_order'
    return None


# --------------------------------------------------------------- generator
def gen_mesh(rng):
    kind = rng.choice(['hex', 'mix', 'mix', 'tet', 'tet2', 'hex2', 'soup', 'soup', 'shell', 'prism',
                       'mix2', 'mix2', 'mix2'])
    elems = {}          # type -> list of connectivity (lattice node indices)
    if kind == 'soup':
        n_lat = rng.randrange(5, 14)
        for _ in range(rng.randrange(1, 7)):
            t = rng.choice(['tri', 'quad', 'tet', 'pyr', 'prism', 'hex'])
            if ARITY[t] <= n_lat:
                elems.setdefault(t, []).append(rng.sample(range(n_lat), ARITY[t]))
        if not elems:
            elems['tri'] = [rng.sample(range(n_lat), 3)]
    elif kind == 'shell':
        nx, ny = rng.choice([(1, 1), (2, 1), (2, 2), (3, 1)])
        idx = lambda i, j: i * (ny + 1) + j
        n_lat = (nx + 1) * (ny + 1)
        for i in range(nx):
            for j in range(ny):
                q = [idx(i, j), idx(i + 1, j), idx(i + 1, j + 1), idx(i, j + 1)]
                if rng.random() < 0.5:
                    elems.setdefault('quad', []).append(q)
                else:
                    elems.setdefault('tri', []).extend([[q[0], q[1], q[2]], [q[0], q[2], q[3]]])
    else:
        nx, ny, nz = rng.choice([(1, 1, 1), (2, 1, 1), (2, 2, 1), (1, 1, 2), (3, 1, 1)])
        idx = lambda i, j, k: (i * (ny + 1) + j) * (nz + 1) + k
        n_lat = (nx + 1) * (ny + 1) * (nz + 1)
        for i in range(nx):
            for j in range(ny):
                for k in range(nz):
                    h = [idx(i, j, k), idx(i + 1, j, k), idx(i + 1, j + 1, k), idx(i, j + 1, k),
                         idx(i, j, k + 1), idx(i + 1, j, k + 1), idx(i + 1, j + 1, k + 1), idx(i, j + 1, k + 1)]
                    split = {'hex': 'hex', 'hex2': 'hex', 'tet': 'tet', 'tet2': 'tet', 'prism': 'prism',
                             'mix': rng.choice(['hex', 'prism', 'tet']),
                             'mix2': rng.choice(['hex', 'tet', 'tetB', 'hexB'])}[kind]
                    if split in ('hex', 'hexB'):
                        elems.setdefault(split, []).append(h)
                    elif split == 'tetB':
                        for a, b_ in [(1, 2), (2, 3), (3, 7), (7, 4), (4, 5), (5, 1)]:
                            elems.setdefault('tetB', []).append([h[0], h[a], h[b_], h[6]])
                    elif split == 'prism':
                        elems.setdefault('prism', []).extend(
                            [[h[0], h[1], h[2], h[4], h[5], h[6]], [h[0], h[2], h[3], h[4], h[6], h[7]]])
                    else:
                        for a, b_ in [(1, 2), (2, 3), (3, 7), (7, 4), (4, 5), (5, 1)]:
                            elems.setdefault('tet', []).append([h[0], h[a], h[b_], h[6]])
        if kind == 'mix2':
            # first and second order of the same family (and of another family) in one mesh:
            # the 'B' cells become second order
            if 'tetB' not in elems and 'hexB' not in elems:
                src = 'tet' if 'tet' in elems else 'hex'
                elems[src + 'B'] = elems.pop(src)
        if kind in ('tet2', 'hex2', 'mix2'):
            mids = {}

            def mid(a, b_):
                nonlocal n_lat
                key = (min(a, b_), max(a, b_))
                if key not in mids:
                    mids[key] = n_lat
                    n_lat += 1
                return mids[key]
            def tet2(cs):
                return [c + [mid(c[1], c[2]), mid(c[0], c[2]), mid(c[0], c[1]),
                             mid(c[0], c[3]), mid(c[1], c[3]), mid(c[2], c[3])] for c in cs]
            edges = [(0, 1), (1, 2), (2, 3), (3, 0), (4, 5), (5, 6), (6, 7), (7, 4),
                     (0, 4), (1, 5), (2, 6), (3, 7)]

            def hex2(cs):
                return [c + [mid(c[a], c[b_]) for a, b_ in edges] for c in cs]
            if kind == 'tet2':
                elems = {'tet2': tet2(elems['tet'])}
            elif kind == 'hex2':
                elems = {'hex2': hex2(elems['hex'])}
            else:
                if 'tetB' in elems:
                    elems['tet2'] = tet2(elems.pop('tetB'))
                if 'hexB' in elems:
                    elems['hex2'] = hex2(elems.pop('hexB'))
    n_extra = rng.choice([0, 0, 1, 2, 3])          # unreferenced nodes
    n_nodes = n_lat + n_extra
    used = sorted({v for cs in elems.values() for c in cs for v in c})
    # soup meshes may leave lattice nodes unused as well
    mode = rng.choice(['dense', 'sparse', 'sparse', 'large', 'almost', 'almost'])

    def fresh(k, pool):
        out = []
        while len(out) < k:
            i = {'dense': rng.randrange(1, 3 * k + 10), 'almost': rng.randrange(1, 3 * k + 10),
                 'sparse': rng.randrange(1, 100000),
                 'large': rng.choice([rng.randrange(1, 60), rng.randrange(2 ** 31, 2 ** 31 + 60),
                                      rng.randrange(2 ** 40, 2 ** 40 + 60)])}[mode]
            if i not in pool:
                pool.add(i)
                out.append(i)
        return out
    node_id = fresh(n_nodes, set())                # lattice index -> id
    order = list(range(n_nodes))
    if mode == 'almost':
        # dense ids a..a+n-1 stored almost sorted: ends in place + interior shuffled, two
        # neighbours swapped, one id moved, reversed
        a0 = rng.choice([1, 1, 0, 1000, 2 ** 31 - 3])
        perm = list(range(n_nodes))
        rng.shuffle(perm)
        node_id = [a0 + p for p in perm]
        order.sort(key=lambda k: node_id[k])
        how = rng.choice(['interior', 'swap', 'move', 'reversed'])
        if how == 'interior' and n_nodes > 3:
            mid_ = order[1:-1]
            rng.shuffle(mid_)
            order = [order[0]] + mid_ + [order[-1]]
        elif how == 'swap' and n_nodes > 1:
            j = rng.randrange(n_nodes - 1)
            order[j], order[j + 1] = order[j + 1], order[j]
        elif how == 'move' and n_nodes > 2:
            x = order.pop(rng.randrange(n_nodes))
            order.insert(rng.randrange(n_nodes), x)
        else:
            order.reverse()
    else:
        if rng.random() < 0.85:
            rng.shuffle(order)                     # storage order != lattice order
        if rng.random() < 0.1:
            order.sort(key=lambda k: node_id[k])   # sometimes ascending ids
    nodes = {'ids': [node_id[k] for k in order],
             'rows': [[node_id[k] % 1000 * 3 + 1, k, node_id[k] % 7] for k in order]}
    epool = set()
    blocks = []
    for t in sorted(elems, key=lambda t: T[t]):
        ids = fresh(len(elems[t]), epool)
        conn = [[node_id[v] for v in c] for c in elems[t]]
        z = list(zip(ids, conn))
        rng.shuffle(z)
        blocks.append([T[t], [i for i, _ in z], [c for _, c in z]])
    nodal, var_modes = [], []
    for k in range(rng.choice([1, 1, 2, 3])):
        tail = rng.choice([[1], [3], [3, 3]])
        w = 1
        for d in tail:
            w *= d
        vm = rng.choice(['aligned', 'aligned', 'aligned', 'shuffled', 'subset'])
        ids = list(nodes['ids'])
        if vm == 'shuffled':
            rng.shuffle(ids)
            if ids == nodes['ids']:
                vm = 'aligned'
        elif vm == 'subset':
            ids = [i for i in ids if rng.random() < 0.7] or ids[:1]
            if ids == nodes['ids']:
                vm = 'aligned'
        nodal.append([k, ids, [[(i % 100003) * 10 + k * 1000003 + j for j in range(w)] for i in ids], tail])
        var_modes.append(vm)
    elemental = []
    for k in range(rng.choice([0, 1, 1, 2])):
        tail = rng.choice([[1], [3]])
        w = tail[0]
        eb = []
        for t, ids, _ in blocks:
            if rng.random() < 0.15 and len(blocks) > 1:
                continue
            ids2 = list(ids)
            if rng.random() < 0.4:
                rng.shuffle(ids2)
            if rng.random() < 0.15:
                ids2 = ids2[:max(1, len(ids2) - 1)]
            eb.append([t, ids2, [[(i % 100003) * 10 + k * 1000003 + j + 5 for j in range(w)] for i in ids2]])
        if eb:
            elemental.append([k, eb, tail])
    # names: mostly neutral, sometimes the names the library uses for its own derived results / caches
    def pick(prefix, entries, reserved):
        names = []
        for e in entries:
            free = [x for x in reserved if x not in names]
            names.append(rng.choice(free) if free and rng.random() < 0.3 else f'{prefix}{e[0]}')
        return names
    nodal_names = pick('v', nodal, NODAL_RESERVED)
    elemental_names = pick('e', elemental, ELEMENTAL_RESERVED)
    dtypes = {'xyz': rng.choice(['float64', 'float64', 'float32', 'int64', 'int32']),
              'nodal': [rng.choice(['float64', 'float64', 'int64', 'float32', 'bool']) for _ in nodal]}
    for (k, ids, rows, tail), dt in zip(nodal, dtypes['nodal']):
        if dt == 'bool':
            for r_ in rows:
                r_[:] = [v % 2 for v in r_]
    return {'dtypes': dtypes, 'nodes': nodes, 'elems': blocks, 'nodal': nodal, 'elemental': elemental, 'kind': kind,
            'nodal_names': nodal_names, 'elemental_names': elemental_names,
            'idmode': mode, 'var_modes': var_modes, 'n_extra': n_extra}


def gen_pre(rng, m):
    """edits through the public update API on existing ids (rows move to other values)"""
    pre = []
    nids = m['nodes']['ids']
    kinds = rng.choice([['nodes'], ['nodes'], ['nodal'], ['nodes', 'nodal'], ['xyz'], ['conn'], ['conn', 'nodes']])
    for kd in kinds:
        if kd == 'xyz':
            # fem_data.nodes.data = new array (all coordinates replaced)
            pre.append({'k': 'xyz', 'rows': [[i % 1000 * 3 + 5, 700 + j, i % 5] for j, i in enumerate(nids)]})
            continue
        if kd == 'conn':
            # fem_data.elements.data = conn (single-type meshes): a new array, or the array
            # returned by the getter edited in place and assigned back
            if len(m['elems']) != 1:
                continue
            t, eids_, conn = m['elems'][0]
            new = [list(c) for c in conn]
            for _ in range(rng.randrange(1, 3)):
                e = rng.randrange(len(new))
                cands = [i for i in nids if i not in new[e]]
                if cands:
                    new[e][rng.randrange(len(new[e]))] = rng.choice(cands)
            pre.append({'k': 'conn', 'rows': new, 'inplace': rng.random() < 0.5})
            continue
        if kd == 'nodes':
            ids = rng.sample(nids, rng.randrange(1, len(nids) + 1)) if rng.random() < 0.8 else list(nids)
            pre.append({'k': 'nodes', 'ids': ids,
                        'rows': [[i % 1000 * 3 + 2, 500 + j, i % 11] for j, i in enumerate(ids)]})
        elif m['nodal']:
            k, vids, _, tail = rng.choice(m['nodal'])
            w = 1
            for d in tail:
                w *= d
            ids = rng.sample(vids, rng.randrange(1, len(vids) + 1))
            pre.append({'k': 'nodal', 'var': k, 'ids': ids, 'tail': tail,
                        'rows': [[(i % 100003) * 10 + k * 1000003 + 500000 + j for j in range(w)] for i in ids]})
    return pre


def edited(m, pre):
    """the mesh the operation sees, as id-keyed content (storage order of the
    edited tables is irrelevant to the oracle)"""
    if not pre:
        return m
    m2 = json.loads(json.dumps(m))
    for e in pre:
        if e['k'] == 'useless':
            used = {v for _, _, cs in m2['elems'] for c in cs for v in c}
            keep = [j for j, i in enumerate(m2['nodes']['ids']) if i in used]
            m2['nodes'] = {'ids': [m2['nodes']['ids'][j] for j in keep], 'rows': [m2['nodes']['rows'][j] for j in keep]}
            for v in m2['nodal']:
                kp = [j for j, i in enumerate(v[1]) if i in used]
                v[1], v[2] = [v[1][j] for j in kp], [v[2][j] for j in kp]
        elif e['k'] == 'nodes':
            rows = dict(zip(m2['nodes']['ids'], m2['nodes']['rows']))
            rows.update(zip(e['ids'], e['rows']))
            m2['nodes']['rows'] = [rows[i] for i in m2['nodes']['ids']]
        elif e['k'] == 'xyz':
            m2['nodes']['rows'] = [list(r) for r in e['rows']]
        elif e['k'] == 'conn':
            m2['elems'][0][2] = [list(r) for r in e['rows']]
        else:
            for v in m2['nodal']:
                if v[0] == e['var']:
                    rows = dict(zip(v[1], v[2]))
                    rows.update(zip(e['ids'], e['rows']))
                    v[2] = [rows[i] for i in v[1]]
    return m2


def pre_l(pre):
    out = []
    for e in pre:
        if e['k'] == 'xyz':
            out.append('(EditXyz [' + ';'.join(zl(r) for r in e['rows']) + '])')
            continue
        if e['k'] == 'conn':
            out.append('(EditConn [' + ';'.join(zl(r) for r in e['rows']) + '])')
            continue
        if e['k'] == 'useless':
            out.append('EditUseless')
            continue
        t = table_l(list(zip(e['ids'], e['rows'])))
        out.append(f'(EditNodes {t})' if e['k'] == 'nodes' else f'(EditNodal {e["var"]}%nat {t})')
    return '[' + ';'.join(out) + ']'


def rf(c):
    return 'true' if (c.get('first') or {}).get('k') == 'RemoveUseless' else 'false'


def gen_pairs(rng, m, ops):
    """(operation, earlier call on the same object)"""
    out = []
    by_kind = {}
    for op in ops:
        by_kind.setdefault(op['k'], []).append(op)
    surf = [o for o in ops if o['k'] == 'Surface']
    fac = by_kind.get('Facets', [])
    for k, lst in by_kind.items():
        op = rng.choice(lst)
        if k == 'RemoveUseless' and 'subset' in m['var_modes']:
            continue
        out.append((op, op))                                  # the same call twice
    for op in surf:
        out.append((op, {'k': 'ExtractSurface'}))
        out.append((op, {'k': 'Surface', 'remove': not op['remove']}))
        if fac:
            out.append((op, fac[0]))
        out.append((op, {'k': 'ExtractFacets', 'remove_duplicates': True}))
    for op in fac:
        if surf:
            out.append((op, surf[0]))
        out.append((op, {'k': 'ExtractFacets', 'remove_duplicates': False}))
    if 'subset' not in m['var_modes']:
        for op in rng.sample(ops, min(2, len(ops))):
            if op['k'] != 'RemoveUseless':
                out.append((op, {'k': 'RemoveUseless'}))
    cuts = [o for o in ops if o['k'] in ('CutEids', 'CutNids', 'ExtractIdx', 'CutType')]
    for op in rng.sample(cuts, min(2, len(cuts))):
        out.append((op, rng.choice([o for o in ops if o['k'] != 'RemoveUseless'])))
    return out


def adversarial_cases():
    """shell meshes whose facets collide when a sorted row is packed into one 64-bit key with
    base = max id + 1 (row2 = row1 + digits of 2**64 in that base): a row-wise unique keeps both"""
    out = []
    for width, base in ((4, 10 ** 6), (4, 70001), (3, 2642257), (3, 5 * 10 ** 6)):
        digits, x = [], 2 ** 64
        for _ in range(width):
            digits.append(x % base)
            x //= base
        if x:
            continue
        digits.reverse()                       # most significant first
        lo = [1, 2, 3, 4][:width]
        # row1 ascending, row1 + digits ascending and below base
        row1, prev1, prev2 = [], 0, 0
        for d in digits:
            v = max(prev1 + 1, prev2 + 1 - d, 1)
            row1.append(v)
            prev1, prev2 = v, v + d
        row2 = [a + d for a, d in zip(row1, digits)]
        if row2[-1] >= base - 1 or row1 == row2:
            continue
        row3 = [5, 6, 7, base - 1][-width:] if width == 4 else [6, 7, base - 1]
        ids = sorted(set(row1 + row2 + row3))
        t = T['quad'] if width == 4 else T['tri']
        mesh = {'nodes': {'ids': ids[::-1], 'rows': [[i % 997, i % 13, 1] for i in ids[::-1]]},
                'elems': [[t, [3, 1, 2], [row2[::-1], row1, row3]]],
                'nodal': [[0, ids[::-1], [[i % 100003] for i in ids[::-1]], [1]]], 'elemental': [],
                'kind': 'adversarial', 'idmode': 'large', 'var_modes': ['aligned'], 'n_extra': 0}
        out.append((mesh, {'k': 'Facets'}))
        out.append((mesh, {'k': 'Surface', 'remove': True}))
    return out


def gen_ops(rng, m):
    ops = []
    eids = [i for _, ids, _ in m['elems'] for i in ids]
    nids = m['nodes']['ids']
    conn = {i: c for _, ids, cs in m['elems'] for i, c in zip(ids, cs)}
    # element-id selections: singleton, all, random subset in random order, near-empty
    sels = [[rng.choice(eids)], rng.sample(eids, len(eids)),
            rng.sample(eids, rng.randrange(1, len(eids) + 1))]
    sels.append([rng.choice(eids), max(eids) + 1 + rng.randrange(9)])
    if rng.random() < 0.3:
        sels.append([max(eids) + 3])                                   # nothing matches: raises
    for s in sels:
        ops.append({'k': 'CutEids', 'sel': s})
    present = [t for t, _, _ in m['elems']]
    ops.append({'k': 'CutType', 't': rng.choice(present)})
    if rng.random() < 0.3:
        ops.append({'k': 'CutType', 't': rng.choice([t for t in (3, 5, 8, 12, 14) if t not in present] or [18])})
    # node selections: all, the nodes of one or two elements (+ extras), random subset, one missing
    some = sorted({v for e in rng.sample(eids, min(len(eids), rng.choice([1, 2]))) for v in conn[e]})
    extra = [i for i in nids if i not in some and rng.random() < 0.3]
    s1 = some + extra
    rng.shuffle(s1)
    ops.append({'k': 'CutNids', 'sel': rng.sample(nids, len(nids))})
    ops.append({'k': 'CutNids', 'sel': s1})
    ops.append({'k': 'CutNids', 'sel': rng.sample(nids, rng.randrange(1, len(nids) + 1))})
    if rng.random() < 0.3:
        ops.append({'k': 'CutNids', 'sel': [nids[0], max(nids) + 5]})
    n_e = len(eids)
    ops.append({'k': 'ExtractIdx', 'ks': rng.sample(range(n_e), rng.randrange(1, n_e + 1))})
    if rng.random() < 0.2:
        ops.append({'k': 'ExtractIdx', 'ks': [n_e]})
    ops.append({'k': 'RemoveUseless'})
    ops.append({'k': 'FirstOrder'})
    if m['kind'] not in ('hex2', 'shell'):
        ops.append({'k': 'Surface', 'remove': True})
        if rng.random() < 0.4:
            # falsy values that are not `False`
            ops.append({'k': 'Surface', 'remove': False, 'flag': rng.choice(['False', 'None', '0', 'np.False_'])})
        ops.append({'k': 'Facets'})
    return ops


# --------------------------------- translator validation: gen/FirstOrder.v against the running code
def validate_first_order(ctx, table):
    """FEMElementalAttribute._to_first_order is run on a probe array for EVERY element type (the
    domain is finite) and compared, inside Coq, with the generated first_order_arity"""
    res = run_impl(ctx, [{'id': 0, 'probe_first_order': True}], tag='probe')[0]
    if 'error' in res:
        ctx.violation('tie-broken', {'error': res['error'][-400:]}, 'probe of _to_first_order runs', 'child raised',
                      'translator validation (first_order_arity)', found_input=False,
                      signature={'kind': 'translator-validation', 'table': 'first_order_arity', 'what': 'probe-failed'})
        return
    obs = res['probe']                       # [type index, 'same' | k | None] ; -1 = not a column prefix
    def lit(v):
        return 'Some None' if v == 'same' else 'None' if v is None else f'Some (Some {int(v)}%nat)'
    items = ';'.join(f'({i}%nat, {lit(v)})' for i, v in obs if v != -1)
    txt = (HEADER + f'Definition probes : list (nat * option (option nat)) := [{items}].\n'
           'Definition oeq (a b : option (option nat)) := match a, b with\n'
           '  | None, None => true | Some None, Some None => true | Some (Some x), Some (Some y) => Nat.eqb x y | _, _ => false end.\n'
           'Goal True. idtac "@@ failing". Abort.\n'
           'Eval vm_compute in map fst (filter (fun c => negb (oeq (first_order_arity (fst c)) (snd c))) probes).\n')
    rc, out, err = ctx.coq_eval('ProbeFirstOrder', txt, timeout=600)
    bad = None
    if rc == 0:
        t = lib.parse_marked(out).get('failing', '').split(': list')[0]
        bad = [int(x) for x in re.findall(r'\d+', t.replace('%nat', ''))]
    weird = [i for i, v in obs if v == -1]
    ctx.notes['translator_validation_first_order'] = {'types_probed': len(obs), 'differ': bad, 'not_a_column_prefix': weird}
    if bad is None or bad or weird or len(obs) != len(ELEMENT_TYPES):
        ctx.violation('tie-broken', {'observed': obs, 'translated': table}, 'generated table = behaviour of the code',
                      {'types_that_differ': bad, 'not_a_column_prefix': weird},
                      'translator validation (first_order_arity)', found_input=bool(bad or weird),
                      signature={'kind': 'translator-validation', 'table': 'first_order_arity'},
                      what='gen/FirstOrder.v differs from FEMElementalAttribute._to_first_order on a probe array')


def validate_facet_type(ctx, table):
    """_generate_surface_core run on arrays of every width 0..12 and on a 1-D object array, compared in
    Coq with the generated facet_type; the width -> type mirror the harness uses to hand facet groups
    to the model ({3: tri, 4: quad, else polygon}) is compared with it as well"""
    res = run_impl(ctx, [{'id': 0, 'probe_facet_type': True}], tag='probe2')[0]
    sig = {'kind': 'translator-validation', 'table': 'facet_type'}
    if 'error' in res:
        ctx.violation('tie-broken', {'error': res['error'][-400:]}, 'probe of _generate_surface_core runs', 'child raised',
                      'translator validation (facet_type)', found_input=False, signature=dict(sig, what='probe-failed'))
        return
    obs = res['probe']                       # [[w | '1d', type index | None], ...]
    o = lambda v: 'None' if v is None else f'Some {int(v)}%nat'
    items = ';'.join(f'({w}%nat, {o(v)})' for w, v in obs if w != '1d')
    one_d = [v for w, v in obs if w == '1d']
    mirror = ';'.join(f'({w}%nat, Some {({3: 3, 4: 5}).get(w, 7)}%nat)' for w in range(3, 13))
    txt = (HEADER + 'From FV.C09 Require Import SurfaceTypes.\n'
           f'Definition probes : list (nat * option nat) := [{items}].\n'
           f'Definition mirror : list (nat * option nat) := [{mirror}].\n'
           'Definition oeq (a b : option nat) := match a, b with None, None => true | Some x, Some y => Nat.eqb x y | _, _ => false end.\n'
           'Goal True. idtac "@@ failing". Abort.\n'
           'Eval vm_compute in (map fst (filter (fun c => negb (oeq (facet_type (fst c)) (snd c))) (probes ++ mirror)), '
           f'oeq facet_type_1d ({o(one_d[0]) if one_d else "None"})).\n')
    rc, out, err = ctx.coq_eval('ProbeFacetType', txt, timeout=600)
    bad, ok1d = None, False
    if rc == 0:
        t = lib.parse_marked(out).get('failing', '').split(': list')[0]
        ok1d = 'true' in t
        bad = [int(x) for x in re.findall(r'\d+', t.split(']')[0].replace('%nat', ''))]
    ctx.notes['translator_validation_facet_type'] = {'widths_probed': len(obs), 'differ': bad, 'one_d_agrees': ok1d}
    if bad is None or bad or not ok1d or len(obs) != 14:
        ctx.violation('tie-broken', {'observed': obs, 'translated': {str(k): v for k, v in table.items()}},
                      'generated table = behaviour of the code = mirror used by the harness',
                      {'widths_that_differ': bad, 'one_d_agrees': ok1d}, 'translator validation (facet_type)',
                      found_input=bool(bad) or not ok1d, signature=sig,
                      what='gen/FacetType.v differs from FEMElementalAttribute._generate_surface_core on a probe array')


# ------------------------------------------- polyhedron meshes with the 'face' variable
def gen_poly(rng):
    """1-4 polyhedra on shared nodes; the 'face' variable lists node POSITIONS per face (the cut
    renumbers them through FEMData.convert_polyhedron); ids sparse / large, storage shuffled,
    unreferenced nodes; selection = subset in random order, sometimes with an id that does not exist"""
    n_nodes = rng.randrange(5, 16)
    mode = rng.choice(['dense', 'sparse', 'large'])
    pool = set()
    while len(pool) < n_nodes:
        pool.add({'dense': rng.randrange(0, 3 * n_nodes), 'sparse': rng.randrange(1, 100000),
                  'large': rng.choice([rng.randrange(1, 60), rng.randrange(2 ** 31, 2 ** 31 + 60)])}[mode])
    ids = list(pool)
    rng.shuffle(ids)
    if rng.random() < 0.15:
        ids.sort()
    n_el = rng.randrange(1, 5)
    eids = rng.sample(range(1, 50 if mode != 'large' else 2 ** 33), n_el)
    conn, faces = [], []
    usable = ids[:max(4, n_nodes - rng.choice([0, 0, 1, 2]))]     # the rest stays unreferenced
    for _ in range(n_el):
        c = rng.sample(usable, rng.randrange(4, min(9, len(usable) + 1)))
        fs = [rng.sample(c, rng.randrange(3, min(6, len(c) + 1))) for _ in range(rng.randrange(2, 7))]
        if rng.random() < 0.1:
            fs = []                                               # a polyhedron without faces: row [0]
        conn.append(c)
        faces.append(fs)
    sel = rng.sample(eids, rng.randrange(1, n_el + 1))
    if rng.random() < 0.2:
        sel.insert(rng.randrange(len(sel) + 1), max(eids) + 1 + rng.randrange(5))
    if rng.random() < 0.05:
        sel = [max(eids) + 7]
    return {'nodes': {'ids': ids, 'rows': [[i % 997, k, i % 7] for k, i in enumerate(ids)]},
            'eids': eids, 'conn': conn, 'faces': faces, 'sel': sel, 'idmode': mode}


def poly_oracle(q, r):
    """the property on the implementation's result, evaluated in Python (for the report)"""
    bad = []
    want = [i for i in q['sel'] if i in q['eids']]
    if r.get('raised') is not None:
        return [] if not want else [('cut-raises', r['raised'])]
    if not want:
        return [('cut-of-nothing-does-not-raise', None)]
    o = r['result']
    if sorted(o['eids']) != sorted(want):
        bad.append(('retained-elements', None))
    by_id = dict(zip(q['eids'], zip(q['conn'], q['faces'])))
    xyz0 = dict(zip(q['nodes']['ids'], q['nodes']['rows']))
    if any(xyz0.get(i) != row for i, row in zip(o['nodes'], o['xyz'])):
        bad.append(('node-coordinates', None))
    if o['face_ids'] != o['eids']:
        bad.append(('face-variable-on-other-elements', None))
    for i, c, fid, row in zip(o['eids'], o['conn'], o['face_ids'], o['face_rows']):
        if i not in by_id:
            continue
        if c != by_id[i][0]:
            bad.append(('element-connectivity', i))
        # decode the row through the node table of the RESULT
        try:
            m, at, got = row[0], 1, []
            for _ in range(m):
                k = row[at]
                got.append([o['nodes'][p] for p in row[at + 1:at + 1 + k]])
                at += 1 + k
        except Exception:
            got = None
        if fid in by_id and got != by_id[fid][1]:
            bad.append(('faces-name-other-nodes-than-before', fid))
    if set(o['nodes']) != {v for i in want for v in by_id[i][0]} or len(set(o['nodes'])) != len(o['nodes']):
        bad.append(('retained-nodes', None))
    if r.get('parent_rows_after') != r.get('rows'):
        bad.append(('cut-changes-the-face-variable-of-the-parent', None))
    return bad


def poly_stream(ctx, n):
    cases = [{'id': i, 'poly': gen_poly(ctx.rng)} for i in range(n)]
    res = run_impl(ctx, cases, tag='poly')
    items, items2, n_or = [], [], 0
    for c in cases:
        q, r = c['poly'], res[c['id']]
        if 'error' in r:
            ctx.violation('correspondence', {'poly': q, 'error': r['error'][-300:]}, 'harness runs every case',
                          'child raised', 'correspondence C09 (polyhedron stream)', found_input=False,
                          signature={'kind': 'harness-error', 'stream': 'polyhedron'})
            continue
        ctx.count('polyhedron-cut:' + ('raised' if r.get('raised') else 'ok'))
        ctx.count('polyhedron-ids:' + q['idmode'])
        ctx.case(['poly', q], nontrivial=r.get('raised') is None,
                 sample={'node_ids': q['nodes']['ids'][:8], 'sel': q['sel'], 'result': (r.get('result') or {}).get('face_rows', [])[:1]})
        for what, detail in poly_oracle(q, r):
            n_or += 1
            ctx.violation('impl-violation', {'poly': q}, 'retained polyhedra keep their faces (node ids per face), '
                          'ids and connectivity; the result is self-contained',
                          {'what': what, 'detail': detail, 'impl': r}, 'C09 oracle on the implementation (polyhedron cut)',
                          found_input=True, signature={'op': 'cut_with_element_ids', 'elements': 'polyhedron', 'what': what},
                          what=f'cut_with_element_ids on polyhedra: {what} {detail if detail else ""}')
        if r.get('raised') is None:
            o = r['result']
            row0 = dict(zip(q['eids'], r['rows']))
            pairs = '[' + ';'.join(f'({zl(row0[i])},{zl(row)})' for i, row in zip(o['face_ids'], o['face_rows'])
                                   if i in row0) + ']'
            conns = '[' + ';'.join(zl(x) for x in o['conn']) + ']'
            items.append(f'({c["id"]}%nat, pcheck {zl(q["nodes"]["ids"])} {zl(o["nodes"])} {conns} {pairs})')
        # the whole cut in the model (PolyCut.cut_face, theorem C09_cut_with_element_ids_face)
        if 'error' not in r and 'rows' in r:
            inp = (f'{table_l(list(zip(q["nodes"]["ids"], q["nodes"]["rows"])))} {table_l(list(zip(q["eids"], q["conn"])))} '
                   f'{table_l(list(zip(q["eids"], r["rows"])))} {zl(q["sel"])}')
            if r.get('raised') is None:
                o = r['result']
                ob = (f'(Some ({table_l(list(zip(o["nodes"], o["xyz"])))}, {table_l(list(zip(o["eids"], o["conn"])))}, '
                      f'{table_l(list(zip(o["face_ids"], o["face_rows"])))}))')
            else:
                ob = 'None'
            items2.append(f'({c["id"]}%nat, pcut_check {inp} {ob})')
    bad = coq_check(ctx, 'CorrPoly', [], items) if items else {}
    if bad is None:
        ctx.violation('correspondence', {'file': 'CorrPoly'}, 'scratch files compile', 'coqc failed',
                      'correspondence C09 (polyhedron stream)', found_input=False,
                      signature={'kind': 'corr-compile', 'stream': 'polyhedron'})
        bad = {}
    PC = {1: 'result nodes are not the sorted unique nodes of the retained elements',
          2: 'face row differs from the model convert_polyhedron', 3: 'faces name other node ids than before',
          4: 'generated row malformed (harness error)'}
    for cid, codes in sorted(bad.items())[:4]:
        ctx.violation('correspondence', {'poly': cases[cid]['poly']}, 'model and implementation return the same face rows',
                      {'differs_in': [PC.get(k, k) for k in codes], 'impl': res[cid]},
                      'correspondence C09 (Corr.pcheck / C09_convert_polyhedron)', found_input=True,
                      signature={'kind': 'correspondence', 'op': 'cut_with_element_ids', 'elements': 'polyhedron',
                                 'differs_in': ','.join(str(k) for k in codes)},
                      what='polyhedron cut: model and implementation differ')
    bad2 = coq_check(ctx, 'CorrPolyCut', ['From FV.C09 Require Import PolyCut CorrPoly.'], items2) if items2 else {}
    if bad2 is None:
        ctx.violation('correspondence', {'file': 'CorrPolyCut'}, 'scratch files compile', 'coqc failed',
                      'correspondence C09 (polyhedron stream, cut_face)', found_input=False,
                      signature={'kind': 'corr-compile', 'stream': 'polyhedron-cut'})
        bad2 = {}
    PC2 = {1: 'implementation raises, model does not', 2: 'model raises, implementation does not', 3: 'nodes',
           4: 'elements', 5: 'face variable'}
    for cid, codes in sorted(bad2.items())[:4]:
        ctx.violation('correspondence', {'poly': cases[cid]['poly']}, 'model (cut_face) and implementation return the same mesh '
                      'and face variable', {'differs_in': [PC2.get(k, k) for k in codes], 'impl': res[cid]},
                      'correspondence C09 (CorrPoly.pcut_check / C09_cut_with_element_ids_face)', found_input=True,
                      signature={'kind': 'correspondence', 'op': 'cut_with_element_ids', 'elements': 'polyhedron',
                                 'model': 'cut_face', 'differs_in': ','.join(str(k) for k in codes)},
                      what='polyhedron cut: model cut_face and implementation differ')
    ctx.notes['polyhedron_cut_face'] = {'compared_in_coq': len(items2), 'disagreements': len(bad2)}
    ctx.notes['polyhedron_stream'] = {'cases': len(cases), 'compared_in_coq': len(items), 'disagreements': len(bad),
                                      'oracle_failures': n_or}
    ctx.log(f'polyhedron stream: {len(cases)} cuts, {len(items)} compared in Coq, disagreements {len(bad)}, '
            f'oracle failures {n_or}')
    return len(items)


# ------------------------------------------------------------ Coq literals
def z(i):
    return str(int(i)) if i >= 0 else f'({int(i)})'


def zl(xs):
    return '[' + ';'.join(z(x) for x in xs) + ']'


def nl(xs):
    return '[' + ';'.join(str(int(x)) for x in xs) + ']%nat'


def table_l(t):
    return '[' + ';'.join(f'({z(i)},{zl(r)})' for i, r in t) + ']'


def blocks_l(bs):
    return '[' + ';'.join(f'({t}%nat,{table_l(tb)})' for t, tb in bs) + ']'


def mesh_l(nodes, elems, nodal, elemental):
    return ('{|nodes:=%s;elems:=%s;nodal:=%s;elemental:=%s|}' % (
        table_l(nodes), blocks_l(elems),
        '[' + ';'.join(f'({k}%nat,{table_l(tb)})' for k, tb in nodal) + ']',
        '[' + ';'.join(f'({k}%nat,{blocks_l(bs)})' for k, bs in elemental) + ']'))


def input_mesh_l(m):
    return mesh_l(list(zip(m['nodes']['ids'], m['nodes']['rows'])),
                  [(t, list(zip(ids, conn))) for t, ids, conn in m['elems']],
                  [(k, list(zip(ids, rows))) for k, ids, rows, _ in m['nodal']],
                  [(k, [(t, list(zip(ids, rows))) for t, ids, rows in bs]) for k, bs, _ in m['elemental']])


def op_l(op, r):
    k = op['k']
    if k == 'CutEids':
        return f'(CutEids {zl(op["sel"])})'
    if k == 'CutType':
        return f'(CutType {op["t"]}%nat)'
    if k == 'CutNids':
        return f'(CutNids {zl(op["sel"])})'
    if k == 'ExtractIdx':
        return f'(ExtractIdx {nl(op["ks"])})'
    if k == 'RemoveUseless':
        return 'RemoveUseless'
    if k == 'FirstOrder':
        return 'FirstOrder'
    if k == 'Surface':
        g = '[' + ';'.join(f'({t}%nat,[' + ';'.join(nl(row) for row in rows) + '])' for t, rows in r['surf']) + ']'
        return f'(Surface {g} {"true" if op["remove"] else "false"})'
    if k == 'Facets':
        g = '[' + ';'.join(f'({t}%nat,[' + ';'.join(zl(row) for row in rows) + '])' for t, rows in r['facets']) + ']'
        return f'(Facets {g})'
    raise AssertionError(k)


def obs_l(r):
    if r.get('result') is None:
        return 'None'
    o = r['result']
    s = o['summary']
    return ('(Some {|ob_mesh:=%s;ob_ids:=%s;ob_types:=%s;ob_data:=%s|})' % (
        mesh_l(o['nodes'], o['elems'], o['nodal'], o['elemental']), zl(s['ids']), nl(s['types']),
        '[' + ';'.join(zl(c) for c in s['data']) + ']'))


HEADER = ('From Coq Require Import ZArith List Bool.\nImport ListNotations.\n'
          'From FV.C09 Require Import Table AttrModel Model Corr.\n'
          'From FV.C09.gen Require Import MeshCfg.\nLocal Open Scope Z_scope.\n'
          'Set Printing Width 100000.\nSet Printing Depth 100000.\n')


def coq_check(ctx, name, mesh_defs, items):
    txt = [HEADER] + mesh_defs + ['Definition cases : list (nat * list nat) := [', ';\n'.join(items), '].',
                                  'Goal True. idtac "@@ failing". Abort.',
                                  'Eval vm_compute in filter (fun c => match snd c with [] => false | _ => true end) cases.']
    rc, out, err = ctx.coq_eval(name, '\n'.join(txt) + '\n', timeout=1200)
    if rc != 0:
        ctx.log(f'{name}: scratch file failed to compile', err[-600:])
        return None
    t = lib.parse_marked(out).get('failing', '').split(': list')[0].replace('%nat', '')
    return {int(m.group(1)): [int(x) for x in re.findall(r'\d+', m.group(2))]
            for m in re.finditer(r'\((\d+),\s*\[([^\]]*)\]\)', t)}


def run_impl(ctx, cases, tag='impl'):
    spec = {'cases': cases, 'out': str(ctx.scratch / f'{tag}_out.json')}
    r = subprocess.run([lib.PY, str(lib.VERIF / 'harness' / 'c09_impl.py')], input=json.dumps(spec),
                       text=True, capture_output=True, env=lib.impl_env(), timeout=2400)
    if r.returncode != 0:
        raise RuntimeError('impl runner failed: ' + r.stderr[-2000:])
    return {x['id']: x for x in json.loads(Path(spec['out']).read_text())}


# ------------------------------------------------------------ property oracle
def oracle(m, op, r):
    """the property on the implementation's result; returns [(what, detail)]"""
    if r.get('result') is None:
        return []
    o = r['result']
    bad = []
    k = op['k']
    nodes0 = dict(zip(m['nodes']['ids'], m['nodes']['rows']))
    el0 = {i: (t, c) for t, ids, cs in m['elems'] for i, c in zip(ids, cs)}
    rn_ids = [i for i, _ in o['nodes']]
    rn = dict((i, row) for i, row in o['nodes'])
    rel = {i: (t, c) for t, tb in o['elems'] for i, c in tb}
    n_rel = sum(len(tb) for _, tb in o['elems'])
    # self-contained
    if len(set(rn_ids)) != len(rn_ids):
        bad.append(('node-listed-twice', None))
    if len(rel) != n_rel:
        bad.append(('element-listed-twice', None))
    ref = {v for _, c in rel.values() for v in c}
    if not ref <= set(rn_ids):
        bad.append(('dangling-node-reference', sorted(ref - set(rn_ids))[:5]))
    # nodes keep id and coordinates
    for i, row in o['nodes']:
        if nodes0.get(i) != row:
            bad.append(('node-coordinates', i))
            break
    # elements keep id, type, connectivity
    if k in ('CutEids', 'CutType', 'CutNids', 'ExtractIdx', 'RemoveUseless'):
        for i, tc in rel.items():
            if el0.get(i) != tc:
                bad.append(('element-type-or-connectivity', i))
                break
    elif k == 'FirstOrder':
        for i, (t, c) in rel.items():
            t0, c0 = el0[i]
            keep = {T['tet2']: 4, T['hex2']: 8}.get(t0, len(c0))
            if t != t0 or c != c0[:keep]:
                bad.append(('element-type-or-connectivity', i))
                break
    else:
        if sorted(rel) != list(range(1, n_rel + 1)):
            bad.append(('facet-ids-not-1..k', None))
    # exactly the requested entities
    if k in ('CutEids', 'CutType', 'ExtractIdx'):
        if k == 'CutEids':
            want = set(op['sel']) & set(el0)
        elif k == 'CutType':
            want = {i for i, (t, _) in el0.items() if t == op['t']}
        else:
            order = sorted(el0) if len(m['elems']) > 1 else list(m['elems'][0][1])
            want = {order[p] for p in op['ks']}
        if set(rel) != want:
            bad.append(('retained-elements', None))
        if set(rn_ids) != {v for i in want for v in el0[i][1]}:
            bad.append(('retained-nodes', None))
    elif k == 'CutNids':
        if rn_ids != op['sel']:
            bad.append(('retained-nodes', None))
        if set(rel) != {i for i, (_, c) in el0.items() if set(c) <= set(op['sel'])}:
            bad.append(('retained-elements', None))
    elif k == 'RemoveUseless':
        if set(rn_ids) != {v for _, c in el0.values() for v in c} or set(rel) != set(el0):
            bad.append(('retained-nodes', None))
    elif k == 'FirstOrder':
        if set(rn_ids) != ref and any(t in (T['tet2'], T['hex2']) for t, _, _ in m['elems']):
            bad.append(('retained-nodes', None))
    elif k == 'Surface' and op['remove']:
        if set(rn_ids) != ref:
            bad.append(('retained-nodes', None))
    # nodal variables: every retained node keeps its value; nothing else appears
    var0 = {kk: dict(zip(ids, rows)) for kk, ids, rows, _ in m['nodal']}
    seen = set()
    for kk, tb in o['nodal']:
        seen.add(kk)
        vm = m['var_modes'][kk]
        for i, row in tb:
            if var0[kk].get(i) != row:
                bad.append(('nodal-value-bound-to-another-id', {'var': kk, 'id': i, 'order': vm}))
                break
        else:
            have = [i for i, _ in tb]
            expect = [i for i in rn_ids if i in var0[kk]]
            if sorted(have) != sorted(expect) and vm != 'subset':
                bad.append(('nodal-variable-on-other-nodes', {'var': kk, 'order': vm}))
    for kk in var0:
        # variables defined on a part of the nodes are outside the property (femio skips them)
        if kk not in seen and m['var_modes'][kk] != 'subset' and any(i in var0[kk] for i in rn_ids):
            bad.append(('nodal-variable-dropped', {'var': kk, 'order': m['var_modes'][kk],
                                                   'name': var_name(m, 'nodal', kk)}))
    # elemental variables (kept by the operations that keep elements)
    ev0 = {kk: {i: (t, row) for t, ids, rows in bs for i, row in zip(ids, rows)} for kk, bs, _ in m['elemental']}
    if k not in ('Surface', 'Facets'):
        seen = set()
        for kk, bs in o['elemental']:
            seen.add(kk)
            got = {i: (t, row) for t, tb in bs for i, row in tb}
            for i, tr in got.items():
                if ev0[kk].get(i) != tr:
                    bad.append(('elemental-value-bound-to-another-id', {'var': kk, 'id': i}))
                    break
            else:
                if set(got) != {i for i in rel if i in ev0[kk]}:
                    bad.append(('elemental-variable-on-other-elements', {'var': kk}))
        for kk in ev0:
            if kk not in seen and any(i in ev0[kk] for i in rel):
                bad.append(('elemental-variable-dropped', {'var': kk, 'name': var_name(m, 'elemental', kk)}))
    if k == 'Surface' and 'boundary' in r:
        got = sorted(sorted(c) for _, c in rel.values())
        if got != sorted(r['boundary']):
            bad.append(('surface-facets-are-not-the-boundary-facets', None))
    if k == 'Facets' and 'distinct_faces' in r:
        got = sorted(sorted(c) for _, c in rel.values())
        if got != sorted(r['distinct_faces']):
            bad.append(('facets-are-not-the-distinct-faces-once-each', None))
    for f in r.get('flags', []):
        bad.append(('id-to-position-map', f))
    return bad


STALE_TAG = 'node-table-reordered-by-nodes.update-after-a-memoised-query'


def hist_tag(c):
    """the history on which a memoised query that answers in node storage positions goes stale:
    an earlier call, then nodes.update(..., allow_overwrite=True) on a node table that is not stored
    in ascending id order (combine_first re-sorts it), then the operation"""
    if not c.get('first') or not c.get('mid'):
        return None
    ids = c['mesh']['nodes']['ids']
    if any(e['k'] == 'nodes' for e in c['mid']) and ids != sorted(ids):
        return STALE_TAG
    return None


def case_of(c):
    return {'mesh': c['mesh'], 'pre': c['pre'], 'first': c['first'], 'mid': c.get('mid') or [], 'op': c['op']}


def gen_mids(rng, m, ops):
    """(operation, earlier call on the same object, edits between the two)"""
    out = []
    cand = [o for o in ops if o['k'] != 'RemoveUseless']
    pick = rng.sample(cand, min(3, len(cand)))
    ct = [o for o in cand if o['k'] == 'CutType']
    if ct and ct[0] not in pick:
        pick.append(ct[0])
    for op in pick:
        mid = [e for e in gen_pre(rng, m)]
        if 'subset' not in m['var_modes'] and rng.random() < 0.3:
            # the in-place modification of the library between the two calls (only BEFORE edits by id:
            # afterwards the removed ids are gone)
            mid = [{'k': 'useless'}]
        if not mid:
            continue
        if rng.random() < 0.65:
            first = op                                  # the same call before and after the edit
        else:
            first = rng.choice(cand + [{'k': 'ExtractSurface'}, {'k': 'ExtractFacets', 'remove_duplicates': True}])
        out.append((op, first, mid))
    return out


def signature(op, what, detail):
    sig = {'op': OPNAME[op['k']], 'what': what}
    if isinstance(detail, dict) and 'order' in detail:
        sig['variable_order'] = detail['order']
    return sig


# ------------------------------------------------------------------- main
def main(ctx):
    quick = ctx.tier == 'quick'
    n_mesh = 80 if quick else 450
    for p in lib.REPLAY.glob(PID + '_*.json'):
        p.unlink()
    ctx.rule = ('generated meshes (hex / prism / tet lattices, mixed, tet2, hex2, element soups, shells; '
                'shuffled storage, dense/sparse/large ids, unreferenced nodes, nodal variables aligned / '
                'shuffled / on a subset of nodes, elemental variables per type) x every extraction '
                'operation with singleton / all / random-order subset / near-empty / missing selections; '
                'every operation is also run as the second call on an object (same call twice, pairs with '
                'extract_surface / to_surface / to_facets / remove_useless_nodes ...), facet lists for the model '
                'taken from a fresh object; adversarial shell meshes whose facets collide under 64-bit key packing; '
                'about a third of the cases run after the mesh was edited through nodes.update / nodal_data.update_data '
                '(allow_overwrite=True on existing ids); a case is one (mesh, edits, operation); non-trivial = the operation returned a mesh; distinct = '
                'distinct (mesh, operation, selection)')
    ctx.trusted += [
        'translators /verif/translate/c09_cfg.py: three binding sites + two exact bodies; interpreter of '
        'FEMElementalAttribute._to_first_order over all element types (validated on every run against the running '
        'function); a region that cannot be read degrades T->H (baseline model + widened correspondence)',
        'hand model coq/C09/Model.v on coq/C09/Table.v + AttrModel.v (vendored copies of the C08 table/block library; numpy unique/isin/argsort, pandas .loc/.iloc '
        'semantics represented there and pinned by the correspondence)',
        'harness glue harness/c09.py, c09_impl.py; for to_surface/to_facets the facet lists are taken '
        'from the implementation (extract_surface / extract_facets: property C10) and regrouped by '
        'width as FEMElementalAttribute._generate_surface_ids_tuple does',
    ]
    ctx.assumptions += [
        'meshes are well formed (wf_mesh: distinct node ids, distinct element ids across types, every '
        'referenced node exists); polyhedron/polygon elements and the face variable are not generated',
        'time-series variables are not generated (filter_with_ids does not support them: C08)',
        'nodal variables defined on only a part of the nodes are generated for the correspondence but '
        'are outside the property: to_first_order/to_surface skip them by design, the cuts raise',
        'selections are duplicate-free',
    ]
    tie_ok, cfg, degraded = True, None, None
    try:
        cfg, consumed = c09_cfg.translate(str(lib.REPO))
        ctx.sources = consumed
        lib.write_if_changed(lib.COQ / 'C09' / 'gen' / 'MeshCfg.v', c09_cfg.emit(cfg))
        ctx.notes['translated_cfg'] = cfg
    except (c09_cfg.TranslateError, SyntaxError, OSError) as e:
        # policy (BUILDERS_R5): a region the translator cannot read is not by itself a violation.
        # T -> H: the configuration / bodies of the registered tree become the hand model, the
        # theorems are built against it and the correspondence is widened; only a disagreement
        # (a failing input) or a correspondence that cannot run is reported.
        degraded = str(e)
        cfg = dict(c09_cfg.BASELINE)
        ctx.log('translator could not read the source:', e, '-> baseline model + widened correspondence')
        ctx.notes['translator_error'] = str(e)
        try:
            lib.write_if_changed(lib.COQ / 'C09' / 'gen' / 'MeshCfg.v', c09_cfg.emit(cfg))
            n_mesh = max(n_mesh, 240)
        except OSError as e2:
            tie_ok = False
            ctx.notes['translator_error'] += ' / ' + str(e2)
    # the per-type table of FEMElementalAttribute._to_first_order (gen/FirstOrder.v)
    fo_table, fo_degraded = None, None
    try:
        fo_table, consumed2 = c09_cfg.translate_first_order(str(lib.REPO))
        ctx.sources = dict(ctx.sources or {}, **consumed2)
        ctx.notes['translated_first_order_table'] = {k: v for k, v in fo_table.items() if v != 'same'}
    except (c09_cfg.TranslateError, SyntaxError, OSError) as e:
        fo_degraded = str(e)
        fo_table = dict(c09_cfg.BASELINE_FIRST_ORDER)
        ctx.log('translator could not read _to_first_order:', e, '-> baseline table + widened correspondence')
        ctx.notes['translator_error_first_order'] = str(e)
        degraded = (degraded + '; ' if degraded else '') + fo_degraded
        n_mesh = max(n_mesh, 240)
    try:
        lib.write_if_changed(lib.COQ / 'C09' / 'gen' / 'FirstOrder.v', c09_cfg.emit_first_order(fo_table))
    except OSError as e:
        tie_ok = False
        ctx.notes['translator_error'] = str(e)
    # the width -> element type table of FEMElementalAttribute._generate_surface_core (gen/FacetType.v);
    # unreadable source => baseline table (the probe below still compares it with the running code)
    try:
        ft_table, consumed3 = c09_cfg.translate_facet_type(str(lib.REPO))
        ctx.sources = dict(ctx.sources or {}, **consumed3)
        ctx.notes['translated_facet_type_table'] = {str(k): v for k, v in ft_table.items()}
    except (c09_cfg.TranslateError, SyntaxError, OSError) as e:
        ft_table = dict(c09_cfg.BASELINE_FACET_TYPE)
        ctx.log('translator could not read _generate_surface_core:', e, '-> baseline table (validated by the probe)')
        ctx.notes['translator_error_facet_type'] = str(e)
    try:
        lib.write_if_changed(lib.COQ / 'C09' / 'gen' / 'FacetType.v', c09_cfg.emit_facet_type(ft_table))
    except OSError as e:
        tie_ok = False
        ctx.notes['translator_error'] = str(e)
    proof_ok = False
    if tie_ok:
        proof_ok, log = ctx.build_props('C09/Props.v', extra_targets=['C09/Corr.vo', 'C09/CorrPoly.vo', 'C09/SurfaceTypes.vo'],
                                        scan_dirs=[lib.COQ / 'C09'])
        if not proof_ok:
            ctx.notes['build_log_tail'] = log[-1500:]
        elif ctx.tier == 'thorough' and hasattr(ctx, 'coqchk'):
            if not ctx.coqchk('C09/Props.v'):
                proof_ok = False
                ctx.notes['coqchk_failed'] = True
    else:
        for n in lib.theorem_names(lib.COQ / 'C09' / 'Props.v'):
            ctx.obligations.append({'name': n, 'discharged': False, 'assumptions': [],
                                    'note': 'translator failed closed'})
        lib.coq_make(['C09/Corr.vo', 'C09/CorrPoly.vo', 'C09/SurfaceTypes.vo', 'C09/gen/MeshCfg.vo'])
    validate_first_order(ctx, fo_table)
    validate_facet_type(ctx, ft_table)

    # cases: corpus, witnesses, generated
    meshes, cases = [], []

    def add(m, op, origin, pre=None, first=None, mid=None):
        if not meshes or meshes[-1] is not m:
            meshes.append(m)
        cases.append({'id': len(cases), 'mesh': m, 'mi': len(meshes) - 1, 'op': op, 'origin': origin,
                      'pre': pre or [], 'first': first, 'mid': mid or []})
    corpus_dir = lib.VERIF / 'corpus' / PID
    for p in sorted(corpus_dir.glob('*.json')) if corpus_dir.exists() else []:
        c = json.loads(p.read_text())
        add(c['mesh'], c['op'], 'corpus:' + p.name, c.get('pre'), c.get('first'), c.get('mid'))
    for flag, m, op in WITNESSES:
        add(m, op, 'witness:' + flag)
    for _ in range(n_mesh):
        m = gen_mesh(ctx.rng)
        ops = gen_ops(ctx.rng, m)
        for op in ops:
            add(m, op, 'random')
        # the same operations after the mesh was edited through the public update API
        if ctx.rng.random() < 0.6:
            pre = gen_pre(ctx.rng, m)
            for op in ops:
                if op['k'] in ('Surface', 'Facets', 'RemoveUseless', 'FirstOrder') or ctx.rng.random() < 0.35:
                    add(m, op, 'random-after-update', pre)
        # repeated calls on the same object: every operation twice, and pairs
        for op, first in gen_pairs(ctx.rng, m, ops):
            add(m, op, 'random-second-call', None, first)
        # histories  earlier call ; edit through the update API ; operation  on one object (a result
        # remembered from the earlier call must not survive the edit)
        for op, first, mid in gen_mids(ctx.rng, m, ops):
            add(m, op, 'random-edit-between-calls', None, first, mid)
    for m, op in adversarial_cases():
        add(m, op, 'adversarial-packed-key')
    res = run_impl(ctx, [{'id': c['id'], 'mesh': c['mesh'], 'op': c['op'], 'pre': c['pre'],
                          'first': c['first'], 'mid': c['mid']} for c in cases])
    herr = [r for r in res.values() if 'error' in r]
    if herr:
        ctx.log('harness errors:', len(herr), herr[0]['error'][-700:])
    usable = []
    for c in cases:
        r = res[c['id']]
        if 'error' in r:
            continue
        k = c['op']['k']
        if (k == 'Surface' and 'surf' not in r) or (k == 'Facets' and 'facets' not in r):
            ctx.count('unsupported-by-facet-extraction:' + c['mesh']['kind'])
            continue
        usable.append(c)

    # correspondence
    chunks = [usable[i:i + 120] for i in range(0, len(usable), 120)]

    def job(ix_ch):
        ix, ch = ix_ch
        mis = sorted({c['mi'] for c in ch})
        defs = [f'Definition m{mi} : mesh row := {input_mesh_l(meshes[mi])}.' for mi in mis]
        items = [f'({c["id"]}%nat, check_h cfg m{c["mi"]} {pre_l(c["pre"])} {rf(c)} {pre_l(c["mid"])} '
                 f'{op_l(c["op"], res[c["id"]])} {obs_l(res[c["id"]])})'
                 for c in ch]
        return coq_check(ctx, f'Corr{ix}', defs, items)
    with ThreadPoolExecutor(max_workers=12) as ex:
        outs = list(ex.map(job, enumerate(chunks)))
    bad, compile_fail = {}, 0
    for o in outs:
        if o is None:
            compile_fail += 1
        else:
            bad.update(o)
    ctx.corr = {'cases': len(usable), 'meshes': len(meshes), 'disagreements': len(bad),
                'scratch_files_not_compiling': compile_fail}
    ctx.log(f'correspondence: {len(usable)} cases on {len(meshes)} meshes, disagreements {len(bad)}, '
            f'compile failures {compile_fail}')
    if degraded:
        ctx.notes['tie'] = (f'H (translator could not read the source: {degraded}; baseline model + widened '
                            f'correspondence, {len(usable)} cases)')
        ctx.corr['degraded'] = ctx.notes['tie']

    for c in usable:
        r, m = res[c['id']], c['mesh']
        ctx.count('op:' + OPNAME[c['op']['k']] + (':raised' if r['raised'] else ''))
        ctx.count('earlier-call:' + (c['first']['k'] if c['first'] else 'none'))
        ctx.count('edited-before:' + ('+'.join(e['k'] for e in c['pre']) if c['pre'] else 'no'))
        ctx.count('edited-between-calls:' + ('+'.join(e['k'] for e in c['mid']) if c['mid'] else 'no'))
        ctx.case([m['nodes'], m['elems'], m['nodal'], m['elemental'], c['pre'], c['first'], c['mid'], c['op']], nontrivial=not r['raised'],
                 sample={'mesh_kind': m['kind'], 'node_ids': m['nodes']['ids'][:8], 'op': c['op'],
                         'result_node_ids': (r.get('result') or {}).get('nodes', [])[:4]})
    for m in meshes:
        ctx.count('mesh:' + m['kind'])
        ctx.count('ids:' + m.get('idmode', 'fixed'))
        ctx.count('types-per-mesh:%d' % len(m['elems']))
        ctx.count('unreferenced-nodes:' + ('yes' if m.get('n_extra') else 'no'))
        for vm in m['var_modes']:
            ctx.count('nodal-variable-order:' + vm)

    # property oracle on the implementation
    n_or = 0
    oracle_bad = set()
    name_drops = {}
    for c in usable:
        r = res[c['id']]
        for what, detail in oracle(edited(c['mesh'], c['pre'] + c['mid']), c['op'], r):
            n_or += 1
            oracle_bad.add(c['id'])
            sig = signature(c['op'], what, detail)
            flag = FLAG_OF.get(c['op']['k'])
            if cfg is not None and flag and cfg.get(flag) and 'variable_order' in sig:
                sig['note'] = 'carried by id in the source, values differ nevertheless'
            if c['pre']:
                sig['after_update_of'] = '+'.join(sorted({e['k'] for e in c['pre']}))
            if c['first']:
                sig['after_call_of'] = OPNAME.get(c['first']['k'], c['first']['k'])
            if c['mid']:
                sig['edited_between_calls'] = '+'.join(sorted({e['k'] for e in c['mid']}))
            nm = detail.get('name') if isinstance(detail, dict) else None
            if what == 'elemental-variable-dropped' and nm in ELEMENTAL_RESERVED and dropped_by(c):
                # one finding per (site that drops by name, name), whatever operation shows it
                sig = {'what': what, 'variable_name': nm, 'dropped_by': dropped_by(c)}
                name_drops.setdefault(c['id'], sig)
            elif nm and (nm in ELEMENTAL_RESERVED or nm in NODAL_RESERVED):
                sig['variable_name'] = nm
            if hist_tag(c) and 'dropped_by' not in sig:
                sig['history'] = hist_tag(c)
                sig.pop('edited_between_calls', None)
                sig.pop('what', None)       # one finding per (operation, earlier call), whatever shows first
            ctx.violation('impl-violation', case_of(c),
                          'self-contained result; retained entities keep id, geometry and values',
                          {'what': what, 'detail': detail, 'result': r['result']},
                          'C09 oracle on the implementation', found_input=True, signature=sig,
                          what=f'{OPNAME[c["op"]["k"]]}: {what} {detail if detail else ""}')
    n_poly = poly_stream(ctx, 120 if quick and not degraded else 600)
    ctx.corr['polyhedron_cases'] = n_poly
    ctx.notes['search_evaluations'] = len(usable)
    ctx.notes['oracle_failures'] = n_or
    # a positional site must show through its witness
    if cfg is not None:
        for flag, m, op in WITNESSES:
            if not cfg[flag]:
                cid = next(c['id'] for c in cases if c['origin'] == 'witness:' + flag)
                if cid not in oracle_bad:
                    ctx.violation('tie-broken', {'mesh': m, 'op': op},
                                  'the witness of the refuted theorem reproduces on the implementation',
                                  'values stay attached', 'C09_tree_decided', found_input=False,
                                  signature={'kind': 'witness-not-reproduced', 'flag': flag})
        ctx.notes['cfg_ok'] = all(cfg.values())
    # an operation that answers on a fresh object but raises after an earlier call on the same
    # object (the model has no state that the earlier call could change) is a failing input
    for cid, codes in sorted(bad.items()):
        c = cases[cid]
        if 1 in codes and c['first'] and c['first']['k'] != 'RemoveUseless':
            oracle_bad.add(cid)
            ctx.violation('impl-violation', case_of(c),
                          'the operation returns the same sub-mesh whatever was called before',
                          {'raised': res[cid].get('raised'), 'first_raised': res[cid].get('first_raised')},
                          'C09 correspondence (second call) / model is a function of the mesh', found_input=True,
                          signature=dict({'op': OPNAME[c['op']['k']], 'what': 'raises-after-an-earlier-call',
                                          'after_call_of': OPNAME.get(c['first']['k'], c['first']['k'])},
                                         **({'history': hist_tag(c)} if hist_tag(c) else {})),
                          what=f"{OPNAME[c['op']['k']]} raises after {c['first']['k']} on the same object")
    plain = [(cid, codes) for cid, codes in sorted(bad.items()) if not (cid in name_drops and codes == [6])]
    for cid, codes in sorted(bad.items()):
        if cid in name_drops and codes == [6]:
            c = cases[cid]
            ctx.violation('correspondence', case_of(c), 'model and implementation return the same mesh',
                          {'differs_in': [CODES[6]], 'impl': res[cid]}, 'correspondence C09 (Corr.check)',
                          found_input=True, signature=dict(name_drops[cid], kind='correspondence'),
                          what='model and implementation differ (an elemental variable is dropped by name)')
    for cid, codes in plain[:6]:
        c = cases[cid]
        ctx.violation('correspondence', case_of(c),
                      'model and implementation return the same mesh',
                      {'differs_in': [CODES.get(k, k) for k in codes], 'impl': res[cid]},
                      'correspondence C09 (Corr.check)', found_input=cid in oracle_bad,
                      signature=dict({'kind': 'correspondence', 'op': OPNAME[c['op']['k']],
                                      'differs_in': ','.join(str(k) for k in codes),
                                      'after_call_of': OPNAME.get((c['first'] or {}).get('k'), (c['first'] or {}).get('k'))},
                                     **({'history': hist_tag(c)} if hist_tag(c) else {})),
                      what='model and implementation differ')
    if compile_fail:
        ctx.violation('correspondence', {'files': compile_fail}, 'scratch files compile', 'coqc failed',
                      'correspondence C09', found_input=False, signature={'kind': 'corr-compile'})
    if herr:
        ctx.violation('correspondence', {'errors': [h['error'][-300:] for h in herr[:3]]},
                      'harness runs every case', 'child raised', 'correspondence C09', found_input=False,
                      signature={'kind': 'harness-error'})
    if not tie_ok:
        ctx.violation('tie-broken', {'translator_error': ctx.notes.get('translator_error')},
                      'translator recognises the three sites', 'fail-closed', 'translator c09_cfg',
                      found_input=False, signature={'kind': 'tie-broken'})
    elif not proof_ok:
        badn = [o['name'] for o in ctx.obligations if not o['discharged']]
        ctx.violation('proof-broken', {'theorems': badn}, 'Props.v checks', 'does not check',
                      ', '.join(badn), found_input=False, signature={'kind': 'proof-broken'})
    return ctx.finish()


def replay(path):
    rp = json.loads(Path(path).read_text())
    c = rp['case']
    ctx = lib.Ctx(PID, 'quick')
    if 'poly' in c:
        r = run_impl(ctx, [{'id': 0, 'poly': c['poly']}], tag='replay')[0]
        print('implementation:', json.dumps(r)[:3000])
        orc = poly_oracle(c['poly'], r) if 'error' not in r else [('harness-error', r['error'][-300:])]
        print('property failures on the implementation:', orc)
        print('property', 'VIOLATED' if orc else 'holds', 'on this input')
        return 1 if orc else 0
    if 'mesh' not in c:
        print('nothing to replay on the implementation:', json.dumps(rp, indent=1)[:3000])
        return 1
    pre = c.get('pre') or []
    mid = c.get('mid') or []
    r = run_impl(ctx, [{'id': 0, 'mesh': c['mesh'], 'op': c['op'], 'pre': pre, 'first': c.get('first'), 'mid': mid}],
                 tag='replay')[0]
    if 'error' in r:
        print(r['error'])
        return 1
    print('implementation:', json.dumps({k: r.get(k) for k in ('raised', 'result', 'flags')})[:4000])
    orc = oracle(edited(c['mesh'], pre + mid), c['op'], r)
    print('property failures on the implementation:', orc)
    lib.coq_make(['C09/Corr.vo', 'C09/gen/MeshCfg.vo'])
    badc = None
    if not ((c['op']['k'] == 'Surface' and 'surf' not in r) or (c['op']['k'] == 'Facets' and 'facets' not in r)):
        badc = coq_check(ctx, 'Replay', [f'Definition m0 : mesh row := {input_mesh_l(c["mesh"])}.'],
                         [f'(0%nat, check_h cfg m0 {pre_l(pre)} {rf(c)} {pre_l(mid)} {op_l(c["op"], r)} {obs_l(r)})'])
    print('model vs implementation (codes):', badc)
    print('property', 'VIOLATED' if orc else 'holds', 'on this input')
    return 1 if orc or badc else 0


if __name__ == '__main__':
    if len(sys.argv) > 2 and sys.argv[1] == 'replay':
        sys.exit(replay(sys.argv[2]))
    tier = sys.argv[1] if len(sys.argv) > 1 else 'quick'
    sys.exit(main(lib.Ctx(PID, tier)))
