"""C20 — mesh compression conserves volume, validity and transferred totals.

Theorems (coq/C20/Props.v) are about the hand model coq/C20/Model.v of
merge_polyhedrons and of the transfer formulas.  This harness ties the model
to /repo:
  * correspondence of the merge step (synthetic cell groups + the merge step
    of real brick runs) and of the transfer matrices' use (mean / sum), with the
    model evaluated inside Coq (vm_compute);
  * a TEST WITH A VERIFIED ORACLE on whole MeshCompressor.compress runs:
    closed_b / uses_exactly_b (proved equivalent to the Prop definitions) and the
    exact rational volume are evaluated in Coq on the compressor's actual
    output.  That part is a test, not a proof.
"""
import json
import subprocess
import sys
from fractions import Fraction as Fr
from pathlib import Path

sys.path.insert(0, str(Path(__file__).resolve().parent))
import lib  # noqa

PID = 'C20'
I3 = [[1, 0, 0], [0, 1, 0], [0, 0, 1]]
SHEAR = [[2, 1, 0], [0, 3, 1], [1, 0, 2]]
ROT3 = [[2, -1, 2], [2, 2, -1], [-1, 2, 2]]        # 3 x proper rotation
REFL3 = [[1, 2, 2], [2, 1, -2], [2, -2, 1]]        # 3 x reflection (inverted cells)
MATS = {'identity': I3, 'shear': SHEAR, 'rot3': ROT3, 'refl3': REFL3}
TOL = Fr(1, 2 ** 30)


# ------------------------------------------------------------------ Coq text
def cz(n):
    return lib.coq_Z(n)


def cface(f):
    return lib.coq_list([cz(v) for v in f])


def cpoly(p):
    return lib.coq_list([cface(f) for f in p])


def cpolys(ps):
    return lib.coq_list([cpoly(p) for p in ps])


def cq(nd):
    return lib.coq_Q(Fr(nd[0], nd[1]))


def cpos(tbl):
    return lib.coq_list(['(%s, %s, %s)' % tuple(cq(c) for c in row) for row in tbl])


def cbmat(rows):
    return lib.coq_list([lib.coq_list(['true' if b else 'false' for b in r]) for r in rows])


HEADER = ('From Coq Require Import List ZArith Bool QArith String.\nImport ListNotations.\n'
          'From FV.C20 Require Import Model ModelEdge ModelDriver Harness HarnessDriver.\nOpen Scope Z_scope.\n'
          'Set Printing Width 100000.\nSet Printing Depth 100000.\n')


def failing(out_part):
    """parse `= [1; 5; 7] : list Z` -> [1,5,7]"""
    import re
    m = re.search(r'=\s*\[(.*?)\]', out_part, flags=re.S)
    if not m:
        return None
    body = m.group(1).strip()
    if not body:
        return []
    return [int(x.strip().strip('()').replace('%Z', '')) for x in body.split(';')]


# ------------------------------------------------------------- generators
def edges_of(f):
    return [(f[i], f[(i + 1) % len(f)]) for i in range(len(f))]


def pyramid_on(f, apex):
    return [list(reversed(f))] + [[x, y, apex] for (x, y) in edges_of(f)]


def prism_on(f, top):
    # top[i] above f[i]
    m = dict(zip(f, top))
    return [list(reversed(f)), list(top)] + [[x, y, m[y], m[x]] for (x, y) in edges_of(f)]


def gen_cluster(rng, ncells):
    """cells glued face to face (each new cell is a pyramid or prism erected on a
    free face of the cluster); returns list of cells over nodes 0..n-1"""
    cells = [[[0, 2, 1], [3, 0, 1], [3, 2, 0], [3, 1, 2]]]
    nxt = 4
    if rng.random() < 0.4:
        cells = [[[4, 5, 6, 7], [5, 4, 0, 1], [6, 5, 1, 2], [7, 6, 2, 3], [4, 7, 3, 0], [3, 2, 1, 0]]]
        nxt = 8
    free = [list(f) for f in cells[0]]
    while len(cells) < ncells and free:
        f = free.pop(rng.randrange(len(free)))
        if rng.random() < 0.5:
            c = pyramid_on(f, nxt)
            nxt += 1
        else:
            top = list(range(nxt, nxt + len(f)))
            nxt += len(f)
            c = prism_on(f, top)
        cells.append(c)
        free += [list(g) for g in c[1:]]
    return cells, nxt


def relabel(rng, cells, n, mode):
    if mode == 'dense':
        ids = list(range(n))
        rng.shuffle(ids)
    elif mode == 'sparse':
        ids = rng.sample(range(0, 100000), n)
    else:
        ids = rng.sample(range(2 ** 30, 2 ** 31 - 2), n)
    out = []
    for c in cells:
        c2 = []
        for f in c:
            g = [ids[v] for v in f]
            r = rng.randrange(len(g))
            c2.append(g[r:] + g[:r])
        rng.shuffle(c2)
        out.append(c2)
    return out


def gen_merge_jobs(ctx, n):
    rng = ctx.rng
    jobs = []
    for i in range(n):
        kind = rng.choice(['cluster', 'cluster', 'cluster', 'two_clusters', 'dup_cell', 'mirror',
                           'digon', 'repeated_node'])
        cells, nn = gen_cluster(rng, rng.randint(1, 6))
        if kind == 'two_clusters':
            c2, n2 = gen_cluster(rng, rng.randint(1, 4))
            cells += [[[v + nn for v in f] for f in c] for c in c2]
            nn += n2
        elif kind == 'dup_cell':
            cells.append([list(f) for f in rng.choice(cells)])
            if rng.random() < 0.5:
                cells.append([list(f) for f in rng.choice(cells)])
        elif kind == 'mirror':
            cells.append([list(reversed(f)) for f in rng.choice(cells)])
        elif kind == 'digon':
            c = rng.choice(cells)
            a, b = c[0][0], c[0][1]
            c.append([a, b])
            if rng.random() < 0.5:
                c.append([b, a])
        elif kind == 'repeated_node':
            c = rng.choice(cells)
            f = c[rng.randrange(len(c))]
            f.insert(rng.randrange(len(f)), f[0])
        polys = relabel(rng, cells, nn, rng.choice(['dense', 'sparse', 'large']))
        order = list(range(len(polys)))
        rng.shuffle(order)
        polys = [polys[j] for j in order]
        ids = list(range(len(polys)))
        if rng.random() < 0.3 and len(ids) > 1:
            ids = rng.sample(ids, rng.randint(1, len(ids)))
        elif rng.random() < 0.5:
            rng.shuffle(ids)
        jobs.append({'id': i, 'kind': kind, 'polys': polys, 'ids': ids})
    return jobs


def gen_edge_jobs(ctx, n):
    """remove_one_edge_from_polyhedron on closed cells (merged clusters)"""
    rng = ctx.rng
    jobs = []
    for i in range(n):
        cells, nn = gen_cluster(rng, rng.randint(1, 4))
        # merged cell = all faces minus cancelling pairs (computed here only to
        # build an input; the result is checked by Coq's closed_b before use)
        faces = [tuple(f) for c in cells for f in c]

        def key(f):
            k = f.index(min(f))
            return tuple(f[k:] + f[:k])
        keys = [key(f) for f in faces]
        cell = [list(f) for f in faces if key(tuple(reversed(f))) not in keys]
        cell = relabel(rng, [cell], nn, rng.choice(['dense', 'sparse']))[0]
        f = rng.choice(cell)
        j = rng.randrange(len(f))
        a, b = f[j - 1], f[j]
        if rng.random() < 0.5:
            a, b = b, a
        if rng.random() < 0.1:
            a = rng.choice(rng.choice(cell))      # usually not an edge
        jobs.append({'id': i, 'op': 'edge', 'poly': cell, 'a': a, 'b': b, 'seed': rng.randrange(2 ** 30),
                     'steps': rng.randint(1, 8)})
    return jobs


def eval_edge(ctx, jobs, res):
    lines = [HEADER]
    cases = []
    n_ok = n_steps = 0
    for job, r in zip(jobs, res):
        ctx.case(['edge', job['poly'], job['a'], job['b'], job['seed'], job['steps']],
                 nontrivial=any(st['ok'] and st['before'] != st['after'] for st in r.get('steps', [])))
        if 'error' in r:
            ctx.violation('impl-violation', {'jobs': {'edge': [job]}}, 'remove_one_edge returns', r['error'],
                          'verified-oracle test of remove_one_edge_from_polyhedron',
                          signature={'check': 'edge', 'symptom': 'raises'})
            continue
        for st in r['steps']:
            n_ok += bool(st['ok'])
            n_steps += 1
            a, b = cz(st['a']), cz(st['b'])
            # input closed, and if the implementation accepted: output closed, same
            # directed edges except (a,b),(b,a); if it refused: cell unchanged
            cases.append((job['id'],
                          f'let p := {cpoly(st["before"])} in let p\' := {cpoly(st["after"])} in '
                          f'closed_b p && (if {"true" if st["ok"] else "false"} then '
                          f'(closed_b p\' && forallb (fun e => emem e (pedges p)) (pedges p\') && '
                          f'forallb (fun e => emem e (pedges p\') || emem e [({a}, {b}); ({b}, {a})]) (pedges p)) '
                          f'else polys_eqb [p] [p\'])'))
    corr = []
    for job, r in zip(jobs, res):
        for st in r.get('steps', []):
            corr.append((job['id'], f'chk_remove_edge {cpoly(st["before"])} {cz(st["a"])} {cz(st["b"])} '
                         f'{"true" if st["ok"] else "false"} {cpoly(st["after"])}'))
    lines.append('Goal True. idtac "@@ edgecorr". Abort.')
    lines.append('Eval vm_compute in map fst (filter (fun c => negb (snd c)) ' +
                 lib.coq_list([f'({cz(i)}, {e})' for i, e in corr]) + ').')
    lines.append('Goal True. idtac "@@ edge". Abort.')
    lines.append('Eval vm_compute in map fst (filter (fun c => negb (snd c)) ' +
                 lib.coq_list([f'({cz(i)}, {e})' for i, e in cases]) + ').')
    rc, out, err = ctx.coq_eval('CasesEdge', '\n'.join(lines) + '\n')
    bad = None if rc != 0 else failing(lib.parse_marked(out).get('edge', ''))
    if bad is None:
        ctx.violation('correspondence', {}, 'CasesEdge.v evaluates', (err or out)[-600:],
                      'verified-oracle test of remove_one_edge_from_polyhedron', found_input=False,
                      signature={'check': 'edge', 'symptom': 'coq-eval-failed'})
        return
    badc = failing(lib.parse_marked(out).get('edgecorr', '')) or []
    ctx.corr['cases'] += len(corr)
    ctx.corr['remove_one_edge_steps'] = len(corr)
    ctx.corr['disagreements'] += len(badc)
    for job, r in zip(jobs, res):
        if job['id'] in set(badc):
            ctx.violation('correspondence', {'jobs': {'edge': [job]}},
                          'ModelEdge.remove_one_edge (same acceptance, same cell)',
                          [{k: st[k] for k in ('a', 'b', 'ok', 'after')} for st in r.get('steps', [])][:4],
                          'correspondence remove_one_edge_from_polyhedron ~ ModelEdge.remove_one_edge',
                          signature={'check': 'edge-corr'},
                          what='remove_one_edge_from_polyhedron disagrees with the model')
    ctx.notes['remove_one_edge_oracle'] = {'cells': len(jobs), 'steps': n_steps, 'accepted_by_impl': n_ok,
                                           'failed_cells': len(set(bad))}
    for job, r in zip(jobs, res):
        if job['id'] in bad:
            ctx.violation('impl-violation', {'jobs': {'edge': [job]}},
                          'a closed cell whose directed edges are those of the input minus (A,B),(B,A)',
                          {'ok': r.get('ok'), 'poly': r.get('poly')},
                          'verified-oracle test (closed_b evaluated in Coq) of remove_one_edge_from_polyhedron',
                          signature={'check': 'edge', 'symptom': 'not closed or edges changed'},
                          what='remove_one_edge_from_polyhedron returns an invalid cell')


def gen_reindex_jobs(ctx, n):
    rng = ctx.rng
    jobs = []
    for i in range(n):
        cells, nn = gen_cluster(rng, rng.randint(1, 5))
        N = nn + rng.randint(0, 6)
        inj = rng.sample(range(N), nn)
        polys = [[[inj[v] for v in f] for f in c] for c in cells]
        used = set(inj)
        unused = [v for v in range(N) if v not in used]
        conv = list(range(N))
        mode = rng.choice(['identity', 'merged', 'merged', 'chains'])
        if mode != 'identity':
            rng.shuffle(unused)
            for b in unused[:rng.randint(0, len(unused))]:
                # b was merged into a (a: any node that is still a root)
                roots = [v for v in range(N) if conv[v] == v and v != b]
                if mode == 'merged':
                    roots = [v for v in roots if v in used] or roots
                if roots:
                    # keep the forest acyclic: never point into b's own subtree
                    def root_of(v):
                        while conv[v] != v:
                            v = conv[v]
                        return v
                    a = rng.choice(roots)
                    if root_of(a) != b:
                        conv[b] = a
        pos = [[rng.randint(-8, 8) for _ in range(3)] for _ in range(N)]
        jobs.append({'id': i, 'mode': mode, 'polys': polys, 'conv': conv, 'pos': pos})
    return jobs


def eval_reindex(ctx, jobs, res):
    lines = [HEADER, f'Definition tol : Q := {lib.coq_Q(TOL)}.']
    cases = []
    for job, r in zip(jobs, res):
        ctx.count('reindex_mode:' + job['mode'])
        ctx.case(['reindex', job['polys'], job['conv']], nontrivial=job['conv'] != list(range(len(job['conv']))),
                 sample={'reindex': {'polys': job['polys'][:1], 'conv': job['conv']}} if job['id'] == 0 else None)
        if 'error' in r:
            ctx.violation('correspondence', {'jobs': {'reindex': [job]}}, 'reindex returns', r['error'],
                          'correspondence reindex ~ ModelReindex.reindex',
                          signature={'check': 'reindex', 'symptom': 'raises'})
            continue
        pos = lib.coq_list(['(%s, %s, %s)' % tuple(lib.coq_Q(Fr(c)) for c in row) for row in job['pos']])
        conv = lib.coq_list([cz(v) for v in job['conv']])
        conv2 = lib.coq_list([cz(v) for v in r['conv']])
        cases.append((job['id'], f'reindex_hyps {cpolys(job["polys"])} {conv} && '
                      f'chk_reindex tol {cpolys(job["polys"])} {conv} {pos} '
                      f'{cpolys(r["polys"])} {conv2} {cpos(r["pos"])}'))
    lines.append('Goal True. idtac "@@ reindex". Abort.')
    lines.append('Eval vm_compute in map fst (filter (fun c => negb (snd c)) ' +
                 lib.coq_list([f'({cz(i)}, {e})' for i, e in cases]) + ').')
    rc, out, err = ctx.coq_eval('CasesReindex', '\n'.join(lines) + '\n')
    bad = None if rc != 0 else failing(lib.parse_marked(out).get('reindex', ''))
    if bad is None:
        ctx.violation('correspondence', {}, 'CasesReindex.v evaluates', (err or out)[-600:],
                      'correspondence reindex ~ ModelReindex.reindex', found_input=False,
                      signature={'check': 'reindex', 'symptom': 'coq-eval-failed'})
        return
    ctx.corr['cases'] += len(cases)
    ctx.corr['reindex_cases'] = len(cases)
    ctx.corr['disagreements'] += len(bad)
    for job, r in zip(jobs, res):
        if job['id'] in bad:
            ctx.violation('correspondence', {'jobs': {'reindex': [job]}},
                          'ModelReindex.reindex / recalc_pos', {k: r.get(k) for k in ('polys', 'conv')},
                          'correspondence reindex ~ ModelReindex.reindex (C20_reindex_exact)',
                          signature={'check': 'reindex', 'mode': job['mode']},
                          what='reindex / recalc_node_pos disagree with the model')


DTYPES = ['float64', 'int64', 'float64', 'int32', 'bool', 'float32', 'float64']


def gen_transfers(rng, knns, tid0=0, short=False, dtype_shift=0, knn_shift=None):
    transfers = []
    tid = tid0
    for where in ('nodal', 'elemental'):
        for direction in ('compress', 'decompress'):
            for shape, ncomp in ((('N1', 1),) if short else (('N1', 1), ('N', 1), ('N3', 3))):
                for kind_t, xmode in (('mean', 'const'), ('mean', 'random'), ('sum', 'random')):
                    if short and xmode == 'random' and kind_t == 'mean':
                        continue
                    if xmode == 'const':
                        cst = rng.randint(-40, 40)
                        x = [cst] * (3 * 400)
                    else:
                        x = [rng.randint(-50, 50) for _ in range(3 * 400)]
                    dtype = 'float64' if short else DTYPES[(tid + dtype_shift) % len(DTYPES)]
                    transfers.append({'tid': tid, 'where': where, 'dir': direction,
                                      'shape': shape, 'ncomp': ncomp, 'kind': kind_t, 'dtype': dtype,
                                      'xmode': xmode, 'x': x,
                                      'knn': rng.choice(knns) if knn_shift is None else
                                      knns[(tid + knn_shift) % len(knns)],
                                      'repeat': 2 if tid % 9 == 4 else 1})
                    tid += 1
    return transfers


def n_cells_nodes(kind, nn):
    h = nn[0] * nn[1] * nn[2]
    nodes = (nn[0] + 1) * (nn[1] + 1) * (nn[2] + 1)
    if kind == 'hex':
        return h, nodes
    if kind in ('tet', 'tetplate'):
        return 6 * h, nodes
    if kind == 'prism':
        return 2 * h, nodes
    if kind == 'pyr':
        return 6 * h, nodes + h
    if kind == 'hexpyr':
        return (h + 1) // 2 + 6 * (h // 2), nodes + h // 2
    raise AssertionError(kind)


def gen_run_jobs(ctx, n):
    rng = ctx.rng
    jobs = []
    thorough = ctx.tier == 'thorough'
    # the first runs are fixed in regime so that the quick tier covers every
    # regime; the rest are random
    plan = [
        # tiny length unit (edges ~1e-9): every threshold of the code must be relative
        dict(kind='pyr', cos_thresh=0.99, dist_thresh=0.0, scale=2.0 ** -30),
        # thin plate meshed with tets (aspect 0.01): knife edges between nearly opposite
        # normals inside the merged cells; coplanar-only regime, volume must be kept
        dict(kind='tetplate', cos_thresh=0.99, dist_thresh=0.0, mat='identity', n=[4, 3, 2], elem_num=6,
             scale=1.0, stretch=[100, 100, 1], drop=0),
        # creased (non-flat, planar-faced) bricks with cos_thresh strictly above every
        # non-coplanar dihedral cosine (crease cosines 0.995 and 0.99875): volume must be kept
        dict(kind='tet', cos_thresh=0.9999, dist_thresh=0.0, mat='identity', n=[4, 2, 2], elem_num=2,
             scale=1.0, crease={'i0': 1, 'D': 20, 's': 1, 'Dx': 40, 'Dy': 40}, drop=0),
        # vertices merged, then a second compress() on the same object without merging
        dict(kind='hex', cos_thresh=0.999, dist_thresh=1.1, mat='identity', n=[3, 2, 4], elem_num=2,
             scale=1.0, second=dict(cos_thresh=0.999, dist_thresh=0.0), drop=0),
        dict(kind='tet', cos_thresh=0.0, dist_thresh=0.0, mat='identity', elem_num=8, drop=0),
        dict(kind='hex', cos_thresh=0.9999, dist_thresh=0.0, mat='shear', n=[4, 2, 2], elem_num=2,
             crease={'i0': 1, 'D': 20, 's': 1, 'Dx': 40, 'Dy': 40}, drop=0),
        dict(kind='hexpyr', cos_thresh=0.99, dist_thresh=0.0, n=[3, 2, 2], elem_num=3, drop=3,
             interleave=True),
        dict(kind='prism', cos_thresh=0.99, dist_thresh=0.0, mat='shear', n=[2, 3, 2], elem_num=3,
             scale=2.0 ** -13, far=True),
    ]
    if thorough:
        plan += [
            # more than 8192 faces
            dict(kind='hex', cos_thresh=0.99, dist_thresh=0.0, mat='identity', n=[14, 10, 10], elem_num=60,
                 scale=1.0, drop=0, no_transfers=True),
            # integer-valued options
            dict(kind='hex', cos_thresh=1, dist_thresh=0, mat='identity', n=[3, 2, 2], elem_num=2, scale=1.0,
                 drop=0),
            dict(kind='tet', cos_thresh=0.99, dist_thresh=0.0, mat='identity', n=[2, 2, 2], elem_num=2,
                 scale=1.0, coord_dtype='int64', drop=0),
            dict(kind='hex', cos_thresh=0.99, dist_thresh=0.0, mat='rot3', n=[3, 2, 2], elem_num=2,
                 scale=1.0, coord_dtype='float32', drop=0),
            dict(kind='hex', cos_thresh=0.99, dist_thresh=0.0, mat='identity', n=[1, 1, 1], elem_num=1,
                 scale=1.0, drop=0),
            dict(kind='tetplate', cos_thresh=0.99, dist_thresh=0.0, mat='rot3', n=[5, 4, 2], elem_num=8,
                 scale=0.5, stretch=[100, 100, 10], drop=0),
            dict(kind='tetplate', cos_thresh=0.999, dist_thresh=0.0, mat='identity', n=[3, 3, 3], elem_num=4,
                 scale=1.0, stretch=[100, 80, 3], drop=4),
            dict(kind='prism', cos_thresh=0.99, dist_thresh=0.0, mat='identity', n=[3, 3, 2], elem_num=3,
                 scale=1.0, stretch=[100, 100, 2], drop=0),
        ]
    for i in range(n):
        p = dict(plan[i]) if i < len(plan) else {}
        kind = p.get('kind', rng.choice(['hex', 'tet', 'hex', 'tet', 'prism', 'pyr', 'hexpyr', 'tetplate']))
        hi = 3 if kind in ('tet', 'pyr', 'tetplate', 'hexpyr') else 4
        nn = [rng.randint(1, hi) for _ in range(3)]
        nn = p.get('n', nn)
        if nn == [1, 1, 1] and kind != 'hex' and 'n' not in p:
            nn[rng.randrange(3)] = 2
        mat = p.get('mat', rng.choice(['identity', 'identity', 'shear', 'rot3', 'refl3']))
        stretch = p.get('stretch')
        if kind == 'tetplate' and stretch is None:
            stretch = [100, rng.choice([100, 60]), rng.choice([1, 2, 5, 10, 14])]
            if mat in ('shear', 'refl3'):
                mat = 'rot3'
        scale = p.get('scale', rng.choice([1.0, 1.0, 0.5, 0.25, 2.0 ** -13, 2.0 ** 10, 2.0 ** -30, 2.0 ** -36]))
        n_cells, n_nodes = n_cells_nodes(kind, nn)
        idmode = rng.choice(['plain', 'sparse', 'shuffled', 'reversed', 'swap2', 'offset'])
        node_ids = node_perm = None
        if idmode in ('sparse', 'shuffled'):
            node_ids = sorted(rng.sample(range(1, 5000), n_nodes))
            if idmode == 'shuffled':
                rng.shuffle(node_ids)
            node_perm = list(range(n_nodes))
            rng.shuffle(node_perm)
        elif idmode == 'reversed':
            node_perm = list(range(n_nodes))[::-1]
        elif idmode == 'swap2' and n_nodes > 3:
            node_perm = list(range(n_nodes))
            k = rng.randrange(n_nodes - 1)
            node_perm[k], node_perm[k + 1] = node_perm[k + 1], node_perm[k]
        elif idmode == 'offset':
            a = rng.randint(1000, 2000)
            node_ids = list(range(a, a + n_nodes))
            mid = list(range(1, n_nodes - 1))
            rng.shuffle(mid)
            node_perm = [0] + mid + ([n_nodes - 1] if n_nodes > 1 else [])
        eidmode = rng.choice(['plain', 'plain', 'sparse', 'shuffled'])
        elem_ids = None
        if eidmode != 'plain':
            elem_ids = sorted(rng.sample(range(1, 20000), n_cells))
            if eidmode == 'shuffled':
                rng.shuffle(elem_ids)
        cos_t = p.get('cos_thresh', rng.choice([0.999, 0.99, 0.95, 0.9, 0.7, 0.5, 0.2]))
        if kind == 'tetplate' and 'cos_thresh' not in p:
            cos_t = rng.choice([0.99, 0.999, 0.9999, 0.95])
        crease = p.get('crease')
        if i >= len(plan) and rng.random() < 0.3 and nn[0] >= 2 and kind != 'tetplate':
            crease = {'i0': rng.randint(1, nn[0] - 1), 'D': 20, 's': rng.choice([1, 1, 2]),
                      'Dx': rng.choice([20, 40, 80]), 'Dy': rng.choice([20, 40])}
            cos_t = rng.choice([0.9999, 0.99999, 1.0, 0.999, 0.99])
        # relative to the shortest edge of the (transformed) lattice
        dist_t = p.get('dist_thresh', rng.choice([0.0, 0.0, 0.0, 1.1, 2.5])) * scale * \
            {'identity': 1.0, 'shear': 2.3, 'rot3': 3.0, 'refl3': 3.0}[mat] * (20.0 if crease else 1.0) * \
            (min(stretch) if stretch else 1.0)
        if isinstance(p.get('dist_thresh'), int):
            dist_t = p['dist_thresh']
        elem_num = p.get('elem_num', rng.choice([1, 2, 3, 5, 8, 1000]))
        ndrop = p.get('drop', rng.choice([0, 0, max(1, n_cells // 5)]))
        drop = sorted(rng.sample(range(n_cells), min(ndrop, n_cells - 1))) if ndrop else []
        if drop and 'drop' in p and 0 not in drop:
            drop[0] = 0          # a corner cell: its corner node becomes unreferenced
        far = p.get('far', rng.random() < 0.2)
        t = [rng.randint(-5, 5) for _ in range(3)]
        if far and p.get('coord_dtype', 'float64') == 'float64':
            t = [rng.choice([-1, 1]) * rng.randint(10 ** 5, 10 ** 6) for _ in range(3)]
        knns = [1, 2, 3, 4]
        transfers = [] if p.get('no_transfers') else gen_transfers(rng, knns, dtype_shift=i, knn_shift=i)
        second = p.get('second')
        if second is None and i >= len(plan) and rng.random() < 0.3:
            second = dict(cos_thresh=rng.choice([0.999, 0.99, 0.9999]),
                          dist_thresh=0.0 if dist_t > 0 else 1.1 * scale * (min(stretch) if stretch else 1.0))
        if second is not None:
            second = dict(second, elem_num=elem_num, knns=[1, 2],
                          transfers=gen_transfers(rng, [1, 2], tid0=1000, short=True))
        jobs.append({'id': i, 'kind': kind, 'n': nn, 'mat': mat, 'M': MATS[mat], 't': t, 'scale': scale,
                     'stretch': stretch, 'far': far, 'drop': drop, 'coord_dtype': p.get('coord_dtype', 'float64'),
                     'idmode': idmode, 'eidmode': eidmode, 'node_ids': node_ids, 'node_perm': node_perm,
                     'elem_ids': elem_ids, 'crease': crease, 'interleave': bool(p.get('interleave')),
                     'elem_num': elem_num, 'cos_thresh': cos_t, 'dist_thresh': dist_t,
                     'knns': knns, 'transfers': transfers, 'second': second,
                     'geo_edges': {'seed': rng.randrange(2 ** 30), 'cells': 3 if thorough else 2, 'steps': 6},
                     'driver_pass': bool((thorough or i % 2 == 0) and n_cells <= 400)})
    return jobs


# -------------------------------------------------------------- child process
def run_child(ctx, jobs, tag, timeout):
    jf = ctx.scratch / f'jobs_{tag}.json'
    of = ctx.scratch / f'out_{tag}.json'
    jf.write_text(json.dumps(jobs))
    if of.exists():
        of.unlink()
    rc, out, err, dt = lib.sh([lib.PY, str(Path(__file__).with_name('c20_impl.py')), str(jf), str(of)],
                              env=lib.impl_env(), timeout=timeout)
    ctx.log(f'child {tag}: rc={rc} {dt:.1f}s')
    if not of.exists():
        return None, (out + err)[-2000:]
    return json.loads(of.read_text()), ''


# -------------------------------------------------- regime of the volume clause
def fr(nd):
    return Fr(nd[0], nd[1])


def normal_of(face, pos):
    p0 = pos[face[0]]
    n = [Fr(0)] * 3
    for i in range(2, len(face)):
        a = [pos[face[1]][k] - p0[k] for k in range(3)]
        b = [pos[face[i]][k] - p0[k] for k in range(3)]
        n = [n[0] + a[1] * b[2] - a[2] * b[1], n[1] + a[2] * b[0] - a[0] * b[2],
             n[2] + a[0] * b[1] - a[1] * b[0]]
    return n


def max_noncoplanar_cos2(cells, pos_nd):
    """The decision rule of remove_edges, evaluated exactly (rationals) on the merged
    cells: the edge {a,b} is removed only if IN EVERY cell that contains it the
    cosine between the normal of a face listing (a,b) and that of a face listing
    (b,a) is >= cos_thresh.  Returns the largest value, over the edges that are not
    coplanar in every cell, of  min over cells of (max over such face pairs of
    sign(cos) * cos^2).  If cos_thresh^2 exceeds it, only faces that are coplanar in
    every cell can be fused, so the volume must be conserved.  Knife edges (nearly
    opposite normals) have a negative value."""
    pos = [[fr(c) for c in row] for row in pos_nd]
    per_edge = {}
    for p in cells:
        by_edge = {}
        for f in p:
            nrm = normal_of(f, pos)
            for e in edges_of(f):
                by_edge.setdefault(e, []).append(nrm)
        for (a, b), ns in by_edge.items():
            if (a, b) > (b, a):
                continue
            best = None
            for u in ns:
                for v in by_edge.get((b, a), []):
                    d = sum(x * y for x, y in zip(u, v))
                    val = d * abs(d) / (sum(x * x for x in u) * sum(x * x for x in v))
                    best = val if best is None else max(best, val)
            if best is not None:
                key = (a, b)
                per_edge[key] = best if key not in per_edge else min(per_edge[key], best)
    level = Fr(-1)
    for val in per_edge.values():
        if val < 1:
            level = max(level, val)
    return level


def min_node_dist2(cells, pos_nd):
    """squared distance of the closest pair of distinct nodes in use.  merge_vertices
    merges the ends of an edge only if their distance is < dist_thresh; every edge any
    pass creates joins two distinct nodes in use, and positions move only by merging, so
    dist_thresh^2 < this value means: NO vertices may be merged (precondition of the
    volume clause, decided from the input and the parameter alone)"""
    used = sorted({v for p in cells for f in p for v in f})
    if len(used) <= 450:
        P = [[fr(c) for c in pos_nd[v]] for v in used]
        den = 1
        for row in P:
            for c in row:
                den = den * c.denominator // __import__('math').gcd(den, c.denominator)
        I = [[int(c * den) for c in row] for row in P]
        best = None
        for i in range(len(I)):
            xi, yi, zi = I[i]
            for j in range(i):
                d = (xi - I[j][0]) ** 2 + (yi - I[j][1]) ** 2 + (zi - I[j][2]) ** 2
                if best is None or d < best:
                    best = d
        return None if best is None else Fr(best, den * den)
    import numpy as np
    X = np.array([[c[0] / c[1] for c in pos_nd[v]] for v in used], float)
    X = X - X.mean(axis=0)
    best = None
    for i in range(1, len(X)):
        d = ((X[:i] - X[i]) ** 2).sum(axis=1).min()
        best = d if best is None else min(best, d)
    return Fr(float(best)) * Fr(999999, 1000000)       # float path: safety margin


# ------------------------------------------------------------ evaluation
def eval_merge(ctx, mjobs, mres):
    """correspondence of merge_polyhedrons on synthetic groups"""
    lines = [HEADER]
    cases = []
    for job, r in zip(mjobs, mres):
        ctx.count('merge_kind:' + job['kind'])
        if 'error' in r:
            ctx.violation('correspondence', {'jobs': {'merge': [job]}}, 'merge_polyhedrons returns',
                          r['error'], 'correspondence merge_polyhedrons ~ Model.merge',
                          signature={'check': 'merge', 'symptom': 'raises', 'kind': job['kind']},
                          what='merge_polyhedrons raised on a synthetic group')
            continue
        ec = r['elem_conv']
        ids = job['ids']
        ok_py = all((ec[i] >= 0) == (i in ids) for i in range(len(job['polys'])))
        groups = []
        for m in range(r['nxt']):
            groups.append([i for i in range(len(job['polys'])) if ec[i] == m])
        ok_py = ok_py and len(r['polys']) == r['nxt'] and all(groups)
        nm = f'mc{job["id"]}'
        lines.append(f'Definition {nm}_cells : list poly := {cpolys(job["polys"])}.')
        lines.append(f'Definition {nm}_out : list poly := {cpolys(r["polys"])}.')
        gl = lib.coq_list([lib.coq_list([cz(i) for i in g]) for g in groups])
        lines.append(f'Definition {nm}_groups : list (list Z) := {gl}.')
        lines.append(
            f'Definition {nm}_ok : bool := let gs := map (pick [] {nm}_cells) {nm}_groups in '
            f'all2 merge_agree gs {nm}_out && forallb connected_b gs && '
            f'(fix sep (l : list (list poly)) := match l with [] => true | g :: r => '
            f'forallb (separate_b g) r && sep r end) gs.')
        cases.append((job['id'], nm, ok_py))
        nontriv = len(ids) >= 2
        ctx.case(['merge', job['polys'], ids], nontrivial=nontriv,
                 sample={'merge_group': job['polys'][:3], 'ids': ids, 'impl_out': r['polys'][:2]}
                 if job['id'] == 0 else None)
    lines.append('Goal True. idtac "@@ merge". Abort.')
    lines.append('Eval vm_compute in map fst (filter (fun c => negb (snd c)) ' +
                 lib.coq_list([f'({cz(i)}, {nm}_ok)' for i, nm, _ in cases]) + ').')
    rc, out, err = ctx.coq_eval('CasesMerge', '\n'.join(lines) + '\n')
    bad = None if rc != 0 else failing(lib.parse_marked(out).get('merge', ''))
    if bad is None:
        ctx.violation('correspondence', {}, 'CasesMerge.v evaluates', (err or out)[-600:],
                      'correspondence merge_polyhedrons ~ Model.merge', found_input=False,
                      signature={'check': 'merge', 'symptom': 'coq-eval-failed'})
        return
    bad = set(bad) | {i for i, _, okp in cases if not okp}
    ctx.corr['cases'] += len(cases)
    ctx.corr['disagreements'] += len(bad)
    ctx.corr['merge_synthetic'] = len(cases)
    order = sorted(range(len(mjobs)), key=lambda i: sum(len(p) for p in mjobs[i]['polys']))
    for job, r in [(mjobs[i], mres[i]) for i in order]:
        if job['id'] in bad:
            ctx.violation('correspondence', {'jobs': {'merge': [job]}},
                          'Model.merge of each connected group (multiset of canonical faces)',
                          {'impl_polys': r.get('polys'), 'elem_conv': r.get('elem_conv')},
                          'correspondence merge_polyhedrons ~ Model.merge',
                          signature={'check': 'merge', 'case_kind': job['kind']},
                          what='merge_polyhedrons disagrees with the model')


def run_defs(job, r):
    """Coq definitions + list of (checkname, boolean expression) for one run"""
    nm = f'r{job["id"]}'
    L = []
    L.append(f'Definition {nm}_in : list poly := {cpolys(r["in_polys"])}.')
    L.append(f'Definition {nm}_inpos : list (V3 Q) := {cpos(r["in_pos"])}.')
    L.append(f'Definition {nm}_mout : list poly := {cpolys(r["merge_polys"])}.')
    L.append(f'Definition {nm}_mconv : list Z := {lib.coq_list([cz(v) for v in r["merge_elem_conv"]])}.')
    nm_m = len(r['merge_polys'])
    checks = []
    checks.append(('input_cells_wf', f'forallb wf_poly_b {nm}_in'))
    checks.append(('merge_step_agrees',
                   f'all2 (fun m out => let g := pick [] {nm}_in (group_of {nm}_mconv m) in '
                   f'merge_agree g out && connected_b g) (map Z.of_nat (seq 0 {nm_m})) {nm}_mout'))
    checks.append(('merge_step_total', f'forallb (fun c => 0 <=? c) {nm}_mconv'))
    geo = r.get('geo_edges') or []
    if geo:
        items = ['(%s, %s, %s, %s, %s)' % (cpoly(st['before']), cz(st['a']), cz(st['b']),
                                           'true' if st['ok'] else 'false', cpoly(st['after'])) for st in geo]
        L.append(f'Definition {nm}_geo : list (poly * Z * Z * bool * poly) := {lib.coq_list(items)}.')
        # same acceptance and identical cell as ModelEdge.remove_one_edge
        checks.append(('geo_edge_model', "forallb (fun s => let '(p, a, b, ok, p2) := s in "
                       f"chk_remove_edge p a b ok p2) {nm}_geo"))
        # C20_remove_one_edge_wf / _volume on the real step: balance kept; volume kept when the
        # fused faces are coplanar (planar_b, exact rationals)
        checks.append(('geo_edge_wf', "forallb (fun s => let '(p, a, b, ok, p2) := s in "
                       f"wf_poly_b p && wf_poly_b p2) {nm}_geo"))
        checks.append(('geo_edge_volume', "forallb (fun s => let '(p, a, b, ok, p2) := s in "
                       f"chk_edge_vol {nm}_inpos p a b ok p2) {nm}_geo"))
    if r.get('ok'):
        L.append(f'Definition {nm}_out : list poly := {cpolys(r["out_polys"])}.')
        L.append(f'Definition {nm}_outpos : list (V3 Q) := {cpos(r["out_pos"])}.')
        L.append(f'Definition {nm}_conn : list (list Z) := '
                 f'{lib.coq_list([lib.coq_list([cz(v) for v in c]) for c in r["out_conn"]])}.')
        L.append(f'Definition {nm}_econv : list Z := {lib.coq_list([cz(v) for v in r["elem_conv"]])}.')
        K = len(r['out_pos'])
        P = len(r['out_polys'])
        checks.append(('cells_closed', f'forallb closed_b {nm}_out'))
        checks.append(('cells_balanced', f'forallb wf_poly_b {nm}_out'))
        checks.append(('uses_exactly_listed_nodes', f'uses_exactly_b {K} {nm}_out'))
        checks.append(('connectivity_lists_face_nodes', f'all2 conn_ok_b {nm}_conn {nm}_out'))
        L.append(f'Definition {nm}_nconv : list Z := {lib.coq_list([cz(v) for v in r["node_conv"]])}.')
        # K = node_conv.max() + 1 (C20_reindex_exact), cells = elem_conv.max() + 1, ids 1..K / 1..P
        checks.append(('node_table_matches_node_conv',
                       f'({K} =? fold_right Z.max (-1) {nm}_nconv + 1) && '
                       f'({P} =? fold_right Z.max (-1) {nm}_econv + 1)'))
        checks.append(('ids_are_1_to_n', 'true' if (r['out_node_ids'] == list(range(1, K + 1)) and
                                                     r['out_elem_ids'] == list(range(1, P + 1)) and
                                                     r.get('out_wellformed') and
                                                     r.get('recomputed_same_object')) else 'false'))
        checks.append(('volume_total', f'Qeq_bool (volQ {nm}_outpos {nm}_out) (volQ {nm}_inpos {nm}_in)'))
        checks.append(('volume_per_cell',
                       f'all2 (fun m c => Qeq_bool (volQ {nm}_outpos [c]) '
                       f'(volQ {nm}_inpos (pick [] {nm}_in (group_of {nm}_econv m)))) '
                       f'(map Z.of_nat (seq 0 {P})) {nm}_out'))
    elif 'ok' in r:
        # compress() returned False ("compressed to 0 elements"): the compressed mesh is empty;
        # on the domain of the volume clause that is a violation unless the input has no volume
        checks.append(('empty_output_volume', f'Qeq_bool (volQ {nm}_inpos {nm}_in) 0'))
    return nm, L, checks


def with_second(rjobs, rres):
    """a second compress() on the same object that was not refused is judged as a
    run of its own (same input, the parameters of the second call)"""
    J, R = list(rjobs), list(rres)
    for job, r in zip(rjobs, rres):
        s2 = r.get('second')
        if not s2 or s2.get('refused') or 'error' in r:
            continue
        sec = job['second']
        job2 = dict(job, id=job['id'] + 1000, cos_thresh=sec['cos_thresh'], dist_thresh=sec['dist_thresh'],
                    transfers=sec['transfers'], knns=sec['knns'], second=None, _orig=job, history='second')
        r2 = {k: r[k] for k in ('in_polys', 'in_pos', 'merge_polys', 'merge_elem_conv', 'merge_K')}
        r2.update(s2)
        r2['secs'] = 0
        J.append(job2)
        R.append(r2)
    return J, R


def eval_runs(ctx, rjobs, rres):
    lines = [HEADER]
    per_run = []
    big = []
    for job, r in zip(rjobs, rres):
        if r.get('second') is not None:
            s2 = r['second']
            ctx.count('second_compress:' + ('refused' if s2.get('refused') else
                                            'raised' if 'error' in s2 else 'ran'))
            if 'error' in s2:
                ctx.violation('impl-violation', {'jobs': {'runs': [strip_x(job)]}},
                              'a second compress() is refused or gives a valid mesh', s2['error'],
                              'verified-oracle test, history: compress twice on one object',
                              signature={'check': 'history', 'symptom': 'second compress raises'},
                              what='second compress() raised something other than the refusal')
    rjobs, rres = with_second(rjobs, rres)
    for job, r in zip(rjobs, rres):
        descr = {k: job.get(k) for k in ('kind', 'n', 'mat', 't', 'scale', 'idmode', 'eidmode', 'elem_num',
                                         'cos_thresh', 'dist_thresh', 'crease', 'stretch', 'drop',
                                         'coord_dtype', 'history')}
        ctx.count('run_history:' + (job.get('history') or 'first'))
        ctx.count('run_eidmode:' + job.get('eidmode', 'plain'))
        ctx.count('run_coord_dtype:' + job.get('coord_dtype', 'float64'))
        ctx.count('run_dropped_cells:' + ('yes' if job.get('drop') else 'no'))
        ctx.count('run_far_offset:' + ('yes' if job.get('far') else 'no'))
        ctx.count('run_scale:%g' % job['scale'])
        ctx.count('run_creased:' + ('yes' if job.get('crease') else 'no'))
        ctx.count('run_kind:' + job['kind'])
        ctx.count('run_mat:' + job['mat'])
        ctx.count('run_idmode:' + job['idmode'])
        ctx.count('run_cos_thresh:%g' % job['cos_thresh'])
        ctx.count('run_dist_thresh:' + ('0' if job['dist_thresh'] == 0 else '>0'))
        if 'error' in r:
            ctx.violation('impl-violation', {'jobs': {'runs': [strip_x(job)]}}, 'compress runs',
                          r['error'], 'verified-oracle test of MeshCompressor.compress',
                          signature={'check': 'run', 'symptom': 'raises', 'descr': descr},
                          what='MeshCompressor raised')
            continue
        nm, L, checks = run_defs(job, r)
        block = L + [f'Goal True. idtac "@@ {nm}". Abort.',
                     'Eval vm_compute in map fst (filter (fun c => negb (snd c)) ' +
                     lib.coq_list([f'({cz(i)}, {e})' for i, (_, e) in enumerate(checks)]) + ').']
        if 'drv_polys' in r:
            # one pass of remove_edges vs the driver model (exact angle test + all-cells rule),
            # and whether every fusion of the model's trace was coplanar
            thrq = lib.coq_Q(Fr(job['cos_thresh']))
            block += [f'Definition {nm}_drv : list poly := {cpolys(r["drv_polys"])}.',
                      f'Goal True. idtac "@@ {nm}_driver". Abort.',
                      f'Eval vm_compute in (let r := driver_pass {nm}_inpos {thrq} {nm}_mout in '
                      f'(near_thr_b {nm}_inpos {thrq} {nm}_mout, '
                      f'polys_eqb (shrink_cells (fst r)) {nm}_drv, snd r)).']
        if r.get('geo_edges'):
            # how many steps were accepted with coplanar fused faces (the non-trivial
            # instances of C20_remove_one_edge_volume)
            block += [f'Goal True. idtac "@@ {nm}_geoplanar". Abort.',
                      "Eval vm_compute in Z.of_nat (List.length (filter (fun s => let '(p, a, b, ok, p2) := s in "
                      f"ok && planar_b {nm}_inpos (fused_nodes p a b)) {nm}_geo))."]
        if len(r['in_polys']) > 400:
            big.append((nm, block))          # evaluated in a file of its own
        else:
            lines += block
        per_run.append((job, r, nm, checks, descr))
    rc, out, err = ctx.coq_eval('CasesRuns', '\n'.join(lines) + '\n', timeout=900)
    parts = lib.parse_marked(out) if rc == 0 else {}
    for nm, block in big:
        rcb, outb, errb = ctx.coq_eval('CasesRunBig_' + nm, '\n'.join([HEADER] + block) + '\n', timeout=1500)
        if rcb == 0:
            parts.update(lib.parse_marked(outb))
        else:
            err = (err or '') + (errb or outb)[-300:]
    summary = []
    for job, r, nm, checks, descr in per_run:
        bad = failing(parts[nm]) if nm in parts else None
        if bad is None:
            ctx.violation('correspondence', {'jobs': {'runs': [strip_x(job)]}}, 'CasesRuns.v evaluates',
                          (err or out)[-600:], 'verified-oracle test', found_input=False,
                          signature={'check': 'run', 'symptom': 'coq-eval-failed'})
            continue
        failed = [checks[i][0] for i in bad]
        ok = bool(r.get('ok'))
        merged_vertices = False
        vanished = 0
        regime = 'no-output'
        no_merge_domain = False
        if 'ok' in r:
            nc = [v for v in r.get('node_conv', []) if v >= 0]
            merged_vertices = len(nc) != len(set(nc))
            vanished = sum(1 for v in r.get('elem_conv', []) if v < 0)
            # DOMAIN OF THE VOLUME CLAUSE, decided from the input and the parameters only:
            # (a) dist_thresh below the smallest distance of two nodes: no vertices may be merged;
            # (b) cos_thresh above every non-flat dihedral cosine (all-cells rule of
            #     remove_edges): only coplanar faces may be fused -- the hypothesis of
            #     C20_remove_one_edge_volume; fusing across a non-flat edge cannot conserve
            #     volume (C20_example_nonplanar_fusion_changes_volume) and is the lossy use
            #     of the compressor that its docstring describes, so such runs are outside
            #     the clause (no claim, no finding)
            d2 = min_node_dist2(r['in_polys'], r['in_pos'])
            dt = Fr(job['dist_thresh'])
            no_merge_domain = d2 is not None and dt >= 0 and dt * dt * Fr(1000001, 1000000) < d2
            c2 = max_noncoplanar_cos2(r['merge_polys'], r['in_pos'])
            thr = Fr(job['cos_thresh']) - Fr(1, 10 ** 6)
            coplanar_only = thr > 0 and thr * thr > c2
            regime = ('vertices-may-merge' if not no_merge_domain else
                      'coplanar-only' if coplanar_only else 'noncoplanar-fusion-allowed')
            ctx.count('run_vertices_merged:' + ('yes' if merged_vertices else 'no'))
            if no_merge_domain and merged_vertices:
                ctx.violation('impl-violation', {'jobs': {'runs': [strip_x(job)]}},
                              'no vertices merged: dist_thresh is below the distance of the closest '
                              'pair of nodes (dist_thresh^2 = %s < %s)' % (dt * dt, d2),
                              'node_conv maps two nodes in use to the same compressed node',
                              'verified-oracle test: precondition of the volume clause',
                              signature={'check': 'no-merge', 'descr': descr},
                              what='vertices were merged although no two nodes are closer than dist_thresh')
        ctx.count('run_regime:' + regime)
        ctx.case(['run', descr], nontrivial=ok and len(r['out_polys']) < len(r['in_polys']),
                 sample={'run': descr, 'cells': [len(r['in_polys']), len(r.get('out_polys', []))],
                         'nodes': [len(r['in_pos']), len(r.get('out_pos', []))], 'regime': regime}
                 if len(summary) < 2 else None)
        dv = parts.get(nm + '_driver')
        if dv is not None:
            import re as _re
            mm = _re.search(r'\((true|false),\s*(true|false),\s*(true|false)\)', dv)
            if not mm:
                ctx.violation('correspondence', {'jobs': {'runs': [strip_x(job)]}}, 'driver model evaluates',
                              dv[-300:], 'correspondence remove_edges ~ HarnessDriver.driver_pass',
                              found_input=False, signature={'check': 'driver', 'symptom': 'coq-eval-failed'})
            else:
                near, same, planar = [x == 'true' for x in mm.groups()]
                ctx.corr['cases'] += 1
                ctx.corr['remove_edges_pass_cases'] = ctx.corr.get('remove_edges_pass_cases', 0) + 1
                ctx.count('driver_pass:' + ('near-threshold (not compared)' if near else
                                            'compared, trace ' + ('coplanar' if planar else 'not coplanar')))
                if not near and not same:
                    ctx.corr['disagreements'] += 1
                    ctx.violation('correspondence', {'jobs': {'runs': [strip_x(job)]}},
                                  'HarnessDriver.driver_pass (exact angle test, all-cells rule, '
                                  'remove_one_edge per cell, shrink): identical cells',
                                  'remove_edges returned other cells',
                                  'correspondence remove_edges ~ HarnessDriver.driver_pass',
                                  signature={'check': 'driver', 'descr': descr},
                                  what='one pass of remove_edges on the merged cells disagrees with the model')
                if regime == 'coplanar-only' and not near and not planar:
                    ctx.violation('correspondence', {'jobs': {'runs': [strip_x(job)]}},
                                  'in the coplanar-only domain every fusion of the driver trace is coplanar '
                                  '(steps_planar of C20_remove_edges_total_volume)',
                                  'the driver model fused non-coplanar faces',
                                  'domain of the volume clause vs HarnessDriver.driver_pass',
                                  signature={'check': 'driver-domain', 'descr': descr},
                                  what='domain classifier and driver model disagree')
        gp = parts.get(nm + '_geoplanar')
        if gp is not None:
            import re as _re
            mm = _re.search(r'=\s*(\d+)', gp if isinstance(gp, str) else '\n'.join(gp))
            if mm:
                ctx.corr['remove_one_edge_geo_steps'] = ctx.corr.get('remove_one_edge_geo_steps', 0) + \
                    len(r.get('geo_edges') or [])
                ctx.corr['remove_one_edge_geo_planar_accepted'] = \
                    ctx.corr.get('remove_one_edge_geo_planar_accepted', 0) + int(mm.group(1))
        summary.append({'run': descr, 'compress_returned': ok, 'regime': regime, 'failed_checks': failed,
                        'cells': [len(r['in_polys']), len(r.get('out_polys', []))],
                        'vanished_cells': vanished, 'secs': r.get('secs')})
        ctx.corr['cases'] += 1
        for name in failed:
            if name in ('merge_step_agrees', 'merge_step_total', 'input_cells_wf'):
                ctx.corr['disagreements'] += 1
                ctx.violation('correspondence', {'jobs': {'runs': [strip_x(job)]}},
                              'merge_elements output = Model.merge of each group', name + ' is false',
                              'correspondence merge_elements ~ Model.merge',
                              signature={'check': 'run-merge', 'failed': name, 'descr': descr},
                              what='merge step of a brick run disagrees with the model')
            elif name in ('geo_edge_model', 'geo_edge_wf', 'geo_edge_volume'):
                ctx.corr['disagreements'] += 1
                ctx.violation('correspondence', {'jobs': {'runs': [strip_x(job)]}},
                              {'geo_edge_model': 'ModelEdge.remove_one_edge (same acceptance, same cell)',
                               'geo_edge_wf': 'edge balance kept (C20_remove_one_edge_wf)',
                               'geo_edge_volume': 'volume kept when the fused faces are coplanar '
                                                  '(C20_remove_one_edge_volume)'}[name],
                              name + ' is false', 'correspondence remove_one_edge_from_polyhedron ~ '
                              'ModelEdge.remove_one_edge on merged cells of a run',
                              signature={'check': 'geo-edge', 'failed': name, 'descr': descr},
                              what='edge removal on a real merged cell disagrees with the model / theorem')
            elif name == 'empty_output_volume':
                if regime != 'coplanar-only':
                    continue
                ctx.violation('impl-violation', {'jobs': {'runs': [strip_x(job)]}},
                              'a compressed mesh with the volume of the input (no vertices may be merged, '
                              'only coplanar faces may be fused)',
                              'compress() returned False: compressed to 0 elements',
                              'verified-oracle test (volQ of the input evaluated in Coq)',
                              signature={'check': 'volume', 'regime': regime, 'failed': name, 'descr': descr},
                              what='the whole mesh vanished although the thresholds allow no lossy step')
            elif name in ('volume_total', 'volume_per_cell'):
                if regime != 'coplanar-only':
                    # outside the domain of the volume clause (vertices may be merged, or
                    # cos_thresh admits the fusion of non-coplanar faces): recorded, not judged
                    if name == 'volume_total':
                        ctx.count('volume_changed_outside_domain:' + regime)
                    continue
                if name == 'volume_per_cell' and 'volume_total' in failed:
                    continue
                ctx.violation('impl-violation', {'jobs': {'runs': [strip_x(job)]}},
                              'volume of the compressed mesh = volume of the input (exact, rationals)',
                              name + ' is false', 'verified-oracle test (volQ evaluated in Coq); '
                              'C20_merge_volume + C20_remove_one_edge_volume + C20_reindex_volume_id',
                              signature={'check': 'volume', 'regime': regime, 'failed': name, 'descr': descr},
                              what='compressed mesh has a different volume although no vertices may be '
                                   'merged and only coplanar faces may be fused')
            elif name == 'cells_balanced':
                if 'cells_closed' not in failed:
                    ctx.notes.setdefault('unbalanced_but_closed_outputs', []).append(descr)
            else:
                ctx.violation('impl-violation', {'jobs': {'runs': [strip_x(job)]}},
                              name + ' = true', name + ' is false',
                              'verified-oracle test (closed_b / uses_exactly_b evaluated in Coq)',
                              signature={'check': name, 'descr': descr},
                              what='compressed mesh is not a valid polyhedral mesh')
    ctx.notes['whole_run_oracle_results'] = summary
    return per_run


def strip_x(job):
    j = dict(job.get('_orig', job))
    j['transfers'] = []
    j.pop('_orig', None)
    return j


def eval_transfers(ctx, rjobs, rres):
    lines = [HEADER, f'Definition tol : Q := {lib.coq_Q(TOL)}.']
    mat_lines = {}   # run id -> definitions of its matrices
    cases = []       # (cid, expr, meta)
    sym = []         # python-side classified (raises ...)
    n_mat = 0
    for job, r in zip(rjobs, rres):
        if not r.get('ok') or 'transfers' not in r:
            continue
        rid = job['id']
        mats = {}
        referenced = {v for pl in r['in_polys'] for f in pl for v in f}
        unref = {'unreferenced_nodes': True} if len(referenced) < len(r['in_pos']) else {}
        if unref:
            ctx.count('run_with_unreferenced_nodes')
        for knn, d in r['mats'].items():
            for where in ('nodal', 'elemental'):
                nmA = f'A_{rid}_{knn}_{where}'
                rows = d[where]['rows']
                M, N = d[where]['shape']
                if any(b not in (0, 1) for row in rows for b in row):
                    # the documented matrix is boolean; an entry 2 (duplicate (row, col) pairs summed
                    # by csr_matrix) no longer matches weights that count entries
                    sym_mat = {'type': 'matrix', 'run': rid, 'knn': knn, 'where': where}
                    ctx.violation('impl-violation', {'jobs': {'runs': [strip_x(job)]}},
                                  'a 0/1 (boolean) conversion matrix',
                                  'entries %s' % sorted({b for row in rows for b in row}),
                                  'hypothesis of C20_mean_preserves_const / C20_sum_conserves_total: '
                                  'the matrix is boolean',
                                  signature={'check': 'matrix', 'where': where, 'symptom': 'entries not 0/1'},
                                  what='conversion matrix has entries other than 0 and 1')
                mat_lines.setdefault(rid, []).append(f'Definition {nmA} : bmat := {cbmat(rows)}.')
                mat_lines[rid].append(f'Definition {nmA}_T : bmat := transpose {N} {nmA}.')
                mats[(knn, where)] = (nmA, M, N)
                n_mat += 1
                # hypotheses of the transfer theorems on the real matrices
                cases.append((len(cases),
                              f'mat_ok {N} {nmA} && rows_nonempty {nmA} && cols_nonempty {N} {nmA} && '
                              f'mat_ok {M} {nmA}_T',
                              {'type': 'matrix', 'run': rid, 'knn': knn, 'where': where,
                               'unref': unref if where == 'nodal' else {}}))
        for t in r['transfers']:
            nmA, M, N = mats[(str(t['knn']), t['where'])]
            A = nmA if t['dir'] == 'compress' else nmA + '_T'
            n_dst = M if t['dir'] == 'compress' else N
            func = t['dir'] + '_' + t['where'] + '_data'
            meta = {'type': 'transfer', 'run': rid, 'tid': t['tid'], 'func': func, 'kind': t['kind'],
                    'shape': t['shape'], 'knn': t['knn'], 'xmode': t['xmode'],
                    'dtype': t.get('dtype', 'float64')}
            meta['unref'] = unref if t['where'] == 'nodal' else {}
            ctx.count('transfer_dtype:' + meta['dtype'])
            if t.get('source_unchanged') is False:
                sym.append((meta, 'source field modified', ''))
            if t.get('repeat_same') is False:
                sym.append((meta, 'same transfer twice gives different results', ''))
            # (3,3) data: x / wt with wt (1,3) broadcasts without error, column-wise
            sq = {'n_src': 3} if (t['shape'] == 'N3' and t.get('n_src') == 3) else {}
            meta['sq'] = sq
            ctx.count(f'transfer:{t["kind"]}:{t["shape"]}')
            if 'error' in t:
                sym.append((meta, 'raises ' + t['error'], t.get('error_msg', '')))
                continue
            y = t['y']
            ncomp = t['ncomp']
            xs = t['x_used']
            xcols = [[xs[i * ncomp + c] for i in range(t['n_src'])] for c in range(ncomp)]
            want_shape = [n_dst] if t['shape'] == 'N' else [n_dst, ncomp]
            if 'vals' not in y:
                sym.append((meta, 'non-numeric result', str(y)))
                continue
            if y['shape'] != want_shape:
                # the broadcast of the code: (N,1) data, kind=sum -> (n_dst, n_src) array
                if t['kind'] == 'sum' and t['shape'] == 'N1' and y['shape'] == [n_dst, t['n_src']]:
                    yy = [[y['vals'][i * t['n_src'] + j] for j in range(t['n_src'])] for i in range(n_dst)]
                    xq = lib.coq_list([cq(v) for v in xcols[0]])
                    yq = lib.coq_list([lib.coq_list([cq(v) for v in row]) for row in yy])
                    tot = sum(fr(v) for v in y['vals'])
                    meta2 = dict(meta, total_in=str(sum(fr(v) for v in xcols[0])), total_out=str(tot))
                    cases.append((len(cases), f'chk_broadcast tol {A} {xq} {yq}',
                                  dict(meta2, type='broadcast')))
                else:
                    if t['shape'] == 'N' and len(y['shape']) == 2:
                        symp = 'result is a 2-D array for 1-D data'
                    else:
                        symp = 'unexpected result shape'
                    sym.append((meta, symp, 'actual shape %s, expected %s' % (y['shape'], want_shape)))
                continue
            for c in range(ncomp):
                ycol = [y['vals'][i * ncomp + c] for i in range(n_dst)]
                xq = lib.coq_list([cq(v) for v in xcols[c]])
                yq = lib.coq_list([cq(v) for v in ycol])
                m = dict(meta, comp=c)
                if t['kind'] == 'mean':
                    cases.append((len(cases), f'chk_mean tol {A} {xq} {yq}', dict(m, type='corr')))
                    if t['xmode'] == 'const':
                        cases.append((len(cases), f'const_kept {cq(xcols[c][0])} {yq}',
                                      dict(m, type='const')))
                else:
                    cases.append((len(cases), f'chk_sum tol {A} {xq} {yq}', dict(m, type='corr')))
                    cases.append((len(cases), f'total_kept tol {xq} {yq}', dict(m, type='total')))
    if not cases and not sym:
        return
    # files of <= 400 cases, each with the matrices of the runs it needs only
    bad = set()
    chunks = []
    for c in cases:
        if not chunks or len(chunks[-1]) >= 400:
            chunks.append([])
        chunks[-1].append(c)
    for k, chunk in enumerate(chunks):
        rids = []
        for _, _, meta in chunk:
            if meta['run'] not in rids:
                rids.append(meta['run'])
        txt = lines + [ln for rid in rids for ln in mat_lines.get(rid, [])] + [
            'Goal True. idtac "@@ tr". Abort.',
            'Eval vm_compute in map fst (filter (fun c => negb (snd c)) ' +
            lib.coq_list([f'({cz(i)}, {e})' for i, e, _ in chunk]) + ').']
        rc, out, err = ctx.coq_eval(f'CasesTransfer{k}', '\n'.join(txt) + '\n', timeout=900)
        b = None if rc != 0 else failing(lib.parse_marked(out).get('tr', ''))
        if b is None:
            ctx.violation('correspondence', {}, 'CasesTransfer.v evaluates', (err or out)[-600:],
                          'correspondence of the transfer formulas', found_input=False,
                          signature={'check': 'transfer', 'symptom': 'coq-eval-failed'})
            return
        bad |= set(b)
    jobs_by_id = {j['id']: j for j in rjobs}

    def case_of(meta):
        j = jobs_by_id[meta['run']]
        if '_orig' in j:
            return {'jobs': {'runs': [strip_x(j)]}}
        j2 = dict(j)
        j2['transfers'] = [t for t in j['transfers'] if t['tid'] == meta.get('tid')]
        j2['second'] = None
        return {'jobs': {'runs': [j2]}}

    n_corr = 0
    for cid, expr, meta in cases:
        ty = meta['type']
        if ty in ('corr', 'broadcast', 'matrix'):
            n_corr += 1
        ctx.case(['transfer', meta], nontrivial=ty != 'matrix',
                 sample=meta if cid in (0, 5) else None)
        if ty == 'broadcast':
            # the implementation's (M,N) result equals the broadcast model
            matches = cid not in bad
            ctx.violation('impl-violation', case_of(meta),
                          'kind="sum": y = mat @ (x / colsum), total of y = total of x',
                          {'result_shape': '(n_dst, n_src)', 'total_in': meta['total_in'],
                           'total_out': meta['total_out'],
                           'equals_broadcast_model_sum_tr_broadcast': matches},
                          'C20_sum_conserves_total (holds for the documented formula); '
                          'C20_sum_broadcast_refuted (the expression the code evaluates)',
                          signature={'check': 'transfer', 'kind': 'sum', 'shape': 'N1',
                                     'symptom': 'broadcast (N,1)/(1,N)' if matches else
                                     'wrong shape, not the broadcast model', 'func': meta['func']},
                          what='kind="sum" on (N,1) data returns an (n_dst, n_src) array; total not conserved')
            continue
        if cid in bad:
            if ty == 'matrix':
                ctx.violation('impl-violation', case_of(meta), 'every row and column of the conversion '
                              'matrix is non-empty', 'false', 'hypotheses of C20_mean_preserves_const / '
                              'C20_sum_conserves_total on the real matrix',
                              signature=dict({'check': 'matrix', 'where': meta['where']}, **meta['unref'])
                              if meta['unref'] else {'check': 'matrix', 'where': meta['where'],
                                                     'knn': meta['knn'], 'run': meta['run']},
                              what='conversion matrix has an empty row or column')
            elif ty == 'corr':
                ctx.corr['disagreements'] += 1
                ctx.violation('correspondence', case_of(meta), 'Model.%s_tr on the real matrix' % meta['kind'],
                              'differs by more than 2^-30', 'correspondence of the transfer formulas',
                              signature=dict({'check': 'transfer-corr', 'kind': meta['kind'],
                                              'func': meta['func'], 'shape': meta['shape'],
                                              'dtype': meta['dtype']}, **meta['sq'], **meta['unref']),
                              what='transferred data differ from the model formula')
            else:
                ctx.violation('impl-violation', case_of(meta),
                              'constant preserved' if ty == 'const' else 'grand total conserved',
                              'false', 'C20_mean_preserves_const' if ty == 'const' else
                              'C20_sum_conserves_total',
                              signature=dict({'check': 'transfer', 'kind': meta['kind'], 'func': meta['func'],
                                              'shape': meta['shape'], 'symptom': ty + ' not kept',
                                              'dtype': meta['dtype']}, **meta['sq'], **meta['unref']),
                              what='transfer does not keep the ' + ty)
    for meta, symptom, msg in sym:
        ctx.case(['transfer', meta], nontrivial=True)
        ctx.violation('impl-violation', case_of(meta),
                      'a result of the shape of the input data on the target mesh',
                      symptom + (': ' + msg if msg else ''),
                      'C20_sum_conserves_total / C20_mean_preserves_const',
                      signature=dict({'check': 'transfer', 'kind': meta['kind'], 'shape': meta['shape'],
                                      'symptom': symptom, 'func': meta['func'], 'dtype': meta['dtype']},
                                     **meta['unref']),
                      what='transfer of %s data with kind=%s: %s' % (meta['shape'], meta['kind'], symptom))
    ctx.corr['cases'] += n_corr
    ctx.corr['transfer_cases'] = n_corr
    ctx.notes['conversion_matrices_checked'] = n_mat


def evaluate(ctx, jobs, timeout):
    res, err = run_child(ctx, jobs, 'main', timeout)
    if res is None:
        ctx.violation('tie-broken', {'jobs_file': str(ctx.scratch / 'jobs_main.json')},
                      'child process produces results', err[-800:], 'harness/c20_impl.py',
                      found_input=False, signature={'check': 'child', 'symptom': 'no output'})
        return None
    if jobs.get('merge'):
        eval_merge(ctx, jobs['merge'], res['merge'])
    if jobs.get('reindex'):
        eval_reindex(ctx, jobs['reindex'], res['reindex'])
    if jobs.get('edge'):
        eval_edge(ctx, jobs['edge'], res['edge'])
    if jobs.get('runs'):
        eval_runs(ctx, jobs['runs'], res['runs'])
        eval_transfers(ctx, *with_second(jobs['runs'], res['runs']))
    return res


def main(ctx):
    ctx.rule = ('(a) synthetic cell groups for merge_polyhedrons: clusters of pyramids/prisms glued face '
                'to face, node ids dense/sparse/large, faces rotated, cells and faces shuffled, IDS a '
                'shuffled subset; plus non-manifold streams (duplicated cell, mirrored cell, 2-gons, '
                'repeated node); non-trivial = at least two cells in IDS.  (b) whole compress runs on '
                'hex/tet/prism/pyramid bricks (1-4 cells per axis) under integer affine maps (identity, shear, 3x '
                'rotation, 3x reflection), dyadic scale, sparse/shuffled node ids, elem_num, cos_thresh, '
                'dist_thresh swept, length units down to 2^-36; non-trivial = compress returned a mesh with '
                'fewer cells.  (c) every '
                'transfer function x kind x data shape ((N,1),(N,),(N,3)) x knn on those runs; '
                'distinct = distinct (inputs, parameters)')
    ctx.trusted += [
        'hand model coq/C20/Model.v of merge_polyhedrons (one connected group), of the centroid volume '
        'kernel and of the transfer formulas; tied to /repo only by the correspondence check',
        'the 61-bit rolling hash of calc_face_hash is modelled as injective on (length, canonical '
        'rotation) (no collision)',
        'harness glue: decoding of the int-array polyhedron format, float -> exact rational '
        '(float.as_integer_ratio), grouping by elem_conv, classification of the run regime '
        '(exact rational dihedral cosines)',
        'one pass of remove_edges is modelled (ModelDriver.v / HarnessDriver.v: exact angle test, all-cells '
        'rule, key order) and tied by exact correspondence on the merged cells of the runs; the 10-pass loop, '
        'remove_vertices_2 / merge_vertices / '
        'shrink and the k-NN construction of the conversion matrices are NOT modelled (the per-cell step '
        'remove_one_edge with its edge-multiset / balance / coplanar-volume theorems, reindex and '
        'recalc_node_pos are): they are covered only by the '
        'verified-oracle TEST on whole runs (closed_b, uses_exactly_b, exact volume evaluated in Coq '
        'on the actual output)',
        'domain of the volume clause (harness glue, exact rationals): dist_thresh below the smallest node '
        'distance (no vertices may be merged) and cos_thresh above every non-flat dihedral cosine under '
        'remove_edges\' all-cells rule (only coplanar faces may be fused = hypothesis planar_at of '
        'C20_remove_one_edge_volume); outside it no volume claim is made',
    ]
    ctx.assumptions += ['arithmetic modelled as exact (reals); the implementation computes in binary64',
                        'inputs of the whole-run test are bricks with integer/dyadic coordinates so that '
                        'coplanarity and volumes are exact']
    proof_ok, log = ctx.build_props('C20/Props.v', extra_targets=['C20/Harness.vo', 'C20/HarnessDriver.vo'])
    if not proof_ok:
        ctx.notes['build_log_tail'] = log[-1500:]
    elif ctx.tier == 'thorough' and hasattr(ctx, 'coqchk'):
        ctx.coqchk('C20/Props.v')
    thorough = ctx.tier == 'thorough'
    jobs = {'merge': gen_merge_jobs(ctx, 400 if thorough else 120),
            'reindex': gen_reindex_jobs(ctx, 300 if thorough else 80),
            'edge': gen_edge_jobs(ctx, 400 if thorough else 100),
            'runs': gen_run_jobs(ctx, 60 if thorough else 8)}
    # corpus first
    corpus = sorted((lib.VERIF / 'corpus' / PID).glob('*.json')) if (lib.VERIF / 'corpus' / PID).exists() else []
    for cf in corpus:
        cj = json.loads(cf.read_text())
        for j in cj.get('merge', []):
            j = dict(j, id=len(jobs['merge']), kind=j.get('kind', 'corpus'))
            jobs['merge'].append(j)
    lib_ok = (lib.COQ / 'C20' / 'Harness.vo').exists() and (lib.COQ / 'C20' / 'HarnessDriver.vo').exists()
    if lib_ok:
        evaluate(ctx, jobs, 1500 if thorough else 480)
    else:
        ctx.violation('proof-broken', {}, 'coq/C20 builds', log[-800:], 'coq/C20/Harness.vo',
                      found_input=False, signature={'check': 'build', 'symptom': 'model does not compile'})
    if not proof_ok:
        bad = [o['name'] for o in ctx.obligations if not o['discharged']]
        ctx.violation('proof-broken', {}, 'all theorems of C20/Props.v check', 'do not check: ' + ', '.join(bad),
                      ', '.join(bad), found_input=False, signature={'check': 'proof', 'bad': bad})
    ctx.notes['labels'] = {
        'proof': 'C20_merge_* / C20_remove_one_edge_* / C20_angle_test_planar / C20_reindex_* / C20_mean_* / C20_sum_* / C20_*_b_iff '
                 '(Coq, all inputs)',
        'correspondence': 'merge_polyhedrons and merge_elements vs Model.merge; reindex/recalc_node_pos vs '
                          'ModelReindex; one pass of remove_edges vs HarnessDriver.driver_pass (exact); '
                          'remove_one_edge_from_polyhedron vs ModelEdge (exact; synthetic cells and '
                          'merged cells of the runs, there with planar_b / volQ instances of '
                          'C20_remove_one_edge_volume); transfer results vs '
                          'Model.mean_tr / sum_tr / sum_tr_broadcast (evaluated in Coq)',
        'test_with_verified_oracle': 'whole compress runs: closed_b, uses_exactly_b, conn_ok_b, volQ '
                                     'evaluated in Coq on the actual output (not a proof)'}
    return ctx.finish()


def replay(path):
    rp = json.loads(Path(path).read_text())
    jobs = rp.get('case', {}).get('jobs')
    if not jobs:
        print('nothing to replay on the implementation:', json.dumps(rp, indent=1)[:2000])
        return 1
    ctx = lib.Ctx(PID, 'quick')
    lib.coq_make(['C20/Harness.vo', 'C20/HarnessDriver.vo'])
    jobs = {'merge': jobs.get('merge', []), 'runs': jobs.get('runs', []),
            'reindex': jobs.get('reindex', []), 'edge': jobs.get('edge', [])}
    for k in jobs:
        for i, j in enumerate(jobs[k]):
            j['id'] = i
    res = evaluate(ctx, jobs, 600)
    if res is not None:
        for r in res['merge']:
            print('implementation merge_polyhedrons:', json.dumps(r)[:1500])
        for r in res['runs']:
            print('implementation run:', json.dumps({k: v for k, v in r.items()
                                                     if k in ('ok', 'error', 'transfers', 'secs')})[:3000])
    print('whole-run oracle:', json.dumps(ctx.notes.get('whole_run_oracle_results'), default=str))
    n = len(ctx.violations) + len(ctx.known)
    print('property', 'VIOLATED' if n else 'holds', 'on this input (%d new, %d known)' %
          (len(ctx.violations), len(ctx.known)))
    return 1 if n else 0


if __name__ == '__main__':
    if len(sys.argv) > 2 and sys.argv[1] == 'replay':
        sys.exit(replay(sys.argv[2]))
    sys.exit(main(lib.Ctx(PID, sys.argv[1] if len(sys.argv) > 1 else 'quick')))
