"""C17 — tensor helpers are mutually inverse and reconstruct their input."""
import itertools
import json
import subprocess
import sys
import threading
from fractions import Fraction as Fr
from pathlib import Path

sys.path.insert(0, str(Path(__file__).resolve().parent))
sys.path.insert(0, str(Path(__file__).resolve().parent.parent / 'translate'))
import lib  # noqa
import c17_tensor  # noqa
import c17_align  # noqa

PID = 'C17'
LTE_BINDING = (False, False)     # (g2l, l2g) rows bound by id? set from the translation
TOL = Fr(1, 2 ** 40)
TOL32 = Fr(1, 2 ** 16)          # float32 inputs: eigh/matmul run in single precision
CANON = [0, 1, 2, 3, 4, 5]          # [11, 22, 33, 12, 23, 31]


# ------------------------------------------------------------------ literals
def q(fr):
    fr = Fr(fr)
    return lib.coq_Q(fr)


def qv(v):
    return lib.coq_list([q(x) for x in v])


def qm(m):
    return lib.coq_list([qv(r) for r in m])


def nl(xs):
    return lib.coq_list([str(int(x)) for x in xs]) + '%nat'


def onl(xs):
    return 'None' if xs is None else f'(Some {nl(xs)})'


def frs(x):
    """[num, den] from the child -> Fraction (None for nan/inf)"""
    if x[0] == 'nan':
        return None
    return Fr(int(x[0]), int(x[1]))


def frv(v):
    return [frs(x) for x in v]


def frm(m):
    return [frv(r) for r in m]


def pair(fr):
    fr = Fr(fr)
    return [fr.numerator, fr.denominator]


# ------------------------------------------------------------- case streams
def dyadic(rng, kind='mid'):
    if kind == 'small':
        return Fr(rng.randint(-64, 64), 64)
    if kind == 'mix':
        k = rng.choice(['mid', 'mid', 'zero', 'big', 'tiny', 'int'])
    else:
        k = kind
    if k == 'zero':
        return Fr(0)
    if k == 'big':
        return Fr(rng.randint(-2 ** 20, 2 ** 20) * 2 ** 20)
    if k == 'tiny':
        return Fr(rng.randint(-1000, 1000), 2 ** 40)
    if k == 'int':
        return Fr(rng.randint(-50, 50))
    return Fr(rng.randint(-4096, 4096), 2 ** rng.randint(0, 10))


INT_ROT = [
    [[1, 0, 0], [0, 1, 0], [0, 0, 1]],
    [[1, 2, 2], [2, 1, -2], [2, -2, 1]],        # M^T M = 9 I
    [[2, 3, 6], [3, -6, 2], [6, 2, -3]],        # M^T M = 49 I
    [[0, 1, 0], [0, 0, 1], [1, 0, 0]],
    [[1, 4, 8], [4, 7, -4], [8, -4, 1]],        # M^T M = 81 I
]


def sym_from_eigs(M, lam):
    """M diag(lam) M^T / (M^T M scale): exact rational symmetric matrix with the
    given eigenvalues (columns of M are orthogonal with equal norms)"""
    s = sum(M[i][0] ** 2 for i in range(3))
    return [[sum(Fr(M[i][k]) * lam[k] * M[j][k] for k in range(3)) / s for j in range(3)]
            for i in range(3)]


def array_from_matrix(A, eng, order):
    """the caller's six-component row whose a2m (with eng/order) is A"""
    canon = [A[0][0], A[1][1], A[2][2], A[0][1], A[1][2], A[0][2]]
    if eng:
        canon = canon[:3] + [2 * x for x in canon[3:]]
    if order is None:
        return canon
    a = [None] * 6
    for k, o in enumerate(order):
        a[o] = canon[k]
    return a


def tensor_menu(rng):
    """(label, eigenvalues) with repeated / zero / near-singular spectra"""
    e = lambda: Fr(rng.randint(-40, 40) * 81 * 49, 1) / rng.choice([1, 2, 4, 8])   # noqa
    x, y, z = e(), e(), e()
    return [
        ('distinct', [x, y, z]),
        ('double', [x, x, z]),
        ('double-top', [x, z, z]),
        ('triple', [x, x, x]),
        ('zero', [Fr(0), Fr(0), Fr(0)]),
        ('rank1', [Fr(0), Fr(0), x]),
        ('near-singular', [Fr(81 * 49, 2 ** 30), y, z]),
        ('tiny-gap', [x, x + Fr(81 * 49, 2 ** 26), z]),
        ('indefinite', [-abs(x) - 81 * 49, Fr(0), abs(z) + 81 * 49]),
    ]


def gen_cases(ctx):
    rng = ctx.rng
    thorough = ctx.tier == 'thorough'
    cases = []

    def add(c):
        c['id'] = len(cases)
        cases.append(c)
    # --- sym: every order x both conventions (exhaustive)
    nrow = 3 if thorough else 1
    for order in itertools.permutations(range(6)):
        for eng in (False, True):
            rows = [[dyadic(rng, 'mix') for _ in range(6)] for _ in range(nrow)]
            add({'kind': 'sym', 'a': [[pair(x) for x in r] for r in rows], 'order': list(order),
                 'eng': eng})
    for eng in (False, True):
        for n in (1, 2, 5):
            rows = [[dyadic(rng, 'mix') for _ in range(6)] for _ in range(n)]
            add({'kind': 'sym', 'a': [[pair(x) for x in r] for r in rows], 'order': None, 'eng': eng})
        order = rng.sample(range(6), 6)
        rows = [[dyadic(rng, 'mix') for _ in range(6)] for _ in range(2)]
        add({'kind': 'sym', 'a': [[pair(x) for x in r] for r in rows], 'order': order, 'eng': eng,
             'order_as': 'ndarray'})
    # dtypes (float32 / int64 / int32), falsy and truthy non-bool flag values, a big batch
    for _ in range(120 if thorough or getattr(ctx, 'widened', False) else 24):
        dt = rng.choice(['float32', 'int64', 'int32', 'float64'])
        eng = rng.random() < 0.6
        if dt.startswith('int'):
            rows = [[Fr(rng.randint(-50, 50)) for _ in range(6)] for _ in range(rng.randint(1, 3))]
        else:
            rows = [[Fr(rng.randint(-4096, 4096), 2 ** rng.randint(0, 8)) for _ in range(6)]
                    for _ in range(rng.randint(1, 3))]
        ev = rng.choice([True, 1, 'np.True_']) if eng else rng.choice([False, None, 0, 'np.False_'])
        add({'kind': 'sym', 'a': [[pair(x) for x in r] for r in rows],
             'order': rng.choice([None, rng.sample(range(6), 6)]), 'eng': eng, 'eng_value': ev,
             'dtype': dt})
    for _ in range(4 if thorough else 1):
        rows = [[Fr(rng.randint(-4096, 4096), 8) for _ in range(6)] for _ in range(7)]
        add({'kind': 'sym', 'a': [[pair(x) for x in r] for r in rows], 'order': rng.sample(range(6), 6),
             'eng': rng.random() < 0.5, 'tile': 10001})          # 70 007 rows (> 65 536)
    # --- principal components / reconstruction
    wide = getattr(ctx, 'widened', False)
    reps = 20 if thorough else 6 if wide else 1
    for _ in range(reps):
        for M in INT_ROT:
            for label, lam in tensor_menu(rng):
                eng = rng.random() < 0.5
                order = None if rng.random() < 0.4 else rng.sample(range(6), 6)
                A = sym_from_eigs(M, lam)
                a = array_from_matrix(A, eng, order)
                c_ = {'kind': 'pc', 'order': order, 'eng': eng, 'label': label}
                if rng.random() < 0.3:          # decimal length/stress scales: no longer dyadic
                    sc = Fr(rng.choice(['0.0001', '0.01', '0.3', '10', '1000', '123456.7']))
                    a = [Fr(float(x * sc)) for x in a]
                    c_['scale'] = str(sc)
                if rng.random() < 0.15:
                    c_['dtype'] = 'float32'
                    a = [Fr(float(__import__('numpy').float32(float(x)))) for x in a]
                c_['a'] = [[pair(x) for x in a]]
                add(c_)
    for _ in range(200 if thorough else 60 if wide else 8):      # random integer / dyadic symmetric tensors
        n = rng.randint(1, 3)
        rows = [[dyadic(rng, rng.choice(['mid', 'int', 'small'])) for _ in range(6)] for _ in range(n)]
        add({'kind': 'pc', 'a': [[pair(x) for x in r] for r in rows],
             'order': rng.choice([None, rng.sample(range(6), 6)]), 'eng': rng.random() < 0.5,
             'label': 'random'})
    # --- strain inversion (I + A well conditioned .. moderately ill conditioned)
    for _ in range(300 if thorough else 100 if wide else 14):
        kind = rng.choice(['small', 'small', 'spectrum', 'near'])
        eng = rng.random() < 0.5
        if kind == 'small':
            rows = [[Fr(rng.randint(-16, 16), 64) for _ in range(6)] for _ in range(rng.randint(1, 2))]
        else:
            M = rng.choice(INT_ROT)
            if kind == 'spectrum':
                lam = [Fr(rng.choice([-3, -2, 1, 2, 3, 0, 0]) * 81 * 49, rng.choice([1, 2, 4]))
                       for _ in range(3)]
            else:
                lam = [Fr(-1) + Fr(1, 2 ** rng.randint(6, 12)), Fr(0), Fr(rng.randint(0, 3))]
                lam = [l * 1 for l in lam]
            A = sym_from_eigs(M, lam)
            rows = [array_from_matrix(A, eng, None)]
            rows = [[Fr(float(x)) for x in r] for r in rows]   # round to binary64 if needed
        add({'kind': 'inv', 'a': [[pair(x) for x in r] for r in rows], 'eng': eng, 'label': kind})
    # --- thermal expansion global -> local -> global, PER ELEMENT ID
    def id_orders(n):
        mode = rng.choice(['sparse', 'sparse', 'large', 'dense', 'offset'])
        if mode == 'sparse':
            base = rng.sample(range(1, 50 * n + 5), n)
        elif mode == 'large':
            base = rng.sample(range(2 ** 31, 2 ** 31 + 100 * n), n - 1) + [rng.randint(1, 9)]
        elif mode == 'dense':
            base = list(range(1, n + 1))
        else:
            a0 = rng.randint(100, 10 ** 6)
            base = list(range(a0, a0 + n))

        def variant(ids):
            how = rng.choice(['sorted', 'reversed', 'shuffled', 'swap2', 'move1', 'interior'])
            ids = sorted(ids)
            if how == 'reversed':
                ids = ids[::-1]
            elif how == 'shuffled':
                rng.shuffle(ids)
            elif how == 'swap2' and n > 1:
                k = rng.randrange(n - 1)
                ids[k], ids[k + 1] = ids[k + 1], ids[k]
            elif how == 'move1' and n > 1:
                ids.insert(rng.randrange(n), ids.pop(rng.randrange(n)))
            elif how == 'interior' and n > 3:
                mid = ids[1:-1]
                rng.shuffle(mid)
                ids = [ids[0]] + mid + [ids[-1]]
            return ids, how
        return base, variant, mode
    for _ in range(200 if thorough else 120 if wide else 24):
        n = rng.randint(1, 6)
        rows = []
        for _r in range(n):
            u = rng.random()
            if u < 0.4:
                M = rng.choice(INT_ROT)
                label, lam = rng.choice(tensor_menu(rng))
                rows.append(array_from_matrix(sym_from_eigs(M, lam), True, None))
            elif u < 0.7:
                # ordinary physical scale (1/K): values ~1e-5, spread of the principal values
                # below 1e-5, principal axes rotated; decimal, hence not dyadic
                M = rng.choice(INT_ROT[1:])
                lam = [Fr(rng.randint(100, 250), 10 ** 7) for _ in range(3)]
                if rng.random() < 0.3:
                    lam[1] = lam[0]
                rows.append([Fr(float(x)) for x in array_from_matrix(sym_from_eigs(M, lam), True, None)])
            else:
                rows.append([dyadic(rng, rng.choice(['mid', 'int'])) for _ in range(6)])
        base, variant, mode = id_orders(n)
        eids, how_e = variant(base)
        if rng.random() < 0.4:
            vids, how_v = list(eids), 'same-as-elements'
        else:
            vids, how_v = variant(base)
        c = {'kind': 'lte', 'a': [[pair(x) for x in r] for r in rows], 'ids': eids, 'var_ids': vids,
             'id_mode': mode, 'order_elements': how_e, 'order_variable': how_v,
             'name_in': rng.choice(['lte_full', 'linear_thermal_expansion_coefficient_full']),
             'pop': rng.random() < 0.7, 'repeat': rng.random() < 0.2}
        if rng.random() < 0.2:
            # local -> global only, `lte` and `orient` stored in their own (different) orders
            oids, how_o = variant(base)
            fr = INT_ROT[1]
            c.update({'l2g_only': True, 'orient_ids': oids, 'order_orient': how_o,
                      'lte': [[pair(Fr(rng.randint(-9, 9))) for _ in range(3)] for _ in vids],
                      'orient': [[pair(Fr(x, 3)) for x in
                                  [fr[0][p], fr[1][p], fr[2][p], fr[0][q_], fr[1][q_], fr[2][q_], 0, 0, 0]]
                                 for p, q_ in [rng.sample(range(3), 2) for _ in oids]]})
            # columns of M/3 are orthonormal; thirds are not dyadic -> rounded to binary64
            c['orient'] = [[pair(Fr(float(Fr(*x)))) for x in row] for row in c['orient']]
        add(c)
    # --- sparse alignment
    ext = getattr(ctx, 'align_extended', False)
    for _ in range(1000 if thorough or ext else 40):
        nr, nc = rng.randint(1, 5), rng.randint(1, 5)
        mats = []
        for _m in range(rng.randint(1, 5)):
            mode = rng.choice(['random', 'random', 'random', 'empty', 'full', 'nonneg', 'neg'])
            ent = []
            for i in range(nr):
                for j in range(nc):
                    p = {'empty': 0.0, 'full': 1.0}.get(mode, 0.45)
                    if rng.random() < p:
                        v = Fr(rng.randint(-64, 64), 8)
                        if mode == 'nonneg':
                            v = abs(v)
                        if mode == 'neg':
                            v = -abs(v) - Fr(1, 8)
                        if rng.random() < 0.1:
                            v = Fr(0)            # explicitly stored zero
                        ent.append([i, j, pair(v)])
            rng.shuffle(ent)
            fmt = rng.choice(['csr', 'csr', 'coo', 'csr_unsorted'])
            if fmt in ('csr_unsorted', 'coo') and ent and rng.random() < 0.5:
                for e in rng.sample(ent, min(len(ent), rng.randint(1, 2))):   # duplicated entries
                    ent.insert(rng.randrange(len(ent) + 1),
                               [e[0], e[1], pair(Fr(rng.randint(-64, 64), 8))])
            mats.append({'format': fmt, 'entries': ent})
        add({'kind': 'align', 'shape': [nr, nc], 'mats': mats})
    # --- sparse alignment, malformed: one matrix of another shape (ValueError), the empty list
    for _ in range(40 if thorough or ext else 6):
        nr, nc = rng.randint(1, 4), rng.randint(1, 4)
        mats = []
        for _m in range(rng.randint(2, 4)):
            ent = [[i, j, pair(Fr(rng.randint(-9, 9), 2))] for i in range(nr) for j in range(nc)
                   if rng.random() < 0.4]
            mats.append({'format': rng.choice(['csr', 'coo']), 'entries': ent})
        k = rng.randrange(len(mats))
        other = rng.choice([[nr + 1, nc], [nr, nc + 1], [nr + 2, nc + 1], [nr + 1, nc + 2]])
        mats[k] = {'format': mats[k]['format'], 'shape': other,
                   'entries': [e for e in mats[k]['entries']]}
        add({'kind': 'align', 'shape': [nr, nc], 'mats': mats, 'expect_error': 'ValueError'})
    add({'kind': 'align', 'shape': [2, 2], 'mats': [], 'expect_error': 'IndexError'})
    # --- sparse alignment, huge SHAPES (n_row * n_col > 2^31; a handful of entries
    # near the corners and on both sides of the 2^31 / 2^32 flat-key boundaries)
    for _ in range(40 if thorough or ext else 6):
        if rng.random() < 0.6:
            n = rng.choice([46341, 60000, 65536, 70001])
            nr, nc = n, n
        else:
            nr, nc = rng.choice([(3, 3 * 10 ** 9), (5, 2 ** 31 + 11), (100000, 50000), (40000, 2 ** 17 + 1)])
        special_rows = sorted({0, 1, nr - 1, nr - 2, min(nr - 1, (2 ** 31) // nc),
                               min(nr - 1, (2 ** 31) // nc + 1), min(nr - 1, (2 ** 32) // nc),
                               min(nr - 1, (2 ** 32) // nc + 1), rng.randrange(nr)})
        special_cols = sorted({0, 1, nc - 1, nc - 2, (2 ** 31) % nc, min(nc - 1, (2 ** 31) % nc + 1),
                               rng.randrange(nc), min(nc - 1, 2 ** 31 - 1), min(nc - 1, 2 ** 31)})
        mats = []
        for _m in range(rng.randint(2, 4)):
            ent, seen = [], set()
            for _e in range(rng.randint(2, 7)):
                i, j = rng.choice(special_rows), rng.choice(special_cols)
                if (i, j) in seen:
                    continue
                seen.add((i, j))
                ent.append([i, j, pair(Fr(rng.randint(-64, 64), 8))])
            # (scipy's csr+csr for NON-canonical operands allocates O(n_col) workspace:
            #  unsorted storage only where n_col is moderate)
            fmts = ['csr', 'coo', 'csr_unsorted'] if nc <= 2 ** 20 else ['csr', 'coo']
            mats.append({'format': rng.choice(fmts), 'entries': ent})
        add({'kind': 'align', 'shape': [nr, nc], 'mats': mats, 'huge_shape': True})
    # --- sparse alignment, bit-exact stream: entries spanning many binades
    # relative to the dummy scale (tiny entries next to large negative ones)
    for _ in range(300 if thorough or ext else 30):
        nr, nc = rng.randint(1, 4), rng.randint(2, 5)
        big = Fr(rng.randint(1, 2 ** 20)) * Fr(2) ** rng.randint(-4, 40)
        mats = []
        for _m in range(rng.randint(1, 3)):
            ent = []
            for i in range(nr):
                for j in range(nc):
                    if rng.random() < 0.6:
                        kind = rng.choice(['tiny', 'tiny', 'mid', 'bigneg', 'odd'])
                        if kind == 'tiny':
                            v = Fr(rng.randint(-2 ** 30, 2 ** 30)) * Fr(2) ** rng.randint(-90, -40)
                        elif kind == 'mid':
                            v = Fr(rng.randint(-999, 999), 2 ** rng.randint(0, 12))
                        elif kind == 'bigneg':
                            v = -big * rng.randint(1, 3)
                        else:
                            v = Fr(float(Fr(rng.randint(-10 ** 6, 10 ** 6), rng.randint(1, 10 ** 6))))
                        ent.append([i, j, pair(v)])
            mats.append({'format': rng.choice(['csr', 'coo', 'csr_unsorted']), 'entries': ent})
        if not any(m['entries'] for m in mats):
            mats[0]['entries'].append([0, 0, pair(Fr(1, 2 ** 60))])
            mats[0]['entries'].append([0, 1, pair(-big)])
        add({'kind': 'align', 'shape': [nr, nc], 'mats': mats, 'exact_stream': True})
    # --- sparse alignment, data dtypes (int32 / int64 / float32 / float64 data, small integer
    # values: exactly representable in every dtype); drawn last so that the streams above are unchanged
    for _ in range(60 if thorough or ext else 8):
        nr, nc = rng.randint(1, 4), rng.randint(1, 4)
        mats = []
        for _m in range(rng.randint(1, 3)):
            ent = [[i, j, pair(Fr(rng.randint(-99, 99)))] for i in range(nr) for j in range(nc)
                   if rng.random() < 0.5]
            mats.append({'format': rng.choice(['csr', 'coo', 'csr_unsorted']), 'entries': ent,
                         'data_dtype': rng.choice(['int32', 'int64', 'float32', 'float64'])})
        add({'kind': 'align', 'shape': [nr, nc], 'mats': mats, 'dtype_stream': True})
    return cases


# --------------------------------------------------------------- impl runner
def run_impl(ctx, cases, tag='cases'):
    spec_path = ctx.scratch / f'impl_{tag}.json'
    out_path = ctx.scratch / f'impl_{tag}_out.json'
    spec_path.write_text(json.dumps({'out': str(out_path), 'cases': cases}))
    r = subprocess.run([lib.PY, str(lib.VERIF / 'harness' / 'c17_impl.py'), str(spec_path)],
                       text=True, capture_output=True, env=lib.impl_env(), timeout=1200)
    if r.returncode != 0:
        raise RuntimeError('impl runner failed: ' + r.stderr[-2000:])
    return {x['id']: x for x in json.loads(out_path.read_text())}


# ------------------------------------------------------ oracle (exact, Python)
def mat3_from_dirs(d):
    return [[d[3 * k + i] for k in range(3)] for i in range(3)]      # column k = d[3k:3k+3]


def det3(m):
    return (m[0][0] * (m[1][1] * m[2][2] - m[1][2] * m[2][1])
            - m[0][1] * (m[1][0] * m[2][2] - m[1][2] * m[2][0])
            + m[0][2] * (m[1][0] * m[2][1] - m[1][1] * m[2][0]))


def canon_of(a, eng, order):
    b = [a[o] for o in (order if order is not None else CANON)]
    return b


def scale_of(vals):
    return max([Fr(1)] + [abs(x) for x in vals if x is not None])


def oracle(c, r):
    """the property itself on the implementation's results; list of (what, detail)"""
    bad = []
    if c.get('expect_error'):
        if 'error' in r and r['error'].startswith(c['expect_error']):
            return []
        return [('no-' + c['expect_error'], r.get('error', 'returned a value'))]
    if 'error' in r:
        return [('raised', r['error'])]
    k = c['kind']
    if k == 'sym':
        a = frm(r['a_head']) if c.get('tile') else [[Fr(*x) for x in row] for row in c['a']]
        n_rows = len(c['a']) * c.get('tile', 1)
        b = frm(r['b'])
        if not r['a_unchanged']:
            bad.append(('caller-array-modified', 'convert_array2symmetric_matrix'))
        if not r['m_unchanged']:
            bad.append(('caller-array-modified', 'convert_symmetric_matrix2array'))
        if not r.get('same_call_twice', True):
            bad.append(('same-call-twice-differs', ''))
        if r['m_shape'] != [n_rows, 3, 3] or r['b_shape'] != [n_rows, 6]:
            bad.append(('shape', [r['m_shape'], r['b_shape']]))
        elif b != a or not r.get('all_rows_roundtrip', True):
            if c.get('dtype', 'float64').startswith('int') and c['eng']:
                bad.append(('integer-dtype-engineering-truncation',
                            {'a': [float(x) for x in a[0]], 'b': [float(x) for x in b[0]],
                             'matrix_dtype': r.get('m_dtype')}))
            else:
                bad.append(('round-trip', 'm2a(a2m(a, order), inverse order) != a'))
        m = r['m']
        if any(frs(mm[i][j]) != frs(mm[j][i]) for mm in m for i in range(3) for j in range(3)) or \
                not r.get('all_rows_symmetric', True):
            bad.append(('not-symmetric', ''))
        if not r['m_again_equal']:
            bad.append(('round-trip-matrix', 'a2m(m2a(M)) != M'))
    elif k == 'pc':
        if not r['a_unchanged'] or not r['eig_unchanged']:
            bad.append(('caller-array-modified', 'calculate_principal_components/from_eigens'))
        if not r.get('same_call_twice', True):
            bad.append(('same-call-twice-differs', ''))
        T_ = TOL32 if c.get('dtype') == 'float32' else TOL
        for row, vals, dirs, vecs, reb in zip(c['a'], r['vals'], r['dirs'], r['vecs'], r['rebuilt']):
            a = [Fr(*x) for x in row]
            vals, dirs, vecs, reb = frv(vals), frv(dirs), frv(vecs), frv(reb)
            if None in vals + dirs + vecs + reb:
                bad.append(('nan', ''))
                continue
            sc = scale_of(a)
            tol = T_ * sc
            if not (vals[0] >= vals[1] >= vals[2]):
                bad.append(('not-descending', [str(float(v)) for v in vals]))
            D = mat3_from_dirs(dirs)
            for p in range(3):
                for q_ in range(3):
                    g = sum(D[i][p] * D[i][q_] for i in range(3))
                    if abs(g - (1 if p == q_ else 0)) > T_:
                        bad.append(('not-orthonormal', [p, q_, str(float(g))]))
            if abs(det3(D) - 1) > T_:
                bad.append(('not-right-handed', str(float(det3(D)))))
            want = canon_of(a, c['eng'], c['order'])
            if any(abs(x - y) > tol for x, y in zip(reb, want)):
                bad.append(('rebuild', [str(float(x - y)) for x, y in zip(reb, want)]))
            if any(abs(vecs[3 * kk + i] - vals[kk] * dirs[3 * kk + i]) > tol
                   for kk in range(3) for i in range(3)):
                bad.append(('vectors', ''))
    elif k == 'inv':
        if not r['a_unchanged'] or not r['b_unchanged']:
            bad.append(('caller-array-modified', 'invert_strain'))
        for i, (row, cc) in enumerate(zip(c['a'], r['c'])):
            a = [Fr(*x) for x in row]
            cc = frv(cc)
            if None in cc:
                bad.append(('nan', ''))
                continue
            tol = TOL * inv_amplification(r, i)
            if any(abs(x - y) > tol for x, y in zip(cc, a)):
                bad.append(('involution', [str(float(x - y)) for x, y in zip(cc, a)]))
    elif k == 'lte':
        if not r['a_unchanged'] or not r['local_unchanged']:
            bad.append(('caller-array-modified', 'convert_lte_*'))
        vids = c.get('var_ids', c['ids'])
        final = by_id(r['lte_full'])
        lte_id, orient_id = by_id(r['lte']), by_id(r['orient'])
        if any(None in row for t in (final, lte_id, orient_id) for row in t.values()):
            return bad + [('nan', '')]
        eids = r['element_ids']

        def close(x, y, ref):
            tol = TOL * scale_of(ref) * 4
            return x is not None and y is not None and all(abs(p_ - q_) <= tol for p_, q_ in zip(x, y))
        if c.get('l2g_only'):
            lin = {i: [Fr(*x) for x in row] for i, row in zip(vids, c['lte'])}
            oin = {i: [Fr(*x) for x in row] for i, row in zip(c['orient_ids'], c['orient'])}
            ok = all(close(final.get(i), l2g_exact(lin[i], oin[i]), l2g_exact(lin[i], oin[i])) for i in vids)
            if not ok:
                # is it exactly what positional attachment predicts?
                lrows = [[Fr(*x) for x in row] for row in c['lte']]
                orows = [[Fr(*x) for x in row] for row in c['orient']]
                pos = (vids != eids or c['orient_ids'] != vids) and all(
                    close(final.get(eids[kk]), l2g_exact(lrows[kk], orows[kk]), l2g_exact(lrows[kk], orows[kk]))
                    for kk in range(len(vids)))
                bad.append(('lte-local2global-per-element:' +
                            ('rows-attached-positionally' if pos else 'values'), {}))
        else:
            inp = {i: [Fr(*x) for x in row] for i, row in zip(vids, c['a'])}
            rows = [[Fr(*x) for x in row] for row in c['a']]
            ok_local = all(i in lte_id and i in orient_id and
                           close(l2g_exact(lte_id[i], orient_id[i]), inp[i], inp[i]) for i in vids)
            ok_final = all(close(final.get(i), inp[i], inp[i]) for i in vids)
            if not (ok_local and ok_final):
                pos = vids != eids and all(
                    eids[kk] in lte_id and eids[kk] in orient_id and
                    close(l2g_exact(lte_id[eids[kk]], orient_id[eids[kk]]), rows[kk], rows[kk]) and
                    close(final.get(eids[kk]), rows[kk], rows[kk]) for kk in range(len(vids)))
                which = 'lte-local-values-per-element' if not ok_local else 'lte-round-trip-per-element'
                bad.append((which + ':' + ('rows-attached-positionally' if pos else 'values'), {}))
    elif k == 'align':
        if not r['inputs_unchanged']:
            bad.append(('caller-array-modified', 'align_nnz'))
        union = set()
        for m in c['mats']:
            union |= {(e[0], e[1]) for e in m['entries']}
        for m, o in zip(c['mats'], r['out']):
            dense_in = {}
            for e in m['entries']:
                dense_in[(e[0], e[1])] = dense_in.get((e[0], e[1]), Fr(0)) + Fr(*e[2])
            keys = [(e[0], e[1]) for e in o['entries']]
            if set(keys) != union or len(keys) != len(union) or not o['same_structure_as_first']:
                bad.append(('pattern-not-union', ''))
            bound = align_rounding_bound(c)
            for e in o['entries']:
                v = frs(e[2])
                w = dense_in.get((e[0], e[1]), Fr(0))
                if v is None or v != w:
                    if v is not None and set(keys) == union and abs(v - w) <= bound:
                        bad.append(('dummy-scale-absorption',
                                       {'entry': [e[0], e[1]], 'stored': float(w).hex(),
                                        'returned': float(v).hex()}))
                    else:
                        bad.insert(0, ('value-changed', [e[0], e[1]]))
        if len(r['out']) != len(c['mats']):
            bad.append(('count', ''))
    return bad


def align_rounding_bound(c):
    """stated bound of the rounding of (s + n*D) - n*D in binary64:
    2^-52 * 2 * (n_matrices * D + max|v|), D = 2*|min| + 1"""
    vals = [Fr(*e[2]) for m in c['mats'] for e in m['entries']] + [Fr(0)]
    D = 2 * abs(min(vals)) + 1
    return Fr(1, 2 ** 51) * (len(c['mats']) * D + max(abs(v) for v in vals))


def by_id(attr):
    return {i: frv(row) for i, row in zip(attr['ids'], attr['rows'])}


def l2g_exact(w, o):
    """the tensor (engineering six-vector) of local values w and axes o[0:3], o[3:6], cross"""
    o0, o1 = o[0:3], o[3:6]
    o2 = [o0[1] * o1[2] - o0[2] * o1[1], o0[2] * o1[0] - o0[0] * o1[2], o0[0] * o1[1] - o0[1] * o1[0]]
    O = [o0, o1, o2]
    M = [[sum(w[k] * O[k][i] * O[k][j] for k in range(3)) for j in range(3)] for i in range(3)]
    return [M[0][0], M[1][1], M[2][2], 2 * M[0][1], 2 * M[1][2], 2 * M[0][2]]


def inv_amplification(r, i):
    """stated tolerance factor for 1/(1+lambda): (max(1, |1/(1+l)|, |1+l|))^2 * 16"""
    f = Fr(1)
    for lg in (r['eigh1'], r['eigh2']):
        for e in lg:
            for w in e['w'][i] if isinstance(e['w'][0][0], list) else e['w']:
                pass
    amp = Fr(1)
    for lg in (r['eigh1'], r['eigh2']):
        for e in lg:
            ws = frv(e['w'][i])
            for w in ws:
                if w is None or 1 + w == 0:
                    return Fr(2 ** 60)
                amp = max(amp, abs(1 / (1 + w)), abs(1 + w))
    return 16 * amp * amp


# ------------------------------------------------------- correspondence (Coq)
HEADER = ('From Coq Require Import List ZArith QArith Bool.\nImport ListNotations.\n'
          'From FV.C17 Require Import Model AlignEntry AlignDtype Corr.\nSet Printing Width 100000.\n')


def coq_items(c, r):
    """list of (sub-id, Coq bool expression) for one case"""
    k = c['kind']
    out = []
    if 'error' in r and k == 'align':
        e = {'ValueError': 'EValue', 'IndexError': 'EIndex'}.get(r['error'].split(':')[0])
        if e is None:
            return [('0', 'false')]
        return [('e', f'chk_align_entry {spm_list(c)} (inr {e})')]
    if 'error' in r:
        return [('0', 'false')]
    if k == 'sym':
        rows_ = r['a_head'] if c.get('tile') else c['a']
        for i, row in enumerate(rows_):
            a = frv(row) if c.get('tile') else [Fr(*x) for x in row]
            out.append((str(i), f"chk_sym {qv(a)} {onl(c['order'])} {onl(r.get('inv'))} "
                        f"{str(c['eng']).lower()} {qm(frm(r['m'][i]))} {qv(frv(r['b'][i]))}"))
    elif k == 'pc':
        e = r['eigh'][0] if len(r['eigh']) == 1 else None
        for i, row in enumerate(c['a']):
            a = [Fr(*x) for x in row]
            if e is None:
                out.append((str(i), 'false'))
                continue
            tol = (TOL32 if c.get('dtype') == 'float32' else TOL) * scale_of(a) * 4
            out.append((str(i), f"chk_pc {q(tol)} {qv(a)} {str(c['eng']).lower()} {onl(c['order'])} "
                        f"{qm(frm(e['m'][i]))} {qv(frv(e['w'][i]))} {qm(frm(e['v'][i]))} "
                        f"{qv(frv(r['vals'][i]))} {qv(frv(r['dirs'][i]))} {qv(frv(r['vecs'][i]))} "
                        f"{qm(frm(r['mats'][i]))} {qv(frv(r['rebuilt'][i]))}"))
    elif k == 'inv':
        for i, row in enumerate(c['a']):
            a = [Fr(*x) for x in row]
            if len(r['eigh1']) != 1 or len(r['eigh2']) != 1:
                out.append((str(i), 'false'))
                continue
            tol = TOL * inv_amplification(r, i)
            e = r['eigh1'][0]
            out.append((f'{i}a', f"chk_inv {q(tol)} {qv(a)} {str(c['eng']).lower()} "
                        f"{qm(frm(e['m'][i]))} {qv(frv(e['w'][i]))} {qm(frm(e['v'][i]))} "
                        f"{qv(frv(r['b'][i]))}"))
            e = r['eigh2'][0]
            out.append((f'{i}b', f"chk_inv {q(tol)} {qv(frv(r['b'][i]))} {str(c['eng']).lower()} "
                        f"{qm(frm(e['m'][i]))} {qv(frv(e['w'][i]))} {qm(frm(e['v'][i]))} "
                        f"{qv(frv(r['c'][i]))}"))
    elif k == 'lte':
        g_by_id, l_by_id = LTE_BINDING
        eids = r['element_ids']
        final, lte_id, orient_id = by_id(r['lte_full']), by_id(r['lte']), by_id(r['orient'])
        lte_ids, orient_rows = r['lte']['ids'], [frv(x) for x in r['orient']['rows']]
        if c.get('l2g_only'):
            for kk, i1 in enumerate(lte_ids):
                o = orient_id.get(i1) if l_by_id else (orient_rows[kk] if kk < len(orient_rows) else None)
                i2 = i1 if l_by_id else (eids[kk] if kk < len(eids) else None)
                if o is None or i2 not in final:
                    out.append((str(kk), 'false'))
                    continue
                tol = TOL * scale_of(final[i2]) * 4
                out.append((str(kk), f'chk_l2g {q(tol)} {qv(lte_id[i1])} {qv(o)} {qv(final[i2])}'))
            return out
        if len(r['eigh']) != 1 or r['eigh_after']:
            return [('0', 'false')]
        e = r['eigh'][0]
        before = r['full_before']
        for kk, row in enumerate(before['rows']):
            a = frv(row)
            i1 = before['ids'][kk] if g_by_id else eids[kk]
            if i1 not in lte_id or i1 not in lte_ids:
                out.append((str(kk), 'false'))
                continue
            k2 = lte_ids.index(i1)
            o = orient_id.get(i1) if l_by_id else orient_rows[k2]
            i2 = i1 if l_by_id else eids[k2]
            if o is None or i2 not in final:
                out.append((str(kk), 'false'))
                continue
            tol = TOL * scale_of(a) * 4
            out.append((str(kk), f"chk_lte {q(tol)} {qv(a)} {qm(frm(e['m'][kk]))} {qv(frv(e['w'][kk]))} "
                        f"{qm(frm(e['v'][kk]))} {qv(lte_id[i1])} {qv(o)} {qv(final[i2])}"))
    elif k == 'align':
        nr, nc = c['shape']

        def canon(entries):
            d = {}
            for e in entries:
                key = e[0] * nc + e[1]
                d[key] = d.get(key, Fr(0)) + Fr(*e[2])
            return lib.coq_list([f'({lib.coq_Z(k_)}, {q(v)})' for k_, v in sorted(d.items())])

        def stored(m):
            # what align_nnz's CSR branch receives: 'csr' canonical, 'coo' after
            # .tocsr() (sorted, duplicates summed), 'csr_unsorted' exactly as
            # stored: rows ascending, the given order (and duplicates) inside a row
            if m['format'] != 'csr_unsorted':
                return canon(m['entries'])
            ent = sorted(m['entries'], key=lambda e: e[0])      # stable
            return lib.coq_list([f'({lib.coq_Z(e[0] * nc + e[1])}, {q(Fr(*e[2]))})' for e in ent])

        def read_back(entries):
            return lib.coq_list([f'({lib.coq_Z(e[0] * nc + e[1])}, {q(frs(e[2]))})' for e in entries])
        ms = lib.coq_list([stored(m) for m in c['mats']])
        outs = lib.coq_list([read_back(o['entries']) for o in r['out']])
        out.append(('0', f'chk_align {ms} {outs}'))
        # the caller's level: format, shape and (row, col, value) entries as handed to femio;
        # the model computes the flat keys, .tocsr() and the union pattern itself
        def spm_out(o):
            ent = lib.coq_list([f'(({lib.coq_Z(e[0])}, {lib.coq_Z(e[1])}), {q(frs(e[2]))})'
                                for e in o['entries']])
            fm = 'CSR' if o['format'] == 'csr' else 'COO'
            return f"(mk_spm {fm} ({lib.coq_Z(o['shape'][0])}, {lib.coq_Z(o['shape'][1])}) {ent})"
        if all(None not in [frs(e[2]) for e in o['entries']] for o in r['out']):
            outs2 = lib.coq_list([spm_out(o) for o in r['out']])
            out.append(('e', f'chk_align_entry {spm_list(c)} (inl {outs2})'))
            if r['out']:
                out.append(('i', f'chk_align_idem {outs2}'))
            dn = {'int32': 'I32', 'int64': 'I64', 'float32': 'F32', 'float64': 'F64'}
            if all(o.get('data_dtype') in dn for o in r['out']):
                ins_d = lib.coq_list([dn[m.get('data_dtype', 'float64')] for m in c['mats']])
                outs_d = lib.coq_list([dn[o['data_dtype']] for o in r['out']])
                out.append(('d', f'chk_align_dtype {ins_d} {outs_d}'))
            else:
                out.append(('d', 'false'))
        else:
            out.append(('e', 'false'))
    return out


def spm_list(c):
    """the matrices of an align case as the implementation receives them: 'csr' = canonical
    storage ((row, col) order), 'csr_unsorted' = rows ascending, the given order (and the
    duplicates) inside a row, 'coo' = the triplets as given"""
    def one(m):
        ent = m['entries']
        if m['format'] == 'csr':
            ent = sorted(ent, key=lambda e: (e[0], e[1]))
        elif m['format'] == 'csr_unsorted':
            ent = sorted(ent, key=lambda e: e[0])        # stable
        sh = m.get('shape', c['shape'])
        el = lib.coq_list([f'(({lib.coq_Z(e[0])}, {lib.coq_Z(e[1])}), {q(Fr(*e[2]))})' for e in ent])
        fm = 'COO' if m['format'] == 'coo' else 'CSR'
        return f'(mk_spm {fm} ({lib.coq_Z(sh[0])}, {lib.coq_Z(sh[1])}) {el})'
    return lib.coq_list([one(m) for m in c['mats']])


def run_corr(ctx, cases, res):
    items = []
    for c in cases:
        for sub, e in coq_items(c, res[c['id']]):
            items.append((c['id'], sub, e))
    chunks = [items[i:i + 400] for i in range(0, len(items), 400)]
    failing = set()
    compile_fail = []
    lock = threading.Lock()

    def work(n, chunk):
        txt = [HEADER, 'Definition cases : list (nat * bool) := [']
        txt.append(';\n'.join(f'({cid}%nat, {e})' for cid, _, e in chunk) + '].')
        txt.append('Goal True. idtac "@@ failing". Abort.')
        txt.append('Eval vm_compute in map fst (filter (fun c => negb (snd c)) cases).')
        rc, out, err = ctx.coq_eval(f'Corr_{n}', '\n'.join(txt) + '\n', timeout=900)
        with lock:
            if rc != 0:
                compile_fail.append((n, err[-600:]))
                failing.update(cid for cid, _, _ in chunk)
            else:
                import re
                t = lib.parse_marked(out).get('failing', '').split(':')[0]
                failing.update(int(x) for x in re.findall(r'\d+', t))
    threads = [threading.Thread(target=work, args=(n, ch)) for n, ch in enumerate(chunks)]
    for i in range(0, len(threads), 8):
        for t in threads[i:i + 8]:
            t.start()
        for t in threads[i:i + 8]:
            t.join()
    return len(items), sorted(failing), compile_fail


# ------------------------------------ translator validation: constant evaluator
def validate_const_evaluator(ctx, n_modules=40):
    """Translator.load_consts / cval against Python itself: seeded synthetic modules of
    module-level assignments (tuples, lists, list()/tuple()/range()/slice()/np.array() of other
    names, negative numbers, names assigned twice, non-constant right-hand sides) are executed,
    and every value the evaluator claims must be the value Python computed (range -> tuple,
    ndarray -> list); a name assigned twice or from a non-constant must not be claimed."""
    import ast as _ast
    import random
    rng = random.Random(ctx.rng.randint(0, 2 ** 30))
    try:
        import numpy as np
    except ImportError:                       # pragma: no cover
        np = None
    checked, bad = 0, []

    def norm(x):
        """what the evaluator stands for: a range is its tuple, an int ndarray its list"""
        if isinstance(x, range):
            return tuple(x)
        if np is not None and isinstance(x, np.integer):
            return int(x)
        if np is not None and isinstance(x, np.ndarray):
            return [int(y) for y in x]
        if isinstance(x, tuple):
            return tuple(norm(y) for y in x)
        if isinstance(x, list):
            return [norm(y) for y in x]
        return x
    for k in range(n_modules):
        names, lines, nonconst = [], [], set()

        def atom():
            u = rng.random()
            if u < 0.5 or not names:
                return str(rng.randint(-3, 9))
            return rng.choice(names)
        for j in range(rng.randint(3, 9)):
            nm = f'_T{j}'
            u = rng.random()
            ints = ', '.join(str(rng.randint(0, 8)) for _ in range(rng.randint(1, 6)))
            seqs = [n for n in names if n not in nonconst and n.startswith('_T')]
            if u < 0.25:
                rhs = f'({ints},)'
            elif u < 0.4:
                rhs = f'[{ints}]'
            elif u < 0.5:
                rhs = f'range({rng.randint(0, 2)}, {rng.randint(3, 7)}' + \
                    (f', {rng.randint(1, 3)})' if rng.random() < 0.5 else ')')
            elif u < 0.6:
                rhs = f'(slice({rng.randint(0, 3)}, {rng.choice([3, 6, None])}), slice({rng.randint(3, 6)}, None))'
            elif u < 0.75 and seqs:
                rhs = f'{rng.choice(["list", "tuple"] + (["np.array"] if np else []))}({rng.choice(seqs)})'
            elif u < 0.85:
                rhs = f'({atom()}, -{rng.randint(1, 5)}, {atom()})'
            elif u < 0.93:
                rhs = rng.choice(['len("abc")', 'sorted([2, 1])', '[x for x in (1, 2)]', '{1: 2}', '"s"'])
                nonconst.add(nm)
            else:
                rhs = atom()
            lines.append(f'{nm} = {rhs}')
            names.append(nm)
        if rng.random() < 0.5 and names:
            twice = rng.choice(names)
            lines.append(f'{twice} = (7, 7)')
            nonconst.add(twice)
        src = 'import numpy as np\n' + '\n'.join(lines) + '\n' if np else '\n'.join(lines) + '\n'
        ns = {}
        try:
            exec(compile(src, f'<synthetic {k}>', 'exec'), ns)
        except Exception:                      # a generated module that does not run is skipped
            continue
        tr = c17_tensor.Translator({})
        tr.load_consts(_ast.parse(src))
        for nm, v in tr.consts.items():
            checked += 1
            real = norm(ns.get(nm))
            if sum(1 for l in lines if l.startswith(nm + ' =')) != 1:
                bad.append((src, nm, 'claimed although assigned twice', repr(real)))
            elif repr(v) != repr(real):
                bad.append((src, nm, repr(v), repr(real)))
    ctx.notes['translator_validation_const_evaluator'] = {'modules': n_modules, 'values_compared': checked,
                                                          'mismatches': len(bad)}
    for src, nm, v, real in bad[:2]:
        ctx.violation('tie-broken', {'synthetic_module': src, 'name': nm}, real, v,
                      'translator validation: Translator.cval = Python on synthetic modules',
                      found_input=True, signature={'kind': 'translator-validation', 'name': nm, 'claimed': v},
                      what='constant evaluator of translate/c17_tensor.py disagrees with Python')
    return checked, len(bad)


# -------------------------------------------------------------------- main
def sig_of(c, what):
    s = {'function': {'sym': 'convert_array2symmetric_matrix/convert_symmetric_matrix2array',
                      'pc': 'calculate_principal_components/calculate_array_from_eigens',
                      'inv': 'invert_strain', 'lte': 'convert_lte_global2local/local2global',
                      'align': 'align_nnz'}[c['kind']], 'what': what}
    if c['kind'] in ('sym', 'pc', 'inv'):
        s['eng'] = c['eng']
    if c['kind'] == 'sym':
        s['order'] = 'default' if c['order'] is None else ''.join(map(str, c['order']))
    if c['kind'] == 'sym' and what == 'integer-dtype-engineering-truncation':
        s = {'site': 'convert_array2symmetric_matrix', 'cause': 'integer dtype: shear / 2 truncated on assignment',
             'from_engineering': True}
    if c['kind'] == 'lte' and what.endswith(':rows-attached-positionally'):
        s = {'site': 'convert_lte_global2local/convert_lte_local2global',
             'cause': 'rows attached positionally to elements.ids', 'ids_order_differs': True}
    if c['kind'] == 'align' and what == 'dummy-scale-absorption':
        s = {'site': 'align_nnz', 'cause': 'dummy-scale absorption', 'exact_in_binary64': False}
    return s


def public_case(c):
    d = {k: v for k, v in c.items() if k != 'id'}
    return d


def main(ctx):
    ctx.rule = ('sym: all 720 component orders x both shear conventions (exhaustive) + default '
                'order + batches; pc/inv/lte: exact rational tensors with prescribed spectra '
                '(distinct, double, triple, zero, rank-1, near-singular, tiny gap) rotated by '
                'integer orthogonal frames, plus random dyadic tensors; align: random shapes, '
                '1-5 matrices, csr / non-canonical csr / coo (duplicated entries in the last two), '
                'empty/full/stored-zero/sign patterns, huge shapes, a bit-exact stream, a malformed '
                'stream (one matrix of another shape -> ValueError, the empty list -> IndexError).  A case is '
                'non-trivial when it has at least one non-zero component / stored entry; '
                'distinct = distinct (kind, inputs, options)')
    ctx.trusted += [
        'translator /verif/translate/c17_tensor.py (Python-ast -> Gallina, per batch item; signature '
        'table of parameter kinds; module-level constants evaluated, private helpers inlined) '
        'validated on every run by the correspondence; when it cannot read a region the committed '
        'baseline translation is the hand model and the correspondence is widened (notes: tie)',
        'translator /verif/translate/c17_align.py (key expression of align_nnz and five decisions, '
        'names resolved through closures / helpers) validated by the entry-level correspondence',
        'numpy.linalg.eigh (LAPACK): premise `eigh_ok` of the theorems; in the correspondence the '
        'model runs with the decomposition LAPACK returned to femio (exact rationals)',
        'hand model of align_nnz as of /repo 0213dd3 (Model.union_pattern, searchsorted, add_at, place; '
        'AlignEntry: formats, shape check, tocsr, union in (row, col) order, result construction), '
        'pinned by the exact correspondence at both levels incl. non-canonical CSR / COO inputs',
        'harness glue: float <-> exact rational (float.as_integer_ratio), construction of the scipy '
        'matrices from the entry lists and the storage order handed to the model (spm_list), '
        'monkey-patched eigh recorder (harness/c17_impl.py)',
    ]
    ctx.assumptions += [
        'floating point is modelled as exact real arithmetic (x/2*2, (s+D)-D, matmul): theorems '
        'over R; correspondence on dyadic inputs with tolerance 2^-40*scale where eigh/cross/'
        'matmul round, exact elsewhere',
        'inputs are float arrays of shape (n,6) / (n,3,3) (integer dtypes are outside the model)',
    ]
    # 1. translate
    tie_ok = True
    degraded = False          # T -> H: baseline model + widened correspondence
    baseline = (lib.COQ / PID / 'gen_baseline' / 'TensorIdx.v.txt').read_text()
    try:
        tr, consumed = c17_tensor.translate(str(lib.REPO))
        ctx.sources = consumed
        ctx.notes['translated_index_lists'] = tr.index_lists
        ctx.notes['mutated_caller_arrays'] = tr.mutated_caller
        global LTE_BINDING
        LTE_BINDING = tuple(c17_tensor.binding_by_id(tr.fn[m]) for m in c17_tensor.METHODS)
        ctx.notes['lte_rows_bound_by_id'] = dict(zip(c17_tensor.METHODS, LTE_BINDING))
        text = c17_tensor.emit(tr)
        lib.write_if_changed(lib.COQ / PID / 'gen' / 'TensorIdx.v', text)
        if tr.widenings:
            ctx.notes['translator_widenings'] = tr.widenings
        ctx.notes['translation_equals_baseline'] = (text == baseline)
    except (c17_tensor.TranslateError, SyntaxError, KeyError, AttributeError, TypeError,
            ValueError, IndexError, RecursionError) as e:
        # the translator cannot read the region: this alone is not a violation.  The last
        # translation of the registered tree (gen_baseline) becomes the HAND model, the theorems
        # are built against it and a widened correspondence + oracle decides
        degraded = True
        ctx.log('translator could not read the region; degrading T -> H:', e)
        ctx.notes['translator_error'] = f'{type(e).__name__}: {e}'
        lib.write_if_changed(lib.COQ / PID / 'gen' / 'TensorIdx.v', baseline)
        LTE_BINDING = tuple(f'Definition {m}_bound_by_id : bool := true.' in baseline
                            for m in c17_tensor.METHODS)
        ctx.notes['lte_rows_bound_by_id'] = dict(zip(c17_tensor.METHODS, LTE_BINDING))
        ctx.widened = True
    # 1a. align_nnz: the key expression and the decisions the entry-level model relies on (T)
    align_T = True
    align_base = (lib.COQ / PID / 'gen_baseline' / 'AlignCfg.v.txt').read_text()
    try:
        acfg, aconsumed = c17_align.translate(str(lib.REPO))
        ctx.sources.update(aconsumed)
        ctx.notes['align_nnz_translated'] = acfg
        lib.write_if_changed(lib.COQ / PID / 'gen' / 'AlignCfg.v', c17_align.emit(acfg))
    except (c17_align.TranslateError, SyntaxError, KeyError, AttributeError, TypeError, ValueError,
            IndexError, RecursionError) as e:
        align_T = False
        ctx.log('align_nnz translator could not read the function; degrading T -> H:', e)
        ctx.notes['align_translator_error'] = f'{type(e).__name__}: {e}'
        lib.write_if_changed(lib.COQ / PID / 'gen' / 'AlignCfg.v', align_base)
        acfg = None
    # 1b. the hand-written rest of the align_nnz model: body identical to the text it was written from?
    align_tie_ok, align_msg, align_sha = c17_tensor.check_align_nnz_body(str(lib.REPO))
    ctx.sources['functions.py:align_nnz'] = align_sha
    if not align_tie_ok:
        ctx.log('align_nnz tie:', align_msg)
        ctx.notes['align_nnz_tie'] = align_msg
    ctx.align_extended = (not align_tie_ok) or (not align_T) or \
        any(not acfg[f] for f in c17_align.FLAGS) or c17_align.emit(acfg) != align_base
    if not hasattr(ctx, 'widened'):
        ctx.widened = False
    # 2. proofs
    proof_ok = False
    corr_built = False
    if tie_ok:
        proof_ok, log = ctx.build_props(f'{PID}/Props.v', extra_targets=[f'{PID}/Corr.vo'])
        if degraded or not align_T:
            for o in ctx.obligations:
                o['note'] = ((o.get('note') or '') + ' checked against the BASELINE translation of ' +
                             ('the tensor helpers' if degraded else 'the align_nnz key/decisions') +
                             ' (hand model; tie = widened correspondence, see notes.tie)').strip()
        if not proof_ok:
            ctx.notes['build_log_tail'] = log[-2500:]
            ok2, log2, _ = lib.coq_make([f'{PID}/Corr.vo'])
            corr_built = ok2
            if not ok2:
                ctx.notes['model_build_log_tail'] = log2[-1500:]
        else:
            corr_built = True
    else:
        for n in lib.theorem_names(lib.COQ / PID / 'Props.v'):
            ctx.obligations.append({'name': n, 'discharged': False, 'assumptions': [],
                                    'note': 'translator failed closed'})
    # 3. cases: corpus first
    cases = []
    cdir = lib.VERIF / 'corpus' / PID
    if cdir.exists():
        for f in sorted(cdir.glob('*.json')):
            c = json.loads(f.read_text())
            c['id'] = len(cases)
            c['corpus'] = f.name
            cases.append(c)
    n_corpus = len(cases)
    for c in gen_cases(ctx):
        c['id'] = len(cases)
        cases.append(c)
    res = run_impl(ctx, cases)
    # 4. oracle on the implementation
    n_bad = 0
    per_what = {}
    known_whats = set()
    for c in cases:
        r = res[c['id']]
        ctx.count('kind:' + c['kind'])
        if c['kind'] in ('sym', 'pc', 'inv'):
            ctx.count('eng:%s' % c['eng'])
        if c['kind'] in ('pc', 'inv') and 'label' in c:
            ctx.count('spectrum:' + c['label'])
        if c['kind'] in ('sym', 'pc') and ('dtype' in c or 'eng_value' in c or 'tile' in c or 'scale' in c):
            ctx.count('dtype:' + c.get('dtype', 'float64'))
            if 'eng_value' in c:
                ctx.count('flag_spelling:' + repr(c['eng_value']))
            if 'tile' in c:
                ctx.count('batch_rows:%d' % (len(c['a']) * c['tile']))
            if 'scale' in c:
                ctx.count('decimal_scale:' + c['scale'])
        if c['kind'] == 'lte':
            ctx.count('lte_ids:' + c.get('id_mode', '?'))
            ctx.count('lte_order_elements:' + c.get('order_elements', '?'))
            ctx.count('lte_order_variable:' + c.get('order_variable', '?'))
            if c.get('l2g_only'):
                ctx.count('lte_l2g_only')
        if c['kind'] == 'align':
            ctx.count('align_n_matrices:%d' % len(c['mats']))
            ctx.count('align_stream:' + ('data-dtypes' if c.get('dtype_stream') else
                                         'bit-exact' if c.get('exact_stream') else
                                         'huge-shape' if c.get('huge_shape') else 'dyadic'))
        nontriv = any(x[0] != 0 for row in c.get('a', []) for x in row) or \
            any(m['entries'] for m in c.get('mats', []))
        ctx.case(public_case(c), nontrivial=nontriv,
                 sample={'case': public_case(c), 'impl': {k: v for k, v in r.items()
                                                         if k in ('b', 'vals', 'rebuilt', 'c', 'lte_full', 'error')}}
                 if c['id'] in (n_corpus, n_corpus + 1441, len(cases) - 1) else None)
        bad = oracle(c, r)
        for what, detail in bad[:1]:
            n_bad += 1
            per_what[(c['kind'], what)] = per_what.get((c['kind'], what), 0) + 1
            if (c['kind'], what) in known_whats:
                n_bad -= 1
                continue
            if per_what[(c['kind'], what)] > 3:     # same failure mode: first three inputs only
                continue
            is_known = ctx.violation('impl-violation', public_case(c),
                          'C17 holds on this input (round trip / sorted, orthonormal, right-handed, '
                          'rebuild / involution / aligned values / caller array untouched)',
                          {'what': what, 'detail': detail,
                           'impl': {k: v for k, v in r.items() if k not in ('id',)}},
                          'oracle on implementation (statement of C17)', found_input=True,
                          signature=sig_of(c, what), what=f'{c["kind"]}: {what}')
            if is_known:
                n_bad -= 1          # a listed finding is not the failing input of a NEW break
                known_whats.add((c['kind'], what))
    ctx.notes['search_evaluations'] = len(cases)
    ctx.notes['impl_property_failures'] = n_bad
    ctx.notes['impl_property_failures_by_kind'] = {f'{k}:{w}': n for (k, w), n in per_what.items()}
    # 5. correspondence
    corr_failing, corr_cfail = [], []
    if corr_built:
        n_items, failing, cfail = run_corr(ctx, cases, res)
        corr_failing, corr_cfail = failing, cfail
        ctx.corr = {'cases': len(cases), 'coq_comparisons': n_items, 'disagreements': len(failing),
                    'tolerance': 'exact for a2m/m2a, eigenvalues, kept directions, lte, orient, '
                                 'align_nnz (both streams, incl. the bit-exact one); '
                                 '2^-40 * 4 * max(1,|a|) for cross/matmul results; '
                                 '2^-40 * 16 * max(1,|1/(1+l)|,|1+l|)^2 for invert_strain'}
        if cfail:
            ctx.notes['corr_compile_failures'] = cfail
        reported = 0
        for cid in failing:
            c = cases[cid]
            if oracle(c, res[cid]):
                continue        # already reported with its failing input
            if reported >= 5:
                break
            reported += 1
            ctx.violation('correspondence', public_case(c),
                          'model (translated definitions evaluated in Coq over Q) = implementation',
                          {'impl': {k: v for k, v in res[cid].items() if k != 'id'}},
                          'correspondence C17 (Corr.chk_%s)' % c['kind'], found_input=False,
                          signature=dict(sig_of(c, 'correspondence')),
                          what='implementation result not reproduced by the model')
    # 5'. translator validation (constant evaluator against Python on synthetic modules);
    # placed after every other use of ctx.rng so that the case streams are what they were
    validate_const_evaluator(ctx)
    # informational probe: (s + D) - D in binary64 (modelled as exact; see notes)
    try:
        probe = {'id': 0, 'kind': 'align', 'shape': [1, 2], 'mats': [{'format': 'csr', 'entries': [
            [0, 0, pair(Fr(float(1e-20)))], [0, 1, pair(Fr(-1))]]}]}
        pr = run_impl(ctx, [probe], tag='probe')[0]
        ctx.notes['align_float_caveat_probe'] = {
            'input': '[[1e-20, -1.0]]',
            'output': [float(frs(e[2])) for e in pr['out'][0]['entries']] if 'out' in pr else pr,
            'note': 'binary64 absorbs entries below ulp(D)/2; the theorem is about exact arithmetic'}
    except Exception as e:      # noqa
        ctx.notes['align_float_caveat_probe'] = 'probe failed: ' + str(e)[:200]
    # 6. broken tie / proof without a failing input
    corr_clean = corr_built and not corr_failing and not corr_cfail
    ties = []
    if degraded:
        n_t = sum(1 for c in cases if c['kind'] != 'align')
        if corr_clean and n_bad == 0:
            ties.append('H (translator could not read the tensor helpers: %s; baseline model + widened '
                        'correspondence, %d cases)' % (ctx.notes.get('translator_error', '')[:160], n_t))
        elif not corr_built:
            ctx.violation('tie-broken', {'translator_error': ctx.notes.get('translator_error')},
                          'translator reads the tensor helpers, or the baseline model can be compared '
                          'with the implementation', 'neither: the correspondence could not be built',
                          'translator c17_tensor / correspondence', found_input=False,
                          signature={'kind': 'tie-broken'})
    else:
        ties.append('T (tensor helpers re-translated from the tree under test)')
    if align_T:
        ties.append('T (align_nnz: key expression `%s` and %d decisions re-translated)'
                    % (acfg['flat_key'], len(c17_align.FLAGS)))
    if not align_T:
        align_tie_ok = False
        align_msg = 'translator could not read align_nnz: ' + ctx.notes.get('align_translator_error', '')[:160]
    if not align_tie_ok:
        n_a = sum(1 for c in cases if c['kind'] == 'align')
        align_bad = any(k == 'align' and (k, _w) not in known_whats for (k, _w) in per_what)
        if corr_clean and not align_bad:
            # changed body => deeper search, not a violation
            ties.append('H (align_nnz: %s; hand model Model.align_nnz + widened correspondence, %d cases)'
                        % (align_msg, n_a))
        elif not corr_built and not align_bad:
            ctx.violation('tie-broken', {'function': 'align_nnz', 'message': align_msg},
                          'functions.align_nnz is the text Model.align_nnz was written from, or the '
                          'model can be compared with the implementation',
                          align_msg + '; the correspondence could not be built',
                          'tie of the hand model Model.align_nnz (C17_align_nnz_values)',
                          found_input=False, signature={'kind': 'tie-broken', 'function': 'align_nnz'})
    else:
        ties.append('H (align_nnz: body identical to the text the placement model was written from)')
    ctx.notes['tie'] = ties
    if tie_ok and not proof_ok and n_bad == 0:
        badn = [o['name'] for o in ctx.obligations if not o['discharged']]
        ctx.violation('proof-broken', {'log_tail': ctx.notes.get('build_log_tail', '')[-600:]},
                      'theorems of C17/Props.v check against the regenerated gen/TensorIdx.v',
                      'do not check', ', '.join(badn) or 'build', found_input=False,
                      signature={'kind': 'proof-broken'})
    if ctx.tier == 'thorough' and proof_ok:
        ctx.coqchk(f'{PID}/Props.v')
    ctx.exhaustive = False
    ctx.notes['exhaustive_part'] = 'all 720 orders x 2 shear conventions for the a2m/m2a round trip'
    return ctx.finish()


def replay(path):
    rp = json.loads(Path(path).read_text())
    c = rp['case']
    if 'kind' not in c:
        print('nothing to replay on the implementation:', json.dumps(rp, indent=1)[:2000])
        return 1
    ctx = lib.Ctx(PID, 'quick')
    c = dict(c)
    c['id'] = 0
    r = run_impl(ctx, [c], tag='replay')[0]
    print('implementation:', json.dumps(r)[:3000])
    bad = oracle(c, r)
    print('oracle:', bad)
    try:
        tr, _ = c17_tensor.translate(str(lib.REPO))
        lib.write_if_changed(lib.COQ / PID / 'gen' / 'TensorIdx.v', c17_tensor.emit(tr))
        ok, log, _ = lib.coq_make([f'{PID}/Corr.vo'])
        if ok:
            n, failing, cfail = run_corr(ctx, [c], {0: r})
            print('model (Coq) agrees with implementation:', not failing, cfail or '')
    except c17_tensor.TranslateError as e:
        print('translator failed closed:', e)
    print('property', 'VIOLATED' if bad else 'holds', 'on this input')
    return 1 if bad else 0


if __name__ == '__main__':
    if len(sys.argv) > 2 and sys.argv[1] == 'replay':
        sys.exit(replay(sys.argv[2]))
    tier = sys.argv[1] if len(sys.argv) > 1 else 'quick'
    sys.exit(main(lib.Ctx(PID, tier)))
