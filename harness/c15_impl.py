"""Child process of the C15 check: runs femio's spatial-gradient code.

stdin: JSON {out, meshes: {mid: {etype, node_ids, xyz, elem_ids, conn}},
             jobs: [{id, mesh, kind, ...}]}
kinds:
  volumes  -> calculate_element_volumes() of a fresh object
  matrices -> calculate_spatial_gradient_adjacency_matrices(**kw) of a fresh object
  conv     -> calculate_{nodal,elemental}_spatial_gradients(data, **kw) of a fresh object
  sequence -> ONE object, the calls of job['steps'] in order (each a 'matrices'
              or 'conv' call); one result per step
Every float is returned as float.hex() (exact).  Results go to the file `out`
(femio prints to stdout).  A FEMData object is never queried twice (the
lru_caches on the graph methods are never invalidated) except in a 'sequence'
job, whose purpose is to observe the same object across several calls."""
import contextlib
import io
import json
import sys
import traceback

import numpy as np


def main():
    spec = json.loads(sys.stdin.read())
    sink = io.StringIO()
    with contextlib.redirect_stdout(sink):
        import femio
        from femio import FEMData, FEMAttribute, FEMElementalAttribute

    def build(m):
        ids = np.array(m['node_ids'], dtype=np.int64)
        xyz = np.array(m['xyz'], dtype=float)
        eids = np.array(m['elem_ids'], dtype=np.int64)
        et = m['etype']
        if m.get('blocks'):
            d = {}
            for t, a, b in m['blocks']:
                if b > a:
                    d[t] = FEMAttribute(t, np.array(m['elem_ids'][a:b], dtype=np.int64),
                                        np.array(m['conn'][a:b], dtype=np.int64))
            return FEMData(nodes=FEMAttribute('NODE', ids, xyz),
                           elements=FEMElementalAttribute('ELEMENT', d))
        conn = np.array(m['conn'], dtype=np.int64)
        return FEMData(
            nodes=FEMAttribute('NODE', ids, xyz),
            elements=FEMElementalAttribute('ELEMENT', {et: FEMAttribute(et, eids, conn)}))

    def hx(a):
        return [float(x).hex() for x in np.asarray(a, dtype=float).ravel()]

    def coo(mats):
        out = []
        for A in mats:
            A = A.tocoo()
            out.append({'shape': list(A.shape), 'row': [int(x) for x in A.row],
                        'col': [int(x) for x in A.col], 'data': hx(A.data)})
        return out

    def call(fd, kind, kw, data, res):
        kw = dict(kw)
        if kind == 'matrices':
            mats = fd.calculate_spatial_gradient_adjacency_matrices(**kw)
            res['n_matrices'] = len(mats)
            res['matrices'] = coo(mats)
        elif kind == 'conv':
            arr = np.array(data, dtype=float)
            mode = kw.pop('mode')
            if mode == 'nodal':
                g = fd.calculate_nodal_spatial_gradients(arr, **kw)
            else:
                g = fd.calculate_elemental_spatial_gradients(arr, **kw)
            g = np.asarray(g)
            res['shape'] = list(g.shape)
            res['grad'] = hx(g)
        else:
            raise ValueError(kind)

    results = []
    for job in spec['jobs']:
        res = {'id': job['id']}
        try:
            with contextlib.redirect_stdout(sink):
                fd = build(spec['meshes'][job['mesh']])
                if job['kind'] == 'volumes':
                    v = fd.calculate_element_volumes()
                    res['shape'] = list(np.asarray(v).shape)
                    res['volumes'] = hx(v)
                    res['elem_ids'] = [int(x) for x in fd.elements.ids]
                elif job['kind'] == 'sequence':
                    res['steps'] = []
                    for st in job['steps']:
                        r = {}
                        try:
                            call(fd, st['kind'], st['kw'], st.get('data'), r)
                        except Exception as e:
                            r['error'] = type(e).__name__ + ': ' + str(e)[:300]
                        res['steps'].append(r)
                else:
                    call(fd, job['kind'], job.get('kw', {}), job.get('data'), res)
        except Exception as e:   # reported, compared with the model's rejection
            res['error'] = type(e).__name__ + ': ' + str(e)[:300]
            res['trace'] = traceback.format_exc()[-1500:]
        sink.seek(0)
        sink.truncate()
        results.append(res)
    with open(spec['out'], 'w') as f:
        json.dump(results, f)


if __name__ == '__main__':
    main()
