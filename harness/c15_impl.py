"""Child process of the C15 check: runs femio's spatial-gradient code.

stdin: JSON {out, meshes: {mid: {etype, node_ids, xyz, elem_ids, conn}},
             jobs: [{id, mesh, kind, ...}]}
kinds:
  volumes  -> calculate_element_volumes() of a fresh object
  matrices -> calculate_spatial_gradient_adjacency_matrices(**kw) of a fresh object
  conv     -> calculate_{nodal,elemental}_spatial_gradients(data, **kw) of a fresh object
  sequence -> ONE object, the calls of job['steps'] in order (each a 'matrices'
              or 'conv' call); one result per step
Every float is returned as float.hex() (exact).  Results go to the file `out`
(femio prints to stdout).  A FEMData object is never queried twice (the
lru_caches on the graph methods are never invalidated) except in a 'sequence'
job, whose purpose is to observe the same object across several calls."""
import contextlib
import io
import json
import sys
import traceback

import numpy as np


def main():
    spec = json.loads(sys.stdin.read())
    sink = io.StringIO()
    with contextlib.redirect_stdout(sink):
        import femio
        from femio import FEMData, FEMAttribute, FEMElementalAttribute

    def build(m):
        ids = np.array(m['node_ids'], dtype=np.int64)
        xyz = np.array(m['xyz'], dtype=float).astype(m.get('xyz_dtype') or 'float64')
        eids = np.array(m['elem_ids'], dtype=np.int64)
        et = m['etype']
        if m.get('blocks'):
            d = {}
            for t, a, b in m['blocks']:
                if b > a:
                    d[t] = FEMAttribute(t, np.array(m['elem_ids'][a:b], dtype=np.int64),
                                        np.array(m['conn'][a:b], dtype=np.int64))
            return FEMData(nodes=FEMAttribute('NODE', ids, xyz),
                           elements=FEMElementalAttribute('ELEMENT', d))
        conn = np.array(m['conn'], dtype=np.int64)
        return FEMData(
            nodes=FEMAttribute('NODE', ids, xyz),
            elements=FEMElementalAttribute('ELEMENT', {et: FEMAttribute(et, eids, conn)}))

    def hx(a):
        return [float(x).hex() for x in np.asarray(a, dtype=float).ravel()]

    def coo(mats):
        out = []
        for A in mats:
            A = A.tocoo()
            out.append({'shape': list(A.shape), 'row': [int(x) for x in A.row],
                        'col': [int(x) for x in A.col], 'data': hx(A.data)})
        return out

    def call(fd, kind, kw, data, res, falsy=None, data_dtype='float'):
        kw = dict(kw)
        if falsy:
            # boolean flags as falsy / truthy values that are not bool
            fv = {'none': None, 'zero': 0, 'npfalse': np.False_}[falsy]
            for name in ('moment_matrix', 'consider_volume', 'use_effective_volume'):
                if name in kw:
                    kw[name] = (np.True_ if falsy == 'npfalse' else 1) if kw[name] else fv
            kw['n_hop'] = np.int64(kw['n_hop'])
        if kind == 'matrices':
            mats = fd.calculate_spatial_gradient_adjacency_matrices(**kw)
            res['n_matrices'] = len(mats)
            res['matrices'] = coo(mats)
        elif kind == 'conv':
            arr = np.array(data, dtype={'float': float, 'int': np.int64, 'bool': bool}[data_dtype])
            mode = kw.pop('mode')
            if mode == 'nodal':
                g = fd.calculate_nodal_spatial_gradients(arr, **kw)
            else:
                g = fd.calculate_elemental_spatial_gradients(arr, **kw)
            g = np.asarray(g)
            res['shape'] = list(g.shape)
            res['grad'] = hx(g)
        else:
            raise ValueError(kind)

    def snapshot(fd):
        et = fd.elements.element_type
        # the coordinates the gradient code reads are nodal_data['NODE']
        # (calculate_spatial_gradient_adjacency_matrices, convert_nodal2elemental);
        # fem_data.nodes is reported next to it
        node_attr = fd.nodal_data.get_attribute_data('NODE')
        return {'etype': et, 'node_ids': [int(x) for x in fd.nodes.ids],
                'xyz': [[float(c).hex() for c in p] for p in np.asarray(node_attr, dtype=float)],
                'xyz_nodes': [[float(c).hex() for c in p] for p in np.asarray(fd.nodes.data, dtype=float)],
                'NODE_ids': [int(x) for x in fd.nodal_data['NODE'].ids],
                'elem_ids': [int(x) for x in fd.elements.ids],
                'conn': [[int(x) for x in e] for e in fd.elements.data]}

    def modify(fd, st):
        """in-place modifications of the mesh through femio's public interface;
        arrays are given keyed by id and laid out in the CURRENT storage order"""
        op = st['op']
        if op == 'set_nodes':            # fem_data.nodes.data = new array
            fd.nodes.data = np.array([st['by_id'][str(int(i))] for i in fd.nodes.ids], dtype=float)
        elif op == 'edit_nodes':         # nodes.data[...] = ... (same array, edited in place)
            arr = fd.nodes.data
            for k, i in enumerate(fd.nodes.ids):
                if str(int(i)) in st['by_id']:
                    arr[k] = st['by_id'][str(int(i))]
        elif op == 'set_conn_new':       # fem_data.elements.data = new array
            fd.elements.data = np.array([st['by_eid'][str(int(i))] for i in fd.elements.ids],
                                        dtype=np.int64)
        elif op == 'set_conn_same':      # conn = elements.data; conn[...] = ...; elements.data = conn
            conn = fd.elements.data
            for k, i in enumerate(fd.elements.ids):
                conn[k] = st['by_eid'][str(int(i))]
            fd.elements.data = conn
        elif op == 'remove_useless_nodes':
            fd.remove_useless_nodes()
        elif op == 'make_elements_positive':      # twice
            fd.make_elements_positive()
            fd.make_elements_positive()
        elif op == 'update_NODE':                 # update_data(..., allow_overwrite=True) on existing ids
            new = np.array([st['by_id'][str(int(i))] for i in fd.nodes.ids], dtype=float)
            fd.nodal_data.update_data(fd.nodes.ids, {'NODE': new}, allow_overwrite=True)
        else:
            raise ValueError(op)

    def other_call(fd, name, mode):
        """other public queries interleaved with the operator builds"""
        n = len(fd.nodes.ids)
        table = {
            'volumes': lambda: fd.calculate_element_volumes(),
            'metrics': lambda: fd.calculate_element_metrics(),
            'adj_node': lambda: fd.calculate_adjacency_matrix_node(),
            'adj_elem': lambda: fd.calculate_adjacency_matrix_element(),
            'n_hop_self': lambda: fd.calculate_n_hop_adj(mode=mode, n_hop=2, include_self_loop=True),
            'incidence': lambda: fd.calculate_incidence_matrix(),
            'grad_incidence': lambda: fd.calculate_spatial_gradient_incidence_matrix(
                mode='nodal', moment_matrix=True),
            'n2e': lambda: fd.convert_nodal2elemental('NODE', calc_average=True),
            'e2n': lambda: fd.convert_elemental2nodal(fd.calculate_element_volumes()),
            'laplacian': lambda: fd.calculate_laplacian_matrix(mode=mode),
            'edge_gradient': lambda: fd.calculate_edge_gradient_matrix(mode=mode),
            'surface_normals': lambda: fd.calculate_surface_normals(),
            # an exception in the middle of an operator build, followed by further builds
            'bad_kernel': lambda: fd.calculate_nodal_spatial_gradients(
                np.ones((n, 1)), kernel='no-such-kernel', moment_matrix=True),
        }
        table[name]()

    results = []
    for job in spec['jobs']:
        res = {'id': job['id']}
        try:
            with contextlib.redirect_stdout(sink):
                fd = build(spec['meshes'][job['mesh']])
                if job['kind'] == 'volumes':
                    v = fd.calculate_element_volumes()
                    res['shape'] = list(np.asarray(v).shape)
                    res['volumes'] = hx(v)
                    res['elem_ids'] = [int(x) for x in fd.elements.ids]
                elif job['kind'] == 'sequence':
                    res['steps'] = []
                    fds = [fd]
                    if job.get('mesh2'):
                        fds.append(build(spec['meshes'][job['mesh2']]))   # a second live object
                    for st in job['steps']:
                        r = {}
                        fd = fds[st.get('obj', 0)]
                        try:
                            if st['kind'] == 'call':
                                try:
                                    other_call(fd, st['name'], st.get('mode', 'nodal'))
                                except Exception as e:      # recorded, not judged
                                    r['call_error'] = type(e).__name__
                            elif st['kind'] == 'modify':
                                try:
                                    modify(fd, st)
                                except Exception as e:     # e.g. a read-only array: recorded, not judged
                                    r['modify_error'] = type(e).__name__ + ': ' + str(e)[:200]
                                r['snapshot'] = snapshot(fd)
                            else:
                                data = st.get('data')
                                if st.get('data_by_id') is not None:
                                    # data keyed by vertex id -> current storage order
                                    ids_now = fd.nodes.ids if st['kw']['mode'] == 'nodal' \
                                        else fd.elements.ids
                                    data = [st['data_by_id'][str(int(i))] for i in ids_now]
                                call(fd, st['kind'], st['kw'], data, r)
                                if st['kw'].get('consider_volume') and 'volume' in fd.elemental_data:
                                    # what the object itself holds as element volumes
                                    r['slot_volumes'] = hx(fd.elemental_data.get_attribute_data('volume'))
                                    r['slot_elem_ids'] = [int(x) for x in fd.elements.ids]
                        except Exception as e:
                            r['error'] = type(e).__name__ + ': ' + str(e)[:300]
                        res['steps'].append(r)
                else:
                    call(fd, job['kind'], job.get('kw', {}), job.get('data'), res,
                         falsy=job.get('falsy'), data_dtype=job.get('data_dtype', 'float'))
        except Exception as e:   # reported, compared with the model's rejection
            res['error'] = type(e).__name__ + ': ' + str(e)[:300]
            res['trace'] = traceback.format_exc()[-1500:]
        sink.seek(0)
        sink.truncate()
        results.append(res)
    with open(spec['out'], 'w') as f:
        json.dump(results, f)


if __name__ == '__main__':
    main()
