"""C05 — native npy cache: save/load exact, transparent, crash-safe."""
import json
import re
import subprocess
import sys
from pathlib import Path

sys.path.insert(0, str(Path(__file__).resolve().parent))
sys.path.insert(0, str(Path(__file__).resolve().parent.parent / 'translate'))
import lib  # noqa
import c05_effects  # noqa
import c05_keys  # noqa

COMPS = ['nodes', 'elements', 'nodal_data', 'elemental_data', 'constraints', 'settings']
COQ_COMP = ['CNodes', 'CElements', 'CNodal', 'CElemental', 'CConstraints', 'CSettings']
SRC_DIR = lib.VERIF / 'corpus' / 'C05' / 'src'
BASELINE = lib.VERIF / 'translate' / 'c05_baseline.json'
SOURCES = [('fistr', 'fistr_thermal'), ('fistr', 'fistr_cload'), ('ucd', 'ucd_mixture')]
N_SRC = len(SOURCES)

HEADER = ['From Coq Require Import String List ZArith. Import ListNotations.',
          'From FV.C05 Require Import Model.', 'From FV.C05.gen Require Import SaveCfg.',
          'Open Scope string_scope.', 'Set Printing Width 100000.', 'Set Printing Depth 100000.']


KHEADER = ['From Coq Require Import String List. Import ListNotations.',
           'From FV.C05 Require Import KeyModel.', 'From FV.C05.gen Require Import KeyCfg.',
           'Open Scope string_scope.', 'Set Printing Width 100000.', 'Set Printing Depth 100000.']


# ---------------------------------------------------------------- pool of objects
def pool_descs(ctx):
    r = ctx.rng
    return [
        # A: mixed tet+hex, everything present
        {'seed': r.randrange(10**6), 'types': ['tet', 'hex'], 'n_nodes': 14, 'n_per_type': 3,
         'id_mode': 'sparse', 'nodal': [['T', 1, 0], ['U', 3, 0]], 'elemental': [['E1', 1], ['S', 6]],
         'constraints': [['fix', 3]], 'settings': {'solution_type': 'HEAT', 'tag': 'abc', 'n': 5}},
        # B: hex only, no elemental data, no constraints
        {'seed': r.randrange(10**6), 'types': ['hex'], 'n_nodes': 12, 'n_per_type': 2,
         'id_mode': 'dense', 'nodal': [['T', 1, 0]], 'elemental': [], 'constraints': [],
         'settings': {'solution_type': 'NLSTATIC', 'tag': 'b'}},
        # C: polyhedra with ragged face data
        {'seed': r.randrange(10**6), 'types': ['polyhedron'], 'n_nodes': 10, 'n_per_type': 3,
         'id_mode': 'sparse', 'nodal': [], 'elemental': [['face', 0], ['vol', 1]], 'constraints': [],
         'settings': {'solution_type': 'HEAT', 'who': 'c'}},
        # D: shell, large ids, constraints but no elemental data
        {'seed': r.randrange(10**6), 'types': ['tri', 'quad'], 'n_nodes': 9, 'n_per_type': 2,
         'id_mode': 'large', 'nodal': [['p', 1, 0]], 'elemental': [], 'constraints': [['c', 1], ['q', 2]],
         'settings': {'solution_type': 'EIGEN', 'k': 2.5}},
    ]


def op_coq(op):
    k = op[0]
    b = lambda x: 'true' if x else 'false'  # noqa: E731
    if k == 'R':
        return f'(Read {b(op[1])})'
    if k in ('RC', 'RX'):          # RX: the k-th file effect raises instead of killing the process
        return f'(ReadCrash {b(op[1])} {op[2]})'
    if k in ('SX', 'SXM'):         # SXM: ... in the middle of writing the file
        return f'(SaveCrash o{op[1]} {b(op[2])} {op[3]})'
    if k == 'S':
        return f'(Save o{op[1]} {"true" if op[2] else "false"})'
    if k == 'SC':
        return f'(SaveCrash o{op[1]} {"true" if op[2] else "false"} {op[3]})'
    raise AssertionError(op)


def norm_ops(ops):
    """older corpus / replay files: ['R'] and ['RC', k] are full reads"""
    out = []
    for o in ops:
        if o[0] == 'R' and len(o) == 1:
            o = ['R', 0]
        elif o[0] == 'RC' and len(o) == 2:
            o = ['RC', 0, o[1]]
        out.append(list(o))
    return out


def snap_coq(s):
    return 'Snap ' + ' '.join('None' if x is None else f'(Some {lib.coq_Z(x)})' for x in s)


def content_coq(v):
    if v == 'B':
        return 'Blank'
    if v == 'C':
        return 'Data (-99)%Z'
    return f'Data {lib.coq_Z(v)}'


def result_coq(res):
    k = res[0]
    if k == 'N':
        return 'RNone'
    if k == 'P':
        return 'RParsed'
    if k == 'L':
        return f'(RLoaded (Some ({snap_coq(res[1])})))'
    if k == 'LE':
        return '(RLoaded None)'
    return None


def gen_histories(ctx, cfg, widen=False):
    """widen: the save / read region is a baseline hand model in this run (its translator could
    not read the tree under test): every crash point and every in-process write error of both
    save variants and of the re-saving read, paired with every plain op"""
    r = ctx.rng
    thorough = ctx.tier == 'thorough' or widen
    A, B, C, D = N_SRC, N_SRC + 1, N_SRC + 2, N_SRC + 3
    n_full = len(cfg['steps_full']) + 8 if cfg else 16
    ks_all = list(range(0, n_full))
    hs = []

    def add(src, ops, kind):
        hs.append({'id': len(hs), 'src': src, 'ops': ops, 'kind': kind})

    # 1. exhaustive short histories over one source and two objects
    if thorough:
        sigma = [['R', 0], ['R', 1], ['S', A, 0], ['S', B, 0], ['S', B, 1], ['S', A, 1]]
        sigma += [['SC', A, 0, k] for k in ks_all] + [['SC', B, 0, k] for k in ks_all]
        sigma += [['SC', B, 1, k] for k in ks_all[:8]] + [['RC', 0, k] for k in ks_all]
        sigma += [['RC', 1, k] for k in ks_all[:8]]
        sigma += [['SX', A, 0, k] for k in ks_all[1::3]] + [['SXM', B, 0, k] for k in ks_all[1::3]]
        sigma += [['RX', 0, k] for k in ks_all[1::4]]
    else:
        ka = sorted(r.sample(ks_all[1:10], 3))
        kb = sorted(r.sample(ks_all[1:9], 2))
        km = sorted(r.sample(ks_all[1:5], 2))
        kr = sorted(r.sample(ks_all[1:10], 2))
        sigma = [['R', 0], ['R', 1], ['S', A, 0], ['S', B, 0], ['S', B, 1]]
        sigma += [['SC', A, 0, k] for k in ka] + [['SC', B, 0, k] for k in kb]
        sigma += [['SC', B, 1, k] for k in km] + [['RC', 0, k] for k in kr] + [['RC', 1, kr[0]]]
        sigma += [['SX', A, 0, ka[1]], ['SXM', B, 0, kb[0]], ['RX', 0, kr[1]]]
    pairs = [(a, b) for a in sigma for b in sigma]
    cap = 4000 if ctx.tier == 'thorough' else 900
    if len(pairs) > cap:
        # thorough alphabet: every pair with a plain op first or second, a seeded sample of the rest
        plain = [p for p in pairs if p[0][0] in ('R', 'S') or p[1][0] in ('R', 'S')]
        rest = [p for p in pairs if p not in plain]
        r.shuffle(rest)
        if len(plain) > cap:
            # widened quick run: a crashing / failing op followed by every plain op, every plain pair,
            # a seeded sample of (plain, crashing)
            first = [p for p in plain if p[1][0] in ('R', 'S')]
            second = [p for p in plain if p not in first]
            r.shuffle(second)
            plain = first + second[:max(0, cap - len(first))]
        pairs = plain + rest[:max(0, cap - len(plain))]
    for a, b in pairs:
        add(0, [a, b, ['R', 0]], 'exhaustive-3' if len(pairs) == len(sigma) ** 2 else 'pairs-3')
    # 2. random longer histories over all sources and objects
    n_rand = 1200 if ctx.tier == 'thorough' else (300 if widen else 110)
    for _ in range(n_rand):
        src = r.randrange(N_SRC)
        n = r.randint(3, 6)
        ops = []
        for _i in range(n):
            x = r.random()
            if x < 0.3:
                ops.append(['R', int(r.random() < 0.3)])
            elif x < 0.5:
                ops.append(['S', r.choice([A, B, C, D]), int(r.random() < 0.25)])
            elif x < 0.85:
                ops.append([r.choice(['SC', 'SC', 'SX', 'SXM']), r.choice([A, B, C, D]),
                            int(r.random() < 0.2), r.choice(ks_all)])
            else:
                ops.append([r.choice(['RC', 'RC', 'RX']), int(r.random() < 0.3), r.choice(ks_all)])
        ops.append(['R', int(r.random() < 0.15)])
        add(src, ops, 'random')
    return hs


ROUNDTRIP_FEATURES = [
    # (feature, description overrides) — exactness of save -> load on one object
    ('plain-tet', {'types': ['tet']}),
    ('mixed-tet-hex', {'types': ['tet', 'hex']}),
    ('mixed-many', {'types': ['tri', 'quad', 'tet', 'pyr', 'prism', 'hex']}),
    ('polyhedron-ragged', {'types': ['polyhedron'], 'elemental': [['face', 0], ['v', 1]]}),
    ('large-ids', {'types': ['hex'], 'id_mode': 'large'}),
    ('string-settings', {'types': ['tet'], 'settings': {'solution_type': 'HEAT', 'title': 'a b c', 'path': 'x/y.z', 'n': 3, 'f': 0.1}}),
    ('no-elemental', {'types': ['hex'], 'elemental': []}),
    ('constraints', {'types': ['tet'], 'constraints': [['fix', 3], ['load', 1]]}),
    ('rank2-data', {'types': ['tet'], 'nodal': [['T', 1, 0], ['U', 3, 0], ['S', 6, 0]]}),
    ('int-bool-f32-fields', {'types': ['tet'], 'nodal': [['i', 1, 0, 'int'], ['b', 1, 0, 'bool'], ['f', 3, 0, 'f32'],
                                                          ['j', 0, 0, 'int32']], 'elemental': [['mat_id', 1]],
                             'elemental_dtype': 'int'}),
    ('rank1-rank3-data', {'types': ['hex'], 'nodal': [['r1', 0, 0], ['r3', [3, 3], 0], ['r4', [2, 3, 2], 0]]}),
    ('partial-update-before-save', {'types': ['tet'], 'nodal': [['r1', 0, 0], ['v', 3, 0], ['r3', [3, 3], 0],
                                                                ['w', 3, 0], ['q1', 0, 0]],
                                    'mods': [['inplace', 'w'], ['update_data', 'r1'], ['update_data', 'r3'],
                                             ['loc', 'v'], ['loc', 'q1']]}),
    ('overwrite-rank3', {'types': ['tet'], 'nodal': [['r3', [3, 3], 0], ['r1', 0, 0]],
                         'mods': [['overwrite', 'r3'], ['overwrite', 'r1']]}),
    ('alias-keys', {'types': ['tet'], 'alias': [['t_init', 1], ['disp', 3], ['reac', 3]]}),
    ('prefix-names', {'types': ['tet', 'hex'], 'nodal': [['T', 1, 0], ['T2', 1, 0], ['TT', 3, 0], ['T_', 1, 0]],
                      'elemental': [['E', 1], ['E1', 1], ['E11', 6]], 'constraints': [['c', 1], ['cc', 1]]}),
    ('settings-arrays', {'types': ['tet'], 'settings': {'solution_type': 'HEAT', 'one': [5], 'one_f': [0.25],
                                                       'vec': [1, 2, 3], 'flag': True, 'empty': '', 'nested': {'a': 1}}}),
    ('solution-type-none', {'types': ['tet'], 'settings': {'solution_type': None, 'tag': 'x'}}),
    ('key-differs-from-name', {'types': ['tet'], 'nodal_alias': [['K1', 'other', 1], ['K2', 'other', 3]]}),
    ('overwrite-then-save', {'types': ['hex'], 'nodal': [['T', 1, 0], ['U', 3, 0]], 'overwrite': [['T', 1], ['U', 3]]}),
    # features on which femio is known to fail (see known_findings.d/C05.json)
    ('types-substring:tet+tet2', {'types': ['tet', 'tet2']}),
    ('types-substring:hex+hexprism', {'types': ['hex', 'hexprism']}),
    ('types-substring:tri+tri2', {'types': ['tri', 'tri2']}),
    ('types-substring:prism+hexprism', {'types': ['prism', 'hexprism']}),
    ('name-contains-ids:nodal', {'types': ['tet'], 'nodal': [['fluids', 1, 0]]}),
    ('name-contains-ids:elemental', {'types': ['tet'], 'elemental': [['voids', 1]]}),
    ('name-contains-type:elemental', {'types': ['tet', 'hex'], 'elemental': [['tet_quality', 1]]}),
    ('time-series', {'types': ['hex'], 'nodal': [['T', 1, 3]]}),
]


def gen_roundtrips(ctx, widen=False):
    r = ctx.rng
    out = []
    reps = 3 if ctx.tier == 'thorough' or widen else 1
    for feat, ov in ROUNDTRIP_FEATURES:
        for _ in range(reps):
            desc = {'seed': r.randrange(10**6), 'types': ['tet'], 'n_nodes': r.randint(10, 16),
                    'n_per_type': r.randint(2, 4), 'id_mode': r.choice(['sparse', 'dense', 'sparse']),
                    'nodal': [['T', 1, 0]], 'elemental': [['E', 1]], 'constraints': [],
                    'settings': {'solution_type': 'HEAT'}}
            desc.update(ov)
            out.append({'id': len(out), 'feature': feat, 'desc': desc})
    return out


# ---------------------------------------------------------------- key scheme cases
NAME_POOL = ['T', 'U', 'NodalSTRESS', 'fluids', 'ids', 'data', 'metadata', 'tet_quality', 'hex',
             'a b', 'x_ids', 'voids', 'prism_flag', 'lte', 'Tdata', 'T2', 'TT', 'time_series', 'time',
             't_init_x', 'E1', 'E11']
BAD_NAMES = ['a/b', 'x/ids', '', 'p/q/r']


def key_feature(kc):
    """which known weakness of the key scheme (if any) a case exercises"""
    def sub_other(types, prefix=''):
        for i, t in enumerate(types):
            for j, u in enumerate(types):
                if i != j and any(t in prefix + u + s for s in ('/ids', '/data')):
                    return True
        return False
    k = kc['kind']
    if kc.get('ts'):
        return 'time-series'
    if k == 'attr':
        p = kc['prefix']
        return 'name-contains-ids' if p is not None and 'ids' in p + '/data' else 'none'
    if k == 'elem':
        return 'types-substring' if sub_other(kc['types']) else 'none'
    if k == 'attrs':
        return 'name-contains-ids' if any('ids' in n + '/data' for n in kc['names']) else 'none'
    if k == 'eattrs':
        for n, ts in kc['items']:
            if 'ids' in n + '/':
                return 'name-contains-ids'
            if len(ts) > 1 and any(t in n for t in ts):
                return 'name-contains-type'
            if sub_other(ts):
                return 'types-substring'
        return 'none'
    return 'none'


def key_wellformed(kc):
    def okn(l):
        return len(set(l)) == len(l) and all('/' not in n for n in l)
    k = kc['kind']
    if k == 'attr':
        return kc['prefix'] is None or True
    if k == 'elem':
        return okn(kc['types'])
    if k == 'attrs':
        return okn(kc['names'])
    return okn([n for n, _ in kc['items']]) and all(okn(ts) and ts for _, ts in kc['items'])


def gen_keycases(ctx, types, widen=False):
    r = ctx.rng
    thorough = ctx.tier == 'thorough' or widen
    cases = []

    def add(c):
        c['id'] = len(cases)
        cases.append(c)
    tt = [t for t in types if t != 'unknown']
    for p in [None, 'T', 'fluids', 'a/b', 'NODE', 'ids', 'x/tet', 'time_series', 'data']:
        add({'kind': 'attr', 'prefix': p})
    for p in [None, 'T', 'time_series', 'fluids']:
        add({'kind': 'attr', 'prefix': p, 'ts': True})
    for _ in range(30 if thorough else 8):
        add({'kind': 'attrs', 'names': r.sample(NAME_POOL, r.randint(1, 4)), 'ts': True})
    # every single type, every ordered pair of the table (exhaustive), random larger sets
    for t in tt:
        add({'kind': 'elem', 'types': [t]})
    pairs = [(a, b) for a in tt for b in tt if a != b]
    if not thorough:
        coll = [(a, b) for a, b in pairs if a in b or b in a]
        rest = [x for x in pairs if x not in coll]
        r.shuffle(rest)
        pairs = coll + rest[:40]
    for a, b in pairs:
        add({'kind': 'elem', 'types': [a, b]})
    for _ in range(200 if thorough else 30):
        add({'kind': 'elem', 'types': r.sample(tt, r.randint(3, 6))})
    for i in range(200 if thorough else 40):
        add({'kind': 'attrs', 'names': r.sample(NAME_POOL, r.randint(1, 4)),
             'alias': [None, 'distinct', 'same'][i % 3]})
    for i in range(200 if thorough else 40):
        names = r.sample(NAME_POOL, r.randint(1, 3))
        add({'kind': 'eattrs', 'items': [[n, r.sample(tt, r.randint(1, 3))] for n in names],
             'alias': [None, 'distinct'][i % 2]})
    # malformed stream: names with '/', empty names
    for _ in range(40 if thorough else 12):
        names = r.sample(BAD_NAMES, 1) + r.sample(NAME_POOL, r.randint(0, 2))
        r.shuffle(names)
        if r.random() < 0.5:
            add({'kind': 'attrs', 'names': names, 'malformed': True})
        else:
            add({'kind': 'eattrs', 'items': [[n, r.sample(tt, r.randint(1, 2))] for n in names],
                 'malformed': True})
    return cases


def nat_pair(p):
    return f'({p[0]}, {p[1]}, {"true" if len(p) > 2 and p[2] else "false"})'


def key_case_coq(kc, r):
    """-> Coq boolean term comparing model and observation, or None"""
    S = lib.coq_str
    keys = lib.coq_list([S(k) for k in r['keys']])
    if 'exc' in r:
        if r['exc'] == 'ValueError':
            obs = '(Err ErrLen)'
        elif r['exc'] == 'UnboundLocalError':
            obs = '(Err ErrUnbound)'
        else:
            return None
    cnt = [0]
    tsb = 'true' if kc.get('ts') else 'false'

    def tag():
        i = cnt[0]
        cnt[0] += 1
        return f'({2 * i}, {2 * i + 1}, {tsb})'
    k = kc['kind']
    if k == 'attr':
        if 'ok' in r:
            obs = f'(Ok {nat_pair(r["ok"])})'
        pre = 'None' if kc['prefix'] is None else f'(Some {S(kc["prefix"])})'
        return f'attr_case kcfg {pre} {tag()} {keys} {obs}'
    order = kc.get('_table', [])

    def by_table(ts):
        # FEMElementalAttribute.items() iterates in ELEMENT_TYPES order
        return sorted(ts, key=lambda x: order.index(x[0]) if x[0] in order else len(order))
    if k == 'elem':
        e = lib.coq_list([f'({S(t)}, {g})' for t, g in by_table([(t, tag()) for t in kc['types']])])
        if 'ok' in r:
            obs = '(Ok ' + lib.coq_list([f'({S(t)}, {nat_pair(a)})' for t, a in r['ok']]) + ')'
        return f'elem_case kcfg {e} {keys} {obs}'
    if k == 'attrs':
        c = lib.coq_list([f'({S(n)}, {tag()})' for n in kc['names']])
        if 'ok' in r:
            obs = '(Ok ' + lib.coq_list([f'({S(n)}, {nat_pair(a)})' for n, a in r['ok']]) + ')'
        return f'attrs_case kcfg {c} {keys} {obs}'
    if k == 'eattrs':
        c = lib.coq_list([f'({S(n)}, ' + lib.coq_list(
            [f'({S(t)}, {g})' for t, g in by_table([(t, tag()) for t in ts])]) + ')'
            for n, ts in kc['items']])
        if 'ok' in r:
            obs = '(Ok ' + lib.coq_list(
                [f'({S(n)}, ' + lib.coq_list([f'({S(t)}, {nat_pair(a)})' for t, a in e]) + ')'
                 for n, e in r['ok']]) + ')'
        return f'eattrs_case kcfg {c} {keys} {obs}'
    return None


def key_expected_ok(kc, r):
    """the property on the implementation: a well-formed collection comes back
    with the same labels and tags"""
    if 'ok' not in r:
        return False
    cnt = [0]

    def tag():
        i = cnt[0]
        cnt[0] += 1
        return [2 * i, 2 * i + 1, bool(kc.get('ts'))]
    k = kc['kind']
    if k == 'attr':
        return r['ok'] == tag()
    if k == 'elem':
        exp = {t: tag() for t in kc['types']}
        return {t: a for t, a in r['ok']} == exp and len(r['ok']) == len(exp)
    if k == 'attrs':
        exp = {n: tag() for n in kc['names']}
        return {n: a for n, a in r['ok']} == exp and len(r['ok']) == len(exp)
    exp = {n: {t: tag() for t in ts} for n, ts in kc['items']}
    got = {n: {t: a for t, a in e} for n, e in r['ok']}
    return got == exp


TWICE_QUICK = ['fistr/thermal', 'fistr/cload', 'fistr/heat', 'fistr/tet2_3', 'fistr/mixture_solid',
               'fistr/mixture_shell', 'fistr/pyramid', 'fistr/spring', 'fistr/tet_3', 'fistr/quad',
               'ucd/mixture', 'ucd/tet2', 'ucd/prism', 'ucd/nan', 'ucd/line', 'ucd/thermal']
TWICE_TS = ['fistr/static_time_series']


def gen_twice(ctx):
    """real source directories of the tree under test, read twice"""
    base = lib.REPO / 'tests' / 'data'
    out = []
    names = list(TWICE_QUICK)
    if ctx.tier == 'thorough':
        for ft in ('fistr', 'ucd'):
            if (base / ft).is_dir():
                names += sorted(f'{ft}/{p.name}' for p in (base / ft).iterdir() if p.is_dir())
    seen = set()
    for nm in names + TWICE_TS:
        d = base / nm
        if nm in seen or not d.is_dir():
            continue
        seen.add(nm)
        size = sum(f.stat().st_size for f in d.iterdir() if f.is_file() and not f.name.startswith('femio_'))
        if size > (20_000_000 if nm in TWICE_TS else 400_000):
            continue
        out.append({'id': len(out), 'name': nm, 'ftype': nm.split('/')[0], 'path': str(d),
                    'time_series': nm in TWICE_TS})
    return out


# ---------------------------------------------------------------- child
def gen_fhistories(ctx, cfg):
    """histories in which read_directory is called with every combination of read_mesh_only /
    read_npy / save (FlagModel.v): all [a; b; default read] over an alphabet, plus random ones"""
    r = ctx.rng
    thorough = ctx.tier == 'thorough'
    A, B = N_SRC, N_SRC + 1
    n_full = len(cfg['steps_full']) + 8 if cfg else 16
    reads = [['RF', m, npy, sv] for m in (0, 1) for npy in (0, 1) for sv in (0, 1)]
    if thorough:
        ks = list(range(0, n_full))
        sigma = reads + [['S', A, 0], ['S', B, 1]] + [['SC', A, 0, k] for k in ks[1::2]] + \
            [['RFC', 0, 0, 1, k] for k in ks[1::2]] + [['RFC', 0, 1, 1, k] for k in ks[1::3]]
    else:
        k1, k2 = sorted(r.sample(range(1, 10), 2))
        sigma = [x for x in reads if not (x[1] and not x[3])] + \
            [['S', A, 0], ['S', B, 1], ['SC', A, 0, k1], ['RFC', 0, 0, 1, k2]]
    hs = []
    pairs = [(a, b) for a in sigma for b in sigma]
    if len(pairs) > 600:
        # thorough alphabet: every pair with a plain read / save first or second, a seeded sample of the rest
        plain = [p_ for p_ in pairs if p_[0][0] in ('RF', 'S') and p_[1][0] in ('RF', 'S')]
        rest = [p_ for p_ in pairs if p_ not in plain]
        r.shuffle(rest)
        pairs = plain + rest[:max(0, 600 - len(plain))]
    for a, b in pairs:
        hs.append({'src': 0, 'ops': [a, b, ['RF', 0, 1, 1]], 'kind': 'flags-exhaustive-3'})
    for _ in range(200 if thorough else 40):
        ops = []
        for _i in range(r.randint(3, 6)):
            x = r.random()
            if x < 0.55:
                ops.append(['RF', int(r.random() < 0.25), int(r.random() < 0.6), int(r.random() < 0.6)])
            elif x < 0.7:
                ops.append(['S', r.choice([A, B]), int(r.random() < 0.25)])
            elif x < 0.85:
                ops.append(['SC', r.choice([A, B]), int(r.random() < 0.2), r.randrange(n_full)])
            else:
                ops.append(['RFC', int(r.random() < 0.2), int(r.random() < 0.5), 1, r.randrange(n_full)])
        ops.append(['RF', int(r.random() < 0.2), 1, int(r.random() < 0.7)])
        hs.append({'src': r.randrange(N_SRC), 'ops': ops, 'kind': 'flags-random'})
    for i, h in enumerate(hs):
        h['id'] = 100000 + i
    return hs


def fop_coq(op):
    b = lambda x: 'true' if x else 'false'  # noqa: E731
    k = op[0]
    if k == 'RF':
        return f'(FRead {b(op[1])} {b(op[2])} {b(op[3])})'
    if k == 'RFC':
        return f'(FReadCrash {b(op[1])} {b(op[2])} {b(op[3])} {op[4]})'
    if k == 'S':
        return f'(FSave o{op[1]} {b(op[2])})'
    if k == 'SC':
        return f'(FSaveCrash o{op[1]} {b(op[2])} {op[3]})'
    raise AssertionError(op)


def run_impl(ctx, cfg_files, hs, rts, pool, keycases=(), twice=(), fhs=()):
    work = ctx.scratch / 'work'
    if work.exists():
        import shutil
        shutil.rmtree(work, ignore_errors=True)
    work.mkdir(parents=True, exist_ok=True)
    spec = {'work': str(work), 'out': str(ctx.scratch / 'impl_out.json'), 'files': cfg_files,
            'sources': [{'ftype': ft, 'path': str(SRC_DIR / nm)} for ft, nm in SOURCES],
            'pool': pool, 'histories': hs, 'roundtrips': rts, 'keycases': list(keycases), 'twice': list(twice),
            'fhistories': list(fhs)}
    r = subprocess.run([lib.PY, str(lib.VERIF / 'harness' / 'c05_impl.py')],
                       input=json.dumps(spec), text=True, capture_output=True,
                       env=lib.impl_env(), timeout=1500)
    if r.returncode != 0:
        raise RuntimeError('impl runner failed: ' + r.stderr[-3000:])
    return json.loads(Path(spec['out']).read_text())


# ---------------------------------------------------------------- classification
def classify(h, steps, i, sentinel):
    """signature of a violating read at op index i"""
    res = steps[i]['res']
    if res[0] == 'LE':
        loaded = 'load-error'
    elif res[0] == 'L':
        objs = {x // 10 for x in res[1] if x is not None and x > 0}
        if any(x is not None and x < 0 for x in res[1]):
            loaded = 'unknown-content'
        elif len(objs) > 1:
            loaded = 'mixed'
        else:
            loaded = 'partial-or-stale'
    elif res[0] == 'P':
        loaded = 'cache-ignored'
    else:
        loaded = 'error'
    after, sb = 'nothing', False
    j = i - 1
    while j >= 0:
        op = h['ops'][j]
        rj = steps[j]['res']
        before = steps[j - 1]['ls'] if j > 0 else {}
        if steps[j]['ls'] == before:
            # this op left the directory as it was (a read served from the cache,
            # a crash before the first file effect): not the cause
            j -= 1
            continue
        if op[0] == 'S':
            after = 'mesh-only-save' if op[2] else 'complete-save'
        elif op[0] in ('SC', 'SX', 'SXM'):
            after = 'interrupted-save' if steps[j]['died'] else \
                ('mesh-only-save' if op[2] else 'complete-save')
        elif op[0] in ('R', 'RC', 'RX') and rj[0] == 'P':
            after = 'interrupted-resave' if steps[j]['died'] else \
                ('mesh-only-read-resave' if op[1] else 'reparse-resave')
        else:
            j -= 1
            continue
        sb = sentinel in before
        break
    site = 'FEMData.read_directory' if after == 'mesh-only-read-resave' else 'FEMData.save'
    return {'site': site, 'after': after, 'sentinel_before': sb, 'loaded': loaded}


def shrink_ops(h, i):
    return h['ops'][:i + 1]


# ---------------------------------------------------------------- main
def main(ctx):
    ctx.rule = ('histories over one directory: all [a; b; Read] over an alphabet of read / save / '
                'mesh-only save / interrupted save (crash after k file effects) / interrupted read on one '
                'source and two objects, plus random histories of 4-7 ops over 3 parsed sources and 4 '
                'in-memory objects (mixed elements, ragged polyhedral face data, large ids, string '
                'settings); after each op the femio_* listing (content identities) and the read result '
                'are compared with Model.run evaluated in Coq.  Non-trivial = contains a save or crash. '
                'Separately: save -> load round trips of single objects per feature.')
    ctx.trusted += [
        'translator /verif/translate/c05_effects.py (fail-closed Python-ast; FEMData.save, member save(), '
        'read_directory, read_npy_directory)',
        'harness/c05_impl.py: crash injection by wrapping numpy.savez/save, Path.touch/unlink, os.remove/'
        'rename in a forked process (file-granular crash points); content identities = sha256 over '
        'np.load of each file / over ids+data of each in-memory component',
        'canonicalisation: settings compared as arrays after the loader\'s solution_type defaulting; '
        'settings equal to the default are the payload None',
    ]
    ctx.assumptions += [
        'np.savez is atomic at file granularity (the property\'s crash points are file boundaries)',
        'the directory holds no foreign file with the stem of a cache file (femio_x.npy next to femio_x.npz)',
        'read_directory options: read_mesh_only / read_npy / save are part of the histories (FlagModel, '
        'C05_crash_safe_flags); recursive / read_res / stem / time_series do not touch the cache logic',
        'payloads are opaque content identities; exactness of np.savez/np.load is pinned by the '
        'round-trip stream, not proved',
    ]
    # ---- 1. translate
    tie_ok, cfg = True, None
    degraded = {}      # region -> why its translator could not read the tree under test
    baseline = json.loads(BASELINE.read_text())
    try:
        cfg, consumed = c05_effects.translate(str(lib.REPO))
        ctx.sources = consumed
        lib.write_if_changed(lib.COQ / 'C05' / 'gen' / 'SaveCfg.v', c05_effects.emit(cfg))
        ctx.notes['translated_cfg'] = {k: cfg[k] for k in ('steps_full', 'steps_mesh', 'read_sentinel',
                                                          'resave_sentinel', 'load_names', 'resave_mesh_read')}
    except c05_effects.TranslateError as e:
        # policy (BUILDERS_R5): an unreadable region is not by itself a violation.  The last
        # configuration read from the registered tree becomes the hand model of this run; the
        # theorems are built against it and a WIDENED correspondence (every crash point, in-process
        # write errors at every file effect, more round trips) decides.
        why = str(e).split('\n')[0][:300]
        degraded['save'] = why
        cfg = json.loads(json.dumps(baseline['save_cfg']))
        cfg['steps_full'] = [tuple(x) for x in cfg['steps_full']]
        cfg['steps_mesh'] = [tuple(x) for x in cfg['steps_mesh']]
        cfg['load_names'] = [tuple(x) for x in cfg['load_names']]
        ctx.sources = dict(getattr(e, 'consumed', {}))
        lib.write_if_changed(lib.COQ / 'C05' / 'gen' / 'SaveCfg.v', c05_effects.emit(cfg, origin=why))
        ctx.log('save translator could not read the tree under test:', why,
                '-> baseline model + widened correspondence')
        ctx.notes['translator_error'] = str(e)[:1500]
        ctx.notes['baseline_cfg'] = {k: cfg[k] for k in ('steps_full', 'steps_mesh', 'read_sentinel',
                                                         'resave_sentinel', 'load_names', 'resave_mesh_read')}
    except SyntaxError as e:
        tie_ok = False
        ctx.notes['translator_error'] = 'syntax error: ' + str(e)

    # ---- 2. verdict on the regenerated configuration, then the per-run theorems
    cfg_ok = None
    witness = None
    if tie_ok:
        ok, log, _ = lib.coq_make(['C05/gen/SaveCfg.vo', 'C05/Proofs.vo'])
        if not ok:
            ctx.notes['build_log_tail'] = log[-1500:]
        else:
            txt = HEADER + ['Goal True. idtac "@@ ok". Abort.', 'Eval vm_compute in cfg_ok cfg.',
                            'Goal True. idtac "@@ witness". Abort.',
                            'Eval vm_compute in find_violation cfg 2.']
            rc, out, err = ctx.coq_eval('Verdict', '\n'.join(txt) + '\n')
            parts = lib.parse_marked(out)
            if rc == 0:
                cfg_ok = '= true' in parts.get('ok', '')
                witness = None if '= None' in parts.get('witness', '') else parts.get('witness', '').strip()
        ctx.notes['cfg_ok'] = cfg_ok
        run_v = ['(* GENERATED by harness/c05.py on every run - do not edit.  Per-run theorems about the',
                 '   configuration translated from the tree under test (gen/SaveCfg.v). *)',
                 'From Coq Require Import String List ZArith. Import ListNotations.',
                 'From FV.C05 Require Import Model Proofs Props FlagModel PropsFlags.',
                 'From FV.C05.gen Require Import SaveCfg.', '']
        if cfg_ok:
            run_v += [
                'Theorem C05_run_cfg_ok : cfg_ok SaveCfg.cfg = true.',
                'Proof. vm_compute. reflexivity. Qed.', '',
                '(* for every enumeration order of Path.glob *)',
                'Theorem C05_run_crash_safe : forall ord, order_ok ord ->',
                '  forall src h dr0, wf_snap src = true -> forallb wf_op h = true ->',
                '  has (read_sentinel SaveCfg.cfg) dr0 = false ->',
                '  conforms (with_order SaveCfg.cfg ord) src h dr0 = true.',
                'Proof. intros ord OO. exact (C05_crash_safe (with_order SaveCfg.cfg ord) C05_run_cfg_ok OO). Qed.', '',
                'Theorem C05_run_save_then_read : forall ord, order_ok ord ->',
                '  forall src d m dr0, wf_snap d = true ->',
                '  map fst (run (with_order SaveCfg.cfg ord) src [Save d m; Read false] dr0)',
                '  = [RNone; RLoaded (Some (img d m))].',
                'Proof. intros ord OO. exact (C05_save_then_read (with_order SaveCfg.cfg ord) C05_run_cfg_ok OO). Qed.', '',
                'Theorem C05_run_cache_transparent : forall ord, order_ok ord ->',
                '  forall src dr0, wf_snap src = true -> has (read_sentinel SaveCfg.cfg) dr0 = false ->',
                '  map fst (run (with_order SaveCfg.cfg ord) src [Read false; Read false] dr0)',
                '  = [RParsed; RLoaded (Some src)].',
                'Proof. intros ord OO. exact (C05_cache_transparent (with_order SaveCfg.cfg ord) C05_run_cfg_ok OO). Qed.', '',
                'Theorem C05_run_mesh_read_then_full_read : forall ord, order_ok ord ->',
                '  forall src dr0, wf_snap src = true -> has (read_sentinel SaveCfg.cfg) dr0 = false ->',
                '  map fst (run (with_order SaveCfg.cfg ord) src [Read true; Read false; Read false; Read true] dr0)',
                '  = [RParsed; RParsed; RLoaded (Some src); RLoaded (Some (img src true))].',
                'Proof. intros ord OO. exact (C05_mesh_read_then_full_read (with_order SaveCfg.cfg ord) C05_run_cfg_ok OO). Qed.', '',
                '(* ... with read_directory called with any read_mesh_only / read_npy / save *)',
                'Theorem C05_run_crash_safe_flags : forall ord, order_ok ord ->',
                '  forall src h dr0, wf_snap src = true -> forallb wf_fop h = true ->',
                '  has (read_sentinel SaveCfg.cfg) dr0 = false ->',
                '  fconforms (with_order SaveCfg.cfg ord) src h dr0 = true.',
                'Proof. intros ord OO. exact (C05_crash_safe_flags (with_order SaveCfg.cfg ord) C05_run_cfg_ok OO). Qed.', '']
        else:
            run_v += [
                '(* the static check rejects the translated configuration, and the model',
                '   computes a history on which the property fails *)',
                'Theorem C05_run_cfg_rejected : cfg_ok SaveCfg.cfg = false.',
                'Proof. vm_compute. reflexivity. Qed.', '',
                'Definition witness : list op :=',
                '  match find_violation SaveCfg.cfg 2 with Some h => h | None => [] end.', '',
                'Theorem C05_run_crash_safe_refuted :',
                '  order_ok (glob_order SaveCfg.cfg) /\\',
                '  exists src h dr0, wf_snap src = true /\\ forallb wf_op h = true /\\',
                '    has (read_sentinel SaveCfg.cfg) dr0 = false /\\ conforms SaveCfg.cfg src h dr0 = false.',
                'Proof. split; [exact order_ok_id|]. exists snapS, witness, []. vm_compute. repeat split; reflexivity. Qed.', '']
        if cfg_ok is not None:
            lib.write_if_changed(lib.COQ / 'C05' / 'gen' / 'Run.v', '\n'.join(run_v))
    # ---- 2b. the key scheme: translate, verdict, per-run theorems
    ktie_ok, kcfg, kcfg_ok = True, None, None
    key_witness = None
    try:
        kcfg, kconsumed = c05_keys.translate(str(lib.REPO))
        ctx.sources.update(kconsumed)
        lib.write_if_changed(lib.COQ / 'C05' / 'gen' / 'KeyCfg.v', c05_keys.emit(kcfg))
        ctx.notes['translated_key_cfg'] = {k: kcfg[k] for k in ('ids_test', 'data_test', 'elem_group',
                                                                'attrs_group')}
    except c05_keys.TranslateError as e:
        why = str(e).split('\n')[0][:300]
        degraded['keys'] = why
        kcfg = json.loads(json.dumps(baseline['key_cfg']))
        for k_ in ('ids_test', 'data_test', 'ts_test'):
            kcfg[k_] = tuple(kcfg[k_]) if kcfg[k_] else None
        ctx.sources.update(getattr(e, 'consumed', {}))
        lib.write_if_changed(lib.COQ / 'C05' / 'gen' / 'KeyCfg.v', c05_keys.emit(kcfg, origin=why))
        ctx.log('key translator could not read the tree under test:', why,
                '-> baseline model + widened correspondence')
        ctx.notes['key_translator_error'] = str(e)[:1500]
    except SyntaxError as e:
        ktie_ok = False
        ctx.notes['key_translator_error'] = 'syntax error: ' + str(e)
    if ktie_ok:
        ok, log, _ = lib.coq_make(['C05/gen/KeyCfg.vo', 'C05/KeyProofs.vo'])
        if not ok:
            ctx.notes['build_log_tail_keys'] = log[-1500:]
        else:
            txt = KHEADER + ['Goal True. idtac "@@ ok". Abort.', 'Eval vm_compute in key_cfg_ok kcfg.',
                             'Goal True. idtac "@@ pairs". Abort.', 'Eval vm_compute in colliding_pairs kcfg.',
                             'Goal True. idtac "@@ names". Abort.', 'Eval vm_compute in failing_names kcfg.',
                             'Goal True. idtac "@@ ts". Abort.', 'Eval vm_compute in ts_roundtrip_ok kcfg.']
            rc, out, err = ctx.coq_eval('VerdictKeys', '\n'.join(txt) + '\n')
            parts = lib.parse_marked(out)
            if rc == 0:
                kcfg_ok = '= true' in parts.get('ok', '')
                pr = re.findall(r'\("([^"]*)",\s*"([^"]*)"\)', parts.get('pairs', ''))
                nm = re.findall(r'"([^"]*)"', parts.get('names', '').split(' : ')[0])
                key_witness = {'colliding_pairs': pr, 'failing_names': nm,
                               'time_series_lost': '= false' in parts.get('ts', '')}
                ctx.notes['model_key_witnesses'] = key_witness
        ctx.notes['key_cfg_ok'] = kcfg_ok
        rk = ['(* GENERATED by harness/c05.py on every run - do not edit.  Per-run theorems about the',
              '   key configuration translated from the tree under test (gen/KeyCfg.v). *)',
              'From Coq Require Import String List. Import ListNotations.',
              'From FV.C05 Require Import KeyModel KeyProofs Props.',
              'From FV.C05.gen Require Import KeyCfg.', 'Open Scope string_scope.', '']
        if kcfg_ok:
            rk += [
                'Theorem C05_run_key_cfg_ok : key_cfg_ok kcfg = true.',
                'Proof. vm_compute. reflexivity. Qed.', '',
                'Theorem C05_run_attr_dict_roundtrip :',
                '  forall (V : Type) (vtrue : V) (truthy : V -> bool), truthy vtrue = true ->',
                '  forall prefix (a : attr V), attr_from_dict truthy kcfg (attr_to_dict vtrue kcfg prefix a) = Ok a.',
                'Proof. intros V vt tr T. exact (C05_attr_dict_roundtrip V vt tr T kcfg C05_run_key_cfg_ok). Qed.', '',
                'Theorem C05_run_elements_dict_roundtrip :',
                '  forall (V : Type) (vtrue : V) (truthy : V -> bool), truthy vtrue = true ->',
                '  forall prefix (e : eattr V), prefix_ok prefix = true -> wf_eattr kcfg e = true ->',
                '  exists e\', elem_from_dict truthy kcfg (elem_to_dict vtrue kcfg prefix e) = Ok e\'',
                '    /\\ (forall t, In t (map fst e\') <-> In t (map fst e))',
                '    /\\ (forall t a, In (t, a) e\' -> In (t, a) e).',
                'Proof. intros V vt tr T. exact (C05_elements_dict_roundtrip V vt tr T kcfg C05_run_key_cfg_ok). Qed.', '',
                'Theorem C05_run_attrs_dict_roundtrip :',
                '  forall (V : Type) (vtrue : V) (truthy : V -> bool), truthy vtrue = true ->',
                '  forall (c : list (string * attr V)), wf_names (map fst c) = true ->',
                '  exists c\', attrs_from_dict truthy kcfg (attrs_to_dict vtrue kcfg c) = Ok c\'',
                '    /\\ (forall n, In n (map fst c\') <-> In n (map fst c))',
                '    /\\ (forall n a, In (n, a) c\' -> In (n, a) c).',
                'Proof. intros V vt tr T. exact (C05_attrs_dict_roundtrip V vt tr T kcfg C05_run_key_cfg_ok). Qed.', '',
                'Theorem C05_run_elemental_data_dict_roundtrip :',
                '  forall (V : Type) (vtrue : V) (truthy : V -> bool), truthy vtrue = true ->',
                '  forall (c : list (string * eattr V)),',
                '  wf_names (map fst c) = true -> forallb (fun ne => wf_eattr kcfg (snd ne)) c = true ->',
                '  exists c\', eattrs_from_dict truthy kcfg (eattrs_to_dict vtrue kcfg c) = Ok c\'',
                '    /\\ (forall n, In n (map fst c\') <-> In n (map fst c))',
                '    /\\ (forall n e\', In (n, e\') c\' -> exists e, In (n, e) c',
                '          /\\ (forall t, In t (map fst e\') <-> In t (map fst e))',
                '          /\\ (forall t a, In (t, a) e\' -> In (t, a) e)).',
                'Proof. intros V vt tr T. exact (C05_elemental_data_dict_roundtrip V vt tr T kcfg C05_run_key_cfg_ok). Qed.', '']
        elif kcfg_ok is False:
            rk += ['Theorem C05_run_key_cfg_rejected : key_cfg_ok kcfg = false.',
                   'Proof. vm_compute. reflexivity. Qed.', '']
            if key_witness and key_witness['colliding_pairs']:
                a, b = key_witness['colliding_pairs'][0]
                rk += ['(* two element types of the table that cannot be stored together *)',
                       'Theorem C05_run_elements_dict_roundtrip_refuted :',
                       '  exists e : eattr nat, wf_eattr kcfg e = true /\\',
                       '    exists err, elem_from_dict ntruthy kcfg (elem_to_dict 1 kcfg None e) = Err err.',
                       f'Proof. exists (tagged_eattr [{lib.coq_str(a)}; {lib.coq_str(b)}]). split; '
                       '[vm_compute; reflexivity|]. eexists. vm_compute. reflexivity. Qed.', '']
            if key_witness and key_witness['failing_names']:
                n = key_witness['failing_names'][0]
                rk += ['(* an attribute name that cannot be loaded back *)',
                       'Theorem C05_run_attrs_dict_roundtrip_refuted :',
                       '  exists c : list (string * attr nat), wf_names (map fst c) = true /\\',
                       '    exists err, attrs_from_dict ntruthy kcfg (attrs_to_dict 1 kcfg c) = Err err.',
                       f'Proof. exists [({lib.coq_str(n)}, (0, 1, false))]. split; [vm_compute; reflexivity|]. '
                       'eexists. vm_compute. reflexivity. Qed.', '']
            if key_witness and key_witness['time_series_lost']:
                rk += ['(* the time_series flag of an attribute does not survive to_dict -> from_dict *)',
                       'Theorem C05_run_time_series_dict_roundtrip_refuted :',
                       '  ntruthy 1 = true /\\ exists a : attr nat,',
                       '    attr_from_dict ntruthy kcfg (attr_to_dict 1 kcfg None a) <> Ok a.',
                       'Proof. split; [reflexivity|]. exists (0, 1, true). vm_compute. intro H. discriminate H. Qed.', '']
        if kcfg_ok is not None:
            lib.write_if_changed(lib.COQ / 'C05' / 'gen' / 'RunKeys.v', '\n'.join(rk))

    # generic theorems (independent of the tree under test), then the per-run ones
    ok1, log1 = ctx.build_props('C05/Props.v')
    ok1v, log1v = ctx.build_props('C05/PropsVal.v')
    ok1f, log1f = ctx.build_props('C05/PropsFlags.v')
    ok1, log1 = ok1 and ok1v and ok1f, log1 + log1v + log1f
    if tie_ok and cfg_ok is not None:
        ok2, log2 = ctx.build_props('C05/gen/Run.v')
    else:
        ok2, log2 = False, 'save translator failed closed or model did not build'
        ctx.obligations.append({'name': 'C05_run_cfg_ok', 'discharged': False, 'assumptions': [],
                                'note': log2})
    if ktie_ok and kcfg_ok is not None:
        ok3, log3 = ctx.build_props('C05/gen/RunKeys.v')
    else:
        ok3, log3 = False, 'key translator failed closed or model did not build'
        ctx.obligations.append({'name': 'C05_run_key_cfg_ok', 'discharged': False, 'assumptions': [],
                                'note': log3})
    proof_ok = ok1 and ok2
    kproof_ok = ok1 and ok3
    for o in ctx.obligations:
        if o['name'].endswith(('_refuted', '_rejected')) and not o['note']:
            o['note'] = ('kernel-checked REFUTATION: the configuration translated from the tree under test '
                         'violates the property on the witness the model computed (reported as a finding)')
    ctx.notes['property_proved_for_this_tree'] = {
        'crash_safe/save_then_read/cache_transparent': bool(cfg_ok) and proof_ok,
        'dict_roundtrip (key scheme)': bool(kcfg_ok) and kproof_ok}
    ctx.checker_cmd = ('cd /verif/coq && make C05/Props.vo C05/PropsVal.vo C05/PropsFlags.vo C05/gen/Run.vo '
                       'C05/gen/RunKeys.vo (coqc 8.16.1) + Print Assumptions of every theorem of these five files')
    if not (proof_ok and kproof_ok):
        ctx.notes['build_log_tail'] = (log1 + log2 + log3)[-1500:]
    if ctx.tier == 'thorough' and proof_ok and kproof_ok:
        rc, o, e, dt = lib.sh(['coqchk', '-silent', '-o', '-Q', '.', 'FV', 'FV.C05.Props', 'FV.C05.PropsVal',
                               'FV.C05.PropsFlags', 'FV.C05.gen.Run', 'FV.C05.gen.RunKeys'], cwd=lib.COQ, timeout=900)
        ctx.notes['coqchk'] = {'exit': rc, 'seconds': round(dt, 1),
                               'axioms_none': 'Axioms: <none>' in (o + e)}
        ctx.log(f'coqchk exit {rc} ({dt:.0f}s)')
        if rc != 0 or 'Axioms: <none>' not in (o + e):
            proof_ok = False
            ctx.notes['coqchk']['tail'] = (o + e)[-800:]
            ctx.obligations.append({'name': 'coqchk C05', 'discharged': False, 'assumptions': [],
                                    'note': 'coqchk failed or reports axioms'})

    # ---- 3. implementation
    files = {c: f for c, f in zip(COMPS, ['femio_nodes.npz', 'femio_elements.npz', 'femio_nodal_data.npz',
                                          'femio_elemental_data.npz', 'femio_constraints.npz',
                                          'femio_settings.npz'])}
    sentinel = 'femio_npy_saved.npy'
    if cfg:
        files = {COMPS[COQ_COMP.index(c)]: f for c, f in cfg['load_names']}
        sentinel = cfg['read_sentinel']
    pool = pool_descs(ctx)
    # key_cfg_ok rejects the translated key configuration but the model itself finds no collection that
    # fails to round-trip (e.g. a correct `endswith` spelling of the tests): the static check is
    # incomplete there, not the code wrong -> search deeper (widened key stream) instead of alarming
    key_incomplete = bool(ktie_ok and kcfg_ok is False and key_witness is not None
                          and not key_witness['colliding_pairs'] and not key_witness['failing_names']
                          and not key_witness['time_series_lost'])
    hs = gen_histories(ctx, cfg, widen='save' in degraded)
    rts = gen_roundtrips(ctx, widen=bool(degraded) or key_incomplete)
    # corpus first
    corpus = sorted((lib.VERIF / 'corpus' / 'C05').glob('*.json'))
    for p in corpus:
        c = json.loads(p.read_text())
        hs.insert(0, {'id': 0, 'src': c['src'], 'ops': norm_ops(c['ops']), 'kind': 'corpus:' + p.name})
    for i, h in enumerate(hs):
        h['id'] = i
    types = kcfg['element_types'] if kcfg else ['line', 'tri', 'tri2', 'quad', 'tet', 'tet2', 'pyr', 'prism',
                                                'hex', 'hex2', 'hexprism']
    kcs = gen_keycases(ctx, types, widen='keys' in degraded or key_incomplete)
    ctx.log(f'{len(hs)} histories, {len(rts)} round trips, {len(kcs)} key-scheme cases')
    tws = gen_twice(ctx)
    fhs = gen_fhistories(ctx, cfg) if cfg else []
    out = run_impl(ctx, files, hs, rts, pool, kcs, tws, fhs)
    snaps = out['snaps']
    ctx.notes['member_classes_observed'] = out['classes']
    if cfg and {m: out['classes'][m] for m in cfg['classes']} != cfg['classes']:
        ctx.violation('tie-broken', {'translated': cfg['classes'], 'observed': out['classes']},
                      'classes assumed by the translator', 'differ', 'translator c05_effects',
                      found_input=False, signature={'kind': 'member-classes'})
    ctx.log('implementation done')

    # ---- 4. Coq: correspondence + oracle on the observed results
    by_id = {h['id']: h for h in hs}
    res_by_id = {x['id']: x for x in out['histories']}
    harness_errors = []
    lines = []
    for h in hs:
        steps = res_by_id[h['id']]['steps']
        obs = []
        bad = None
        for op, s in zip(h['ops'], steps):
            rc_ = result_coq(s['res'])
            if rc_ is None:
                bad = s['res']
                break
            exp_parse = snaps[h['src']] if not (op[0] in ('R', 'RC', 'RX') and op[1]) else \
                snaps[h['src']][:2] + [None] * 4
            if s['res'][0] == 'P' and s['res'][1] is not None and s['res'][1] != exp_parse:
                bad = ['parse-not-deterministic', s['res'][1], exp_parse]
                break
            ls = '[' + '; '.join(f'({lib.coq_str(k)}, {content_coq(v)})' for k, v in sorted(s['ls'].items())) + ']'
            obs.append(f'({rc_}, {ls})')
        if bad is not None:
            harness_errors.append((h['id'], bad))
            continue
        hist = '[' + '; '.join(op_coq(o) for o in h['ops']) + ']'
        lines.append((h['id'], f'o{h["src"]}', hist, '[' + '; '.join(obs) + ']',
                      not any(o[0] == 'SXM' for o in h['ops'])))
    defs = [f'Definition o{j} : snap := {snap_coq(s)}.' for j, s in enumerate(snaps)]
    disagree, violating = [], []
    model_ok = tie_ok and cfg_ok is not None
    CH = 150

    def eval_chunk(c0):
        chunk = lines[c0:c0 + CH]
        txt = list(HEADER) if model_ok else [x for x in HEADER if 'SaveCfg' not in x]
        txt += defs
        if model_ok:
            txt.append('Definition corr : list (nat * option nat) := [')
            txt.append(';\n'.join(f'({i}, agree cfg {s} {h} {o})' for i, s, h, o, ag in chunk if ag) + '].')
        txt.append('Definition orac : list (nat * option nat) := [')
        txt.append(';\n'.join(f'({i}, oracle {s} {h} {o})' for i, s, h, o, ag in chunk) + '].')
        sel = 'filter (fun c => match snd c with Some _ => true | None => false end)'
        if model_ok:
            txt += ['Goal True. idtac "@@ disagree". Abort.', f'Eval vm_compute in {sel} corr.']
        txt += ['Goal True. idtac "@@ violating". Abort.', f'Eval vm_compute in {sel} orac.']
        return ctx.coq_eval(f'Corr{c0 // CH}', '\n'.join(txt) + '\n', timeout=900)

    from concurrent.futures import ThreadPoolExecutor
    with ThreadPoolExecutor(max_workers=6) as ex:
        results = list(ex.map(eval_chunk, range(0, len(lines), CH)))
    pair = re.compile(r'\((\d+),\s*Some\s+(\d+)\)')
    for rc, o, e in results:
        if rc != 0:
            ctx.log('correspondence file failed to compile', e[-800:])
            harness_errors.append((-1, 'Corr file: ' + e[-300:]))
            continue
        parts = lib.parse_marked(o)
        disagree += [(int(a), int(b)) for a, b in pair.findall(parts.get('disagree', '').split(' : ')[0])]
        violating += [(int(a), int(b)) for a, b in pair.findall(parts.get('violating', '').split(' : ')[0])]
    ctx.log(f'coq: {len(disagree)} disagreements, {len(violating)} violating histories')

    for h in hs:
        steps = res_by_id[h['id']]['steps']
        nontriv = any(o[0] in ('S', 'SC', 'RC', 'SX', 'SXM', 'RX') for o in h['ops'])
        ctx.count('kind:' + h['kind'].split(':')[0])
        ctx.count('len:%d' % len(h['ops']))
        for o, s in zip(h['ops'], steps):
            ctx.count('op:' + o[0])
            if s['died']:
                ctx.count('crashed')
            ctx.count('res:' + s['res'][0])
        ctx.case([h['src'], h['ops']], nontrivial=nontriv,
                 sample={'source': SOURCES[h['src']][1], 'ops': h['ops'],
                         'results': [s['res'] for s in steps], 'listing_after_last': steps[-1]['ls']})
    ctx.corr = {'cases': len(lines), 'disagreements': len(disagree),
                'harness_errors': len(harness_errors), 'round_trips': len(rts)}
    ctx.notes['search_evaluations'] = len(hs) + len(rts)

    # ---- 5. violations of the property on the implementation (histories)
    n_impl_bad = 0
    n_impl_unknown = 0          # failing histories that are not listed known findings
    seen_shape = set()
    for hid, i in violating:
        h = by_id[hid]
        steps = res_by_id[hid]['steps']
        sig = classify(h, steps, i, sentinel)
        n_impl_bad += 1
        key = json.dumps(sig, sort_keys=True)
        if key in seen_shape:
            ctx._seen_sigs[key] = ctx._seen_sigs.get(key, 0) + 1 if key in ctx._seen_sigs else 1
            continue
        seen_shape.add(key)
        n_impl_unknown += 0 if ctx.violation(
                      'impl-violation',
                      {'source': SOURCES[h['src']][1], 'src': h['src'], 'ops': shrink_ops(h, i),
                       'pool': pool, 'snaps': snaps},
                      'the read parses the source or loads the image of a completely saved data set '
                      '(Model.spec_step)',
                      {'violating_op_index': i, 'result': steps[i]['res'],
                       'listing_before_read': steps[i - 1]['ls'] if i > 0 else {}},
                      'C05_crash_safe / oracle Model.spec_run on the implementation',
                      found_input=True, signature=sig,
                      what=f"read after {sig['after']} returned {sig['loaded']}") else 1
    ctx.notes['impl_property_failures'] = n_impl_bad

    # ---- 6. disagreements model / implementation
    for hid, i in disagree[:5]:
        h = by_id[hid]
        steps = res_by_id[hid]['steps']
        ctx.violation('correspondence',
                      {'source': SOURCES[h['src']][1], 'src': h['src'], 'ops': h['ops'][:i + 1]},
                      'Model.run reproduces read results and femio_* listing after every op',
                      {'first_difference_at_op': i, 'impl_result': steps[i]['res'], 'impl_listing': steps[i]['ls']},
                      'correspondence C05 (Model.agree)', found_input=False,
                      signature={'kind': 'correspondence', 'op': h['ops'][i][0]},
                      what='implementation run not reproduced by the model')
    for hid, bad in harness_errors[:3]:
        ctx.violation('correspondence', {'history': by_id[hid]['ops'] if hid in by_id else None},
                      'every op returns a classifiable result', bad, 'harness C05',
                      found_input=False, signature={'kind': 'harness-error'})

    # ---- 7. round trips of single objects (exactness)
    n_rt_bad = 0
    n_key_unknown = 0           # failing round trips / key cases that are not listed known findings
    for rt, r in zip(rts, out['roundtrips']):
        ctx.count('roundtrip:' + rt['feature'].split(':')[0])
        ok = not r.get('build_error') and r.get('exc') is None and not r.get('diff')
        ctx.case(['rt', rt['feature'], rt['desc']['seed']], nontrivial=True)
        if r.get('build_error'):
            harness_errors.append((rt['id'], r['build_error']))
            ctx.violation('correspondence', {'roundtrip': rt}, 'object can be built', r['build_error'],
                          'harness C05', found_input=False, signature={'kind': 'build-error', 'feature': rt['feature']})
            continue
        if not ok:
            n_rt_bad += 1
            if r.get('diff') == ['settings'] and rt['feature'] == 'solution-type-none':
                r['exc'] = None
            n_key_unknown += 0 if ctx.violation('impl-violation', {'roundtrip': rt},
                          'read_npy_directory(save(d)) reproduces every component exactly',
                          {'exception': r.get('exc'), 'components_that_differ': r.get('diff'),
                           'settings_before_after': r.get('settings')},
                          'C05 save/load exactness (round-trip oracle)', found_input=True,
                          signature={'site': 'save/load round trip', 'feature': rt['feature'].split(':')[0],
                                     'outcome': 'raises' if r.get('exc') else 'differs'},
                          what=f"round trip of an object with feature {rt['feature']}: {r.get('exc') or r.get('diff')}") else 1
    ctx.notes['roundtrip_failures'] = n_rt_bad

    # ---- 6b. histories with read_directory's read_npy / save options (FlagModel.v): Model vs femio
    #          (fagree) and the specification on femio's results (foracle), evaluated in Coq
    fres = {x['id']: x for x in out.get('fhistories', [])}
    flines, f_err = [], []
    for h in fhs:
        steps = fres[h['id']]['steps']
        obs, bad = [], None
        for op, s_ in zip(h['ops'], steps):
            rc_ = result_coq(s_['res'])
            if rc_ is None:
                bad = s_['res']
                break
            exp_parse = snaps[h['src']] if not (op[0] in ('RF', 'RFC') and op[1]) else \
                snaps[h['src']][:2] + [None] * 4
            if s_['res'][0] == 'P' and s_['res'][1] is not None and s_['res'][1] != exp_parse:
                bad = ['parse-not-deterministic', s_['res'][1], exp_parse]
                break
            ls = '[' + '; '.join(f'({lib.coq_str(k)}, {content_coq(v)})' for k, v in sorted(s_['ls'].items())) + ']'
            obs.append(f'({rc_}, {ls})')
        if bad is not None:
            f_err.append((h['id'], bad))
            continue
        flines.append((h['id'] - 100000, f'o{h["src"]}', '[' + '; '.join(fop_coq(o) for o in h['ops']) + ']',
                       '[' + '; '.join(obs) + ']'))
        ctx.count('kind:' + h['kind'])
        ctx.case(['flags', h['src'], h['ops']], nontrivial=True)
    fdis, fvio = [], []
    if flines:
        def feval(c0):
            chunk = flines[c0:c0 + CH]
            txt = list(HEADER) if model_ok else [x for x in HEADER if 'SaveCfg' not in x]
            txt += ['From FV.C05 Require Import FlagModel.'] + defs
            if model_ok:
                txt.append('Definition corr : list (nat * option nat) := [')
                txt.append(';\n'.join(f'({i}, fagree cfg {s_} {h_} {o_})' for i, s_, h_, o_ in chunk) + '].')
            txt.append('Definition orac : list (nat * option nat) := [')
            txt.append(';\n'.join(f'({i}, foracle {s_} {h_} {o_})' for i, s_, h_, o_ in chunk) + '].')
            sel = 'filter (fun c => match snd c with Some _ => true | None => false end)'
            if model_ok:
                txt += ['Goal True. idtac "@@ disagree". Abort.', f'Eval vm_compute in {sel} corr.']
            txt += ['Goal True. idtac "@@ violating". Abort.', f'Eval vm_compute in {sel} orac.']
            return ctx.coq_eval(f'CorrFlags{c0 // CH}', '\n'.join(txt) + '\n', timeout=900)
        with ThreadPoolExecutor(max_workers=6) as ex:
            fresults = list(ex.map(feval, range(0, len(flines), CH)))
        for rc, o, e in fresults:
            if rc != 0:
                ctx.log('flag correspondence file failed to compile', e[-800:])
                f_err.append((-1, 'CorrFlags file: ' + e[-300:]))
                continue
            parts = lib.parse_marked(o)
            fdis += [(int(a), int(b)) for a, b in pair.findall(parts.get('disagree', '').split(' : ')[0])]
            fvio += [(int(a), int(b)) for a, b in pair.findall(parts.get('violating', '').split(' : ')[0])]
    ctx.corr['flag_histories'] = len(flines)
    ctx.corr['flag_disagreements'] = len(fdis)
    ctx.corr['disagreements'] += len(fdis)
    ctx.notes['flag_impl_property_failures'] = len(fvio)
    ctx.log(f'read options: {len(flines)} histories in Coq, {len(fdis)} disagreements, {len(fvio)} violating')
    fby = {h['id'] - 100000: h for h in fhs}
    fres = {k - 100000: v for k, v in fres.items()}
    seen_f = set()
    for hid, i in fvio:
        h = fby[hid]
        steps = fres[hid]['steps']
        op = h['ops'][i]
        sig = {'site': 'FEMData.read_directory', 'options': {'read_mesh_only': op[1], 'read_npy': op[2],
                                                              'save': op[3]},
               'returned': steps[i]['res'][0]}
        key = json.dumps(sig, sort_keys=True)
        if key in seen_f:
            continue
        seen_f.add(key)
        ctx.violation('impl-violation',
                      {'source': SOURCES[h['src']][1], 'src': h['src'], 'flag_ops': h['ops'][:i + 1], 'pool': pool},
                      'a read with read_npy=True parses or loads the image of a completely saved data set; '
                      'a read with read_npy=False parses (FlagModel.fspec_step)',
                      {'violating_op_index': i, 'result': steps[i]['res'],
                       'listing_before_read': steps[i - 1]['ls'] if i > 0 else {}},
                      'C05_crash_safe_flags / oracle FlagModel.fspec_run on the implementation',
                      found_input=True, signature=sig,
                      what=f"read_directory with options {sig['options']} returned {steps[i]['res'][0]}")
    for hid, i in fdis[:3]:
        h = fby[hid]
        steps = fres[hid]['steps']
        ctx.violation('correspondence', {'source': SOURCES[h['src']][1], 'src': h['src'], 'flag_ops': h['ops'][:i + 1]},
                      'FlagModel.frun reproduces read results and femio_* listing after every op',
                      {'first_difference_at_op': i, 'impl_result': steps[i]['res'], 'impl_listing': steps[i]['ls']},
                      'correspondence C05 (FlagModel.fagree)', found_input=False,
                      signature={'kind': 'flag-correspondence', 'op': h['ops'][i][:4]},
                      what='implementation run with read options not reproduced by the model')
    for hid, bad in f_err[:2]:
        ctx.violation('correspondence', {'flag_history': fby[hid - 100000]['ops'] if hid - 100000 in fby else None},
                      'every op returns a classifiable result', bad, 'harness C05 (read options)',
                      found_input=False, signature={'kind': 'flag-harness-error'})

    # ---- 7c. value-level model (ValModel.comp_dict): for every saved object, the keys of every cache
    #          file (np.load(...).files, in order) against the model's dictionaries of a tagged object
    #          with the same labels, evaluated in Coq
    vlines, n_val_files = [], 0
    S_ = lib.coq_str
    bb = lambda x: 'true' if x else 'false'  # noqa: E731
    if kcfg and kcfg_ok is not None:
        for rt, r in zip(rts, out['roundtrips']):
            sh_, fk = r.get('shape'), r.get('file_keys')
            if not sh_ or fk is None:
                continue
            names = sh_['types'] + [n for n, _ in sh_['nodal'] + sh_['constraints']] + sh_['settings'] + \
                [x for n, ts in sh_['elemental'] for x in [n] + ts]
            if not all(all(32 <= ord(ch) < 127 for ch in n) for n in names):
                continue
            fem = ('tagged_fem ' + bb(sh_['nodes_ts']) + ' ' + lib.coq_list([S_(t) for t in sh_['types']]) + ' '
                   + lib.coq_list([f'({S_(n)}, {bb(ts)})' for n, ts in sh_['nodal']]) + ' '
                   + lib.coq_list([f'({S_(n)}, {lib.coq_list([S_(t) for t in ts])})' for n, ts in sh_['elemental']])
                   + ' ' + lib.coq_list([f'({S_(n)}, {bb(ts)})' for n, ts in sh_['constraints']]) + ' '
                   + lib.coq_list([S_(k) for k in sh_['settings']]))
            tests = []
            for c, comp in zip(COQ_COMP, COMPS):
                keys = fk.get(files[comp], [])
                tests.append(f'file_keys_case kcfg d{rt["id"]} {c} {lib.coq_list([S_(k) for k in keys])}')
                n_val_files += 1
            vlines.append((rt['id'], f'Definition d{rt["id"]} := {fem}.',
                           'forallb (fun b => b) ' + lib.coq_list(tests)))
    vdis = []
    if vlines:
        txt = list(KHEADER) + ['From FV.C05 Require Import Model ValModel.'] + [d_ for _, d_, _ in vlines] + \
            ['Definition vcases : list (nat * bool) := [', ';\n'.join(f'({i}, {t})' for i, _, t in vlines) + '].',
             'Goal True. idtac "@@ failing". Abort.',
             'Eval vm_compute in map fst (filter (fun c => negb (snd c)) vcases).']
        rc, o, e = ctx.coq_eval('CorrVals', '\n'.join(txt) + '\n', timeout=600)
        if rc != 0:
            ctx.log('value correspondence file failed to compile', e[-600:])
            harness_errors.append((-1, 'CorrVals: ' + e[-300:]))
            ctx.violation('correspondence', {'file': 'CorrVals.v'}, 'the scratch file compiles', e[-400:],
                          'harness C05 (value cases)', found_input=False, signature={'kind': 'val-harness-error'})
        else:
            t = lib.parse_marked(o).get('failing', '').split(' : ')[0]
            vdis = [int(x) for x in re.findall(r'\d+', t)]
    ctx.corr['value_cases'] = len(vlines)
    ctx.corr['value_files'] = n_val_files
    ctx.corr['value_disagreements'] = len(vdis)
    ctx.corr['disagreements'] += len(vdis)
    ctx.log(f'value model: {len(vlines)} saved objects ({n_val_files} files) in Coq, {len(vdis)} disagreements')
    rt_by = {rt['id']: (rt, r) for rt, r in zip(rts, out['roundtrips'])}
    for i in vdis[:3]:
        rt, r = rt_by[i]
        ctx.violation('correspondence', {'roundtrip': rt},
                      'ValModel.comp_dict gives the keys of every cache file of a saved object, in order',
                      {'labels': r.get('shape'), 'file_keys': r.get('file_keys')},
                      'correspondence C05 (ValModel.file_keys_case)', found_input=False,
                      signature={'kind': 'value-correspondence', 'feature': rt['feature'].split(':')[0]},
                      what='keys of the cache files not reproduced by the value-level model')

    # ---- 7d. settings through the cache (SetModel.roundtrip) against the settings of every saved /
    #          loaded object, classified (None / str / number / sequence of a shape; ndarray or object)
    def pyv_coq(k_):
        if k_[0] == 'none':
            return 'PNone'
        if k_[0] == 'str':
            return f'(PStr {lib.coq_str(k_[1])})'
        if k_[0] == 'num':
            return f'(PNum {lib.coq_Z(k_[1])})'
        return f'(PSeq {lib.coq_list([str(int(x)) for x in k_[1]])} {lib.coq_Z(k_[2])})'
    slines = []
    for rt, r in zip(rts, out['roundtrips']):
        sk = r.get('settings_kinds')
        if not sk:
            continue
        strs = [k for k, _ in sk[0] + sk[1]] + [v[1] for _, v in sk[0] if v[0] == 'str'] + \
            [v[1][1] for _, v in sk[1] if v[1][0] == 'str']
        if not all(isinstance(x, str) and all(32 <= ord(ch) < 127 for ch in x) for x in strs):
            continue
        st = dict(sk[0]).get('solution_type')
        if st is not None and st[0] not in ('none', 'str'):
            continue        # str() of a number / sequence is numpy's rendering: outside the executable model
        before = lib.coq_list([f'({lib.coq_str(k)}, {pyv_coq(v)})' for k, v in sk[0]])
        after = lib.coq_list([f'({lib.coq_str(k)}, ({"LArr" if v[0] == "arr" else "LPy"} {pyv_coq(v[1])}))'
                              for k, v in sk[1]])
        slines.append((rt['id'], f'settings_case {before} {after}'))
    sdis = []
    if slines:
        txt = ['From Coq Require Import String List ZArith. Import ListNotations.',
               'From FV.C05 Require Import SetModel.', 'Open Scope string_scope.',
               'Set Printing Width 100000.', 'Set Printing Depth 100000.',
               'Definition scases : list (nat * bool) := [',
               ';\n'.join(f'({i}, {t})' for i, t in slines) + '].',
               'Goal True. idtac "@@ failing". Abort.',
               'Eval vm_compute in map fst (filter (fun c => negb (snd c)) scases).']
        rc, o, e = ctx.coq_eval('CorrSettings', '\n'.join(txt) + '\n', timeout=600)
        if rc != 0:
            ctx.log('settings correspondence file failed to compile', e[-600:])
            ctx.violation('correspondence', {'file': 'CorrSettings.v'}, 'the scratch file compiles', e[-400:],
                          'harness C05 (settings cases)', found_input=False,
                          signature={'kind': 'settings-harness-error'})
        else:
            t = lib.parse_marked(o).get('failing', '').split(' : ')[0]
            sdis = [int(x) for x in re.findall(r'\d+', t)]
    ctx.corr['settings_cases'] = len(slines)
    ctx.corr['settings_disagreements'] = len(sdis)
    ctx.corr['disagreements'] += len(sdis)
    ctx.log(f'settings model: {len(slines)} saved/loaded settings in Coq, {len(sdis)} disagreements')
    for i in sdis[:3]:
        rt, r = rt_by[i]
        ctx.violation('correspondence', {'roundtrip': rt},
                      'SetModel.roundtrip gives the settings of the loaded object (which keys, ndarray or '
                      'Python object, shape)',
                      {'settings_saved_loaded': r.get('settings_kinds')},
                      'correspondence C05 (SetModel.settings_case) / C05_settings_roundtrip',
                      found_input=False,
                      signature={'site': 'save/load round trip', 'feature': rt['feature'].split(':')[0],
                                 'outcome': 'settings-differ'},
                      what='settings of the loaded object differ from np.savez/np.load + the solution_type '
                           'handling the model describes')

    # ---- 7a. real source directories read twice (parse, then cache)
    n_tw_bad = 0
    for tw, r in zip(tws, out.get('twice', [])):
        if 'first_exc' in r:
            ctx.count('twice:unparseable')
            continue
        ctx.count('twice:' + ('time-series' if tw['time_series'] else 'plain'))
        ctx.case(['twice', tw['name']], nontrivial=True)
        bad = 'second_exc' in r or r.get('diff') or r.get('second') != 'loaded' or r.get('first') != 'parsed'
        if bad:
            n_tw_bad += 1
            ts_ = r.get('types', [])
            if tw['time_series']:
                sig = {'site': 'save/load round trip', 'feature': 'time-series', 'outcome': 'raises'}
            elif r.get('diff') == ['settings'] and "'solution_type': None" in r.get('settings_first', '') \
                    and "'solution_type': 'STATIC'" in r.get('settings_second', ''):
                sig = {'site': 'save/load round trip', 'feature': 'solution-type-none', 'outcome': 'differs'}
            elif any(a != b and a in b for a in ts_ for b in ts_) and 'second_exc' in r:
                sig = {'site': 'save/load round trip', 'feature': 'types-substring', 'outcome': 'raises'}
            else:
                sig = {'site': 'read_directory twice', 'source': tw['name'],
                       'outcome': 'raises' if 'second_exc' in r else 'differs'}
            n_key_unknown += 0 if ctx.violation('impl-violation', {'twice': tw},
                          'the second read_directory is served from the cache and returns the same six '
                          'components as the first (parsed) one',
                          r, 'C05_cache_transparent / oracle on real source directories', found_input=True,
                          signature=sig, what=f"reading {tw['name']} twice: {r.get('second_exc') or r.get('diff')}") else 1
    ctx.notes['twice_failures'] = n_tw_bad
    ctx.corr['sources_read_twice'] = len(tws)

    # ---- 7b. key scheme: correspondence (model in Coq vs to_dict/from_dict) and oracle
    kres = {x['id']: x for x in out['keycases']}
    klines, k_unclassified = [], []
    n_key_bad = 0
    for kc in kcs:
        r = kres[kc['id']]
        ctx.count('keycase:' + kc['kind'] + (':malformed' if kc.get('malformed') else ''))
        ctx.case(['key', kc], nontrivial=True)
        if 'build_error' in r:
            k_unclassified.append((kc, r['build_error']))
            continue
        kc['_table'] = types
        if kc.get('ts') and kcfg and not kcfg['writes_ts']:
            # the flag is not stored: femio's constructor rejects the loaded shape (known finding);
            # shapes are not part of the model
            term = False
        else:
            term = key_case_coq(kc, r) if ktie_ok and kcfg_ok is not None else None
        del kc['_table']
        if term is None and ktie_ok and kcfg_ok is not None:
            k_unclassified.append((kc, r.get('exc')))
        elif term:
            klines.append((kc['id'], term))
        if key_wellformed(kc) and not kc.get('malformed') and not key_expected_ok(kc, r):
            n_key_bad += 1
            feat = key_feature(kc)
            n_key_unknown += 0 if ctx.violation('impl-violation', {'keycase': kc},
                          'from_dict(to_dict(x)) returns the same labels and arrays',
                          {k: r.get(k) for k in ('keys', 'ok', 'exc', 'msg')},
                          'C05_*_dict_roundtrip / oracle on to_dict -> from_dict', found_input=True,
                          signature={'site': 'save/load round trip', 'feature': feat,
                                     'outcome': 'raises' if 'exc' in r else 'differs'},
                          what=f'to_dict -> from_dict of {kc["kind"]} {kc.get("types") or kc.get("names") or kc.get("items") or kc.get("prefix")}') else 1
    kdis = []
    if klines:
        txt = list(KHEADER) + ['Definition cases : list (nat * bool) := [',
                               ';\n'.join(f'({i}, {t})' for i, t in klines) + '].',
                               'Goal True. idtac "@@ failing". Abort.',
                               'Eval vm_compute in map fst (filter (fun c => negb (snd c)) cases).']
        rc, o, e = ctx.coq_eval('CorrKeys', '\n'.join(txt) + '\n', timeout=600)
        if rc != 0:
            ctx.log('key correspondence file failed to compile', e[-600:])
            k_unclassified.append((None, 'CorrKeys: ' + e[-300:]))
        else:
            t = lib.parse_marked(o).get('failing', '').split(' : ')[0]
            kdis = [int(x) for x in re.findall(r'\d+', t)]
    ctx.corr['key_cases'] = len(klines)
    ctx.corr['key_disagreements'] = len(kdis)
    ctx.corr['disagreements'] += len(kdis)
    ctx.notes['key_oracle_failures'] = n_key_bad
    ctx.log(f'key scheme: {len(klines)} cases in Coq, {len(kdis)} disagreements, {n_key_bad} oracle failures')
    kby = {kc['id']: kc for kc in kcs}
    for i in kdis[:5]:
        ctx.violation('correspondence', {'keycase': kby[i]},
                      'KeyModel reproduces the keys of to_dict and the outcome of from_dict',
                      {k: kres[i].get(k) for k in ('keys', 'ok', 'exc', 'msg')},
                      'correspondence C05 (KeyModel.*_case)', found_input=False,
                      signature={'kind': 'key-correspondence', 'case': kby[i]['kind']},
                      what='to_dict/from_dict not reproduced by the model')
    for kc, why in k_unclassified[:3]:
        ctx.violation('correspondence', {'keycase': kc}, 'case can be built and classified', why,
                      'harness C05 (key cases)', found_input=False,
                      signature={'kind': 'key-harness-error'})
    if not ktie_ok and n_key_unknown == 0:
        ctx.violation('tie-broken', {'translator_error': ctx.notes.get('key_translator_error')},
                      'translator accepts to_dict / from_dict / _split_dict_data', 'fail-closed',
                      'translator c05_keys (key_cfg_ok cannot be evaluated)', found_input=False,
                      signature={'kind': 'key-tie-broken'})
    if ktie_ok and (kcfg_ok is None or not kproof_ok) and n_key_unknown == 0:
        bad = [o['name'] for o in ctx.obligations if not o['discharged']]
        ctx.violation('proof-broken', {'undischarged': bad}, 'C05 key-scheme theorems check', 'do not check',
                      ', '.join(bad) or 'key model build', found_input=False,
                      signature={'kind': 'key-proof-broken'})
    if key_incomplete:
        ctx.notes['key_static_check_incomplete'] = (
            'key_cfg_ok rejects the translated configuration, the model finds no failing collection; the '
            'instantiated round-trip theorems are NOT available for this tree; widened key correspondence '
            f'({len(klines)} cases, {len(kdis)} disagreements, {n_key_bad} oracle failures) decides')
    if ktie_ok and kcfg_ok is False and n_key_bad == 0 and n_rt_bad == 0 and not key_incomplete:
        # rejected with a model witness, but nothing fails on femio
        ctx.violation('proof-broken', {'model_witnesses': key_witness},
                      'key_cfg_ok kcfg = true', 'false, and no failing input was found on the implementation',
                      'C05_run_key_cfg_rejected', found_input=False,
                      signature={'kind': 'key-cfg-rejected-no-repro'})

    # ---- 8. broken tie / proof without a failing input
    if not tie_ok and n_impl_unknown == 0:
        ctx.violation('tie-broken', {'translator_error': ctx.notes.get('translator_error')},
                      'translator accepts FEMData.save / read_directory / read_npy_directory', 'fail-closed',
                      'translator c05_effects (cfg_ok cannot be evaluated)', found_input=False,
                      signature={'kind': 'tie-broken'})
    if tie_ok and (cfg_ok is None or not proof_ok) and n_impl_unknown == 0:
        bad = [o['name'] for o in ctx.obligations if not o['discharged']]
        ctx.violation('proof-broken', {'undischarged': bad}, 'C05 theorems check', 'do not check',
                      ', '.join(bad) or 'model build', found_input=False, signature={'kind': 'proof-broken'})
    if tie_ok and cfg_ok is False and n_impl_bad == 0:      # rejected, but no history fails on femio
        ctx.violation('proof-broken', {'model_witness': witness},
                      'cfg_ok SaveCfg.cfg = true', 'false, and the model witness did not reproduce on the '
                      'implementation within the explored histories',
                      'C05_run_crash_safe_refuted', found_input=False, signature={'kind': 'cfg-rejected-no-repro'})
    # ---- 9. how the model was tied to the tree under test in this run
    tie = {}
    n_h = ctx.corr.get('cases', 0)
    n_k = ctx.corr.get('key_cases', 0)
    if 'save' in degraded:
        tie['save/read region'] = (f"H (translator could not read FEMData.save / read_directory / "
                                   f"read_npy_directory: {degraded['save']}; baseline model + widened "
                                   f"correspondence, {n_h} histories + {len(rts)} round trips)")
    elif tie_ok:
        tie['save/read region'] = f'T (translated on this run) + H ({n_h} histories)'
    if 'keys' in degraded:
        tie['key scheme'] = (f"H (translator could not read to_dict / from_dict / _split_dict_data: "
                             f"{degraded['keys']}; baseline model + widened correspondence, {n_k} key cases "
                             f"+ {len(rts)} round trips)")
    elif ktie_ok and key_incomplete:
        tie['key scheme'] = (f'T (translated on this run; key_cfg_ok cannot decide this configuration and the '
                             f'model finds no failing collection: theorems not instantiated) + widened H '
                             f'({n_k} key cases)')
    elif ktie_ok:
        tie['key scheme'] = f'T (translated on this run) + H ({n_k} key cases)'
    ctx.notes['tie'] = tie
    if degraded:
        ctx.trusted.append('this run: ' + '; '.join(tie[k] for k in tie if tie[k].startswith('H (')))
        for o in ctx.obligations:
            if o['name'].startswith('C05_run_') and not o.get('note'):
                o['note'] = ('instantiated on the BASELINE configuration of the region(s) the translator could '
                             'not read (' + ', '.join(sorted(degraded)) + '); tied to the tree under test by '
                             'the widened correspondence only')
    ctx.exhaustive = False
    return ctx.finish()


def replay(path):
    text = Path(path).read_text()
    rp = json.loads(text)
    c = rp['case']
    ctx = lib.Ctx('C05', 'quick')
    if not Path(path).exists():      # lib.Ctx clears evidence/replay/C05_*.json
        Path(path).write_text(text)
    try:
        cfg, _ = c05_effects.translate(str(lib.REPO))
    except c05_effects.TranslateError as e:
        print('save translator could not read the tree under test (%s): baseline model' % str(e)[:200])
        cfg = json.loads(BASELINE.read_text())['save_cfg']
        cfg['load_names'] = [tuple(x) for x in cfg['load_names']]
    files = {COMPS[COQ_COMP.index(k)]: f for k, f in cfg['load_names']}
    if 'ops' in c:
        c['ops'] = norm_ops(c['ops'])
        hs = [{'id': 0, 'src': c['src'], 'ops': c['ops'], 'kind': 'replay'}]
        out = run_impl(ctx, files, hs, [], c['pool'])
        steps = out['histories'][0]['steps']
        for o, s in zip(c['ops'], steps):
            print('op', o, '->', s['res'], 'died' if s['died'] else '', s['ls'])
        print('object snapshots (component identities):', out['snaps'])
        lib.write_if_changed(lib.COQ / 'C05' / 'gen' / 'SaveCfg.v', c05_effects.emit(cfg))
        ok, log, _ = lib.coq_make(['C05/gen/SaveCfg.vo'])
        obs = []
        for s in steps:
            ls = '[' + '; '.join(f'({lib.coq_str(k)}, {content_coq(v)})' for k, v in sorted(s['ls'].items())) + ']'
            obs.append(f'({result_coq(s["res"]) or "RNone"}, {ls})')
        hist = '[' + '; '.join(op_coq(o) for o in c['ops']) + ']'
        txt = HEADER + [f'Definition o{j} : snap := {snap_coq(sn)}.' for j, sn in enumerate(out['snaps'])]
        txt += ['Goal True. idtac "@@ model". Abort.',
                f'Eval vm_compute in run cfg o{c["src"]} {hist} [].',
                'Goal True. idtac "@@ first-difference". Abort.',
                f'Eval vm_compute in agree cfg o{c["src"]} {hist} [{"; ".join(obs)}].',
                'Goal True. idtac "@@ property-violated-at-op". Abort.',
                f'Eval vm_compute in oracle o{c["src"]} {hist} [{"; ".join(obs)}].']
        rc, o, e = ctx.coq_eval('Replay', '\n'.join(txt) + '\n')
        parts = lib.parse_marked(o)
        print('model (Model.run in Coq):', parts.get('model', e[-300:]).strip())
        print('first op at which model and implementation differ:', parts.get('first-difference', '').strip())
        v = parts.get('property-violated-at-op', '').strip()
        print('property (Model.spec_run on the implementation results) violated at op:', v)
        bad = 'Some' in v
        print('property', 'VIOLATED' if bad else 'holds', 'on this input')
        return 1 if bad else 0
    if 'flag_ops' in c:
        fh = [{'id': 100000, 'src': c['src'], 'ops': c['flag_ops'], 'kind': 'replay'}]
        out = run_impl(ctx, files, [], [], c['pool'], fhs=fh)
        steps = out['fhistories'][0]['steps']
        for o, s_ in zip(c['flag_ops'], steps):
            print('op', o, '->', s_['res'], 'died' if s_['died'] else '', s_['ls'])
        obs = []
        for s_ in steps:
            ls = '[' + '; '.join(f'({lib.coq_str(k)}, {content_coq(v)})' for k, v in sorted(s_['ls'].items())) + ']'
            obs.append(f'({result_coq(s_["res"]) or "RNone"}, {ls})')
        hist = '[' + '; '.join(fop_coq(o) for o in c['flag_ops']) + ']'
        txt = [x for x in HEADER if 'SaveCfg' not in x] + ['From FV.C05 Require Import FlagModel.'] + \
            [f'Definition o{j} : snap := {snap_coq(sn)}.' for j, sn in enumerate(out['snaps'])] + \
            ['Goal True. idtac "@@ property-violated-at-op". Abort.',
             f'Eval vm_compute in foracle o{c["src"]} {hist} [{"; ".join(obs)}].']
        rc, o, e = ctx.coq_eval('ReplayFlags', '\n'.join(txt) + '\n')
        v = lib.parse_marked(o).get('property-violated-at-op', e[-300:]).strip()
        print('property (FlagModel.fspec_run on the implementation results) violated at op:', v)
        bad = 'Some' in v
        print('property', 'VIOLATED' if bad else 'holds', 'on this input')
        return 1 if bad else 0
    if 'twice' in c:
        out = run_impl(ctx, files, [], [], [], (), [c['twice']])
        r = out['twice'][0]
        print('read twice:', json.dumps(r))
        bad = 'second_exc' in r or bool(r.get('diff'))
        print('property', 'VIOLATED' if bad else 'holds', 'on this input')
        return 1 if bad else 0
    if 'keycase' in c:
        out = run_impl(ctx, files, [], [], [], [dict(c['keycase'], id=0)])
        r = out['keycases'][0]
        print('to_dict -> from_dict:', json.dumps(r))
        bad = not key_expected_ok(c['keycase'], r)
        print('property', 'VIOLATED' if bad else 'holds', 'on this input')
        return 1 if bad else 0
    if 'roundtrip' in c:
        out = run_impl(ctx, files, [], [c['roundtrip']], [])
        r = out['roundtrips'][0]
        print('round trip:', json.dumps(r))
        bad = bool(r.get('exc') or r.get('diff'))
        print('property', 'VIOLATED' if bad else 'holds', 'on this input')
        return 1 if bad else 0
    print('nothing to replay on the implementation:', json.dumps(rp, indent=1)[:2000])
    return 1


if __name__ == '__main__':
    if len(sys.argv) > 2 and sys.argv[1] == 'replay':
        sys.exit(replay(sys.argv[2]))
    tier = sys.argv[1] if len(sys.argv) > 1 else 'quick'
    sys.exit(main(lib.Ctx('C05', tier)))
