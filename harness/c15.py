"""C15 — spatial gradient operators are exact on affine fields.

Run: python harness/c15.py quick|thorough      (through ./check C15)
     python harness/c15.py replay <file>

Steps: build proofs (coq/C15/Props.v) -> corpus -> correspondence of the
explicit matrices and of the convenience functions for kernel=None, evaluated
inside Coq on rationals (H tie) -> property oracle on the implementation for
every kernel (constants -> 0, affine exactness, convenience = matrices) ->
violations -> evidence."""
import concurrent.futures as cf
import json
import re
import subprocess
import sys
from fractions import Fraction as Fr
from pathlib import Path

sys.path.insert(0, str(Path(__file__).resolve().parent))
import lib  # noqa
import c15_gen as G  # noqa
import c15_hist as H  # noqa
import c15_mod as MOD  # noqa

PID = 'C15'
TOL64 = Fr(1, 2 ** 36)     # binary64 path (divisions, sqrt, 3x3 inverse; cond <= ~1e3)
TOL32 = Fr(1, 2 ** 18)     # hex + volume weighting: femio's hex volume kernel returns float32
COND_MIN = Fr(1, 50)       # det(M0) / (tr(M0)/3)^3 of the unweighted normalised moment matrix


# ------------------------------------------------------------------ helpers
def fr_hex(h):
    return Fr(float.fromhex(h))


def q(x):
    return lib.coq_Q(Fr(x))


def coq_nat(n):
    return f'{int(n)}%nat'


def coq_mesh(name, mesh):
    nodes = lib.coq_list([f'({lib.coq_Z(i)}, ({q(p[0])}, {q(p[1])}, {q(p[2])}))'
                          for i, p in zip(mesh['node_ids'], mesh['xyz'])])
    elems = lib.coq_list([f'({lib.coq_Z(i)}, {lib.coq_list([lib.coq_Z(x) for x in c])})'
                          for i, c in zip(mesh['elem_ids'], mesh['conn'])])
    return f'Definition {name} : mesh Q := mkMesh {nodes} {elems}.'


def coq_opts(kw):
    mode = 'Nodal' if kw['mode'] == 'nodal' else 'Elemental'
    b = lambda x: 'true' if x else 'false'
    return (f"(mkOpts {mode} {coq_nat(kw['n_hop'])} {b(kw['consider_volume'])} "
            f"{b(kw['use_effective_volume'])} {b(kw['moment_matrix'])})")


def kw_key(kw):
    vol = 'none' if not kw['consider_volume'] else (
        'elem' if kw['mode'] == 'elemental' else
        ('effective' if kw['use_effective_volume'] else 'mean'))
    return f"{kw['mode']}/hop{kw['n_hop']}/vol-{vol}/{'moment' if kw['moment_matrix'] else 'plain'}" \
           f"/{kw.get('kernel') or 'none'}" + ('/order1' if kw.get('order1_only') else '')


def eff_mesh(mesh, kw):
    """the mesh the operator is built on: reduced to first-order nodes in
    nodal mode with order1_only=True"""
    if kw.get('order1_only') and kw['mode'] == 'nodal' and mesh.get('k1'):
        if '_order1_view' not in mesh:
            mesh['_order1_view'] = G.reduce_order1(mesh)
        return mesh['_order1_view']
    return mesh


def n_vertices(mesh, kw):
    m = eff_mesh(mesh, kw)
    return len(m['node_ids']) if kw['mode'] == 'nodal' else len(m['conn'])


def tol_for(mesh, kw):
    if mesh.get('xyz_dtype') == 'float32':
        return TOL32       # every offset, distance and centroid is computed in float32
    # femio's hex volume kernel returns float32 values
    if mesh['etype'] in ('hex', 'mix') and kw['consider_volume']:
        return TOL32
    return TOL64


def well_conditioned(nb, P):
    """every vertex neighbourhood spans space, with margin (exact)"""
    for i, ns in enumerate(nb):
        M = [[Fr(0)] * 3 for _ in range(3)]
        for j in ns:
            v = G.sub(P[j], P[i])
            n2 = sum(c * c for c in v)
            if n2 == 0:
                return False
            for a in range(3):
                for b in range(3):
                    M[a][b] += v[a] * v[b] / n2
        d = G.det3(M[0], M[1], M[2])
        tr = (M[0][0] + M[1][1] + M[2][2]) / 3
        if tr == 0 or d < COND_MIN * tr ** 3:
            return False
    return True


def rows_from_coo(A, n):
    """COO dict of the implementation -> per row sorted (col, Fraction), duplicates summed"""
    rows = [dict() for _ in range(n)]
    for r, c, h in zip(A['row'], A['col'], A['data']):
        rows[r][c] = rows[r].get(c, Fr(0)) + fr_hex(h)
    return [sorted(d.items()) for d in rows]


# ------------------------------------------------------------------ planning
# lattice dimensions (nodes per axis); small ones dominate because the exact
# rational evaluation of the moment-matrix rows inside Coq costs about
# sum_i |N(i)|^3
DIMS_POOL = [(2, 2, 2), (2, 2, 3), (3, 2, 2), (2, 2, 4), (2, 3, 3), (2, 2, 5), (3, 3, 3),
             (2, 3, 4), (3, 3, 4), (2, 2, 6)]


# unit of length: the same mesh multiplied by 2^k (exact), ~1e-12 ... ~1e9
# (a nanometre-scale sample described in metres, a kilometre-scale one in
# millimetres): absolute thresholds anywhere in the operator code (1e-10 on a
# coordinate difference, 1e-20 on a determinant, ...) are crossed by some mesh
SCALE_EXPS = [-40, -37, -27, -20, -13, -10, -7, -3, 0, 0, 0, 3, 7, 10, 20, 30]


def floor_of(mesh):
    """entries of a gradient operator scale like 1/length"""
    return Fr(2) ** (-mesh.get('scale_exp', 0))


def all_kw():
    out = []
    for mode in ('nodal', 'elemental'):
        for hop in (1, 2, 3):
            vols = [(False, True), (True, True)] + ([(True, False)] if mode == 'nodal' else [])
            for cv, eff in vols:
                for mm in (False, True):
                    out.append(dict(mode=mode, n_hop=hop, consider_volume=cv,
                                    use_effective_volume=eff, moment_matrix=mm))
    return out


def hex_is_parallelepiped(p):
    e1, e2, e3 = G.sub(p[1], p[0]), G.sub(p[3], p[0]), G.sub(p[4], p[0])
    want = [(0, 0, 0), (1, 0, 0), (1, 1, 0), (0, 1, 0), (0, 0, 1), (1, 0, 1), (1, 1, 1), (0, 1, 1)]
    return all(tuple(p[0][a] + c[0] * e1[a] + c[1] * e2[a] + c[2] * e3[a] for a in range(3)) == tuple(p[k])
               for k, c in enumerate(want))


def exact_volumes(mesh):
    """element volumes computed independently of femio, exactly, where that is
    possible: tets (det/6) and hexes that are parallelepipeds; else None"""
    inc = G.incidence(mesh)
    P = [tuple(Fr(c) for c in p) for p in mesh['xyz']]
    out = []
    for e in inc:
        p = [P[k] for k in e]
        if mesh['etype'] in ('tet', 'tet2') or (mesh['etype'] == 'mix' and len(e) == 4):
            out.append(Fr(G.det3(G.sub(p[1], p[0]), G.sub(p[2], p[0]), G.sub(p[3], p[0])), 6))
        elif mesh['etype'] in ('hex', 'mix') and len(e) == 8 and hex_is_parallelepiped(p):
            out.append(Fr(G.det3(G.sub(p[1], p[0]), G.sub(p[3], p[0]), G.sub(p[4], p[0]))))
        else:
            return None
    return out


def cost_estimate(mesh, kw, cache):
    """~ seconds of vm_compute for the correspondence of one case"""
    key = (id(mesh), kw['mode'], kw['n_hop'])
    if key not in cache:
        inc, nb, P = G.neighbourhoods(eff_mesh(mesh, kw), kw['mode'], kw['n_hop'])
        cache[key] = (sum(len(x) ** 3 for x in nb), sum(len(x) for x in nb),
                      sum(len(x) ** 2 for x in nb))
    c3, c1, c2 = cache[key]
    if not kw['moment_matrix']:
        f = 1.0
        if kw['consider_volume']:
            f = 8.0 if (kw['mode'] == 'nodal' and not kw['use_effective_volume']) else 1.5
        return 0.3 + (1.2e-3 * c1 + 1.2e-4 * c2) * f
    f = 1.0
    if kw['consider_volume']:
        f = 4.0 if (kw['mode'] == 'nodal' and not kw['use_effective_volume']) else 2.0
        if mesh.get('exact_vol') is None:
            f *= 2.0
    return 0.5 + 1.2e-4 * c3 * f


def min_degree(mesh, mode):
    inc, nb, P = G.neighbourhoods(mesh, mode, 1)
    return min(len(x) for x in nb)


def plan(ctx):
    rng = ctx.rng
    quick = ctx.tier == 'quick'
    n_mesh = 28 if quick else 120
    n_rounds = 4 if quick else 24            # rounds over the 30 option combinations
    per_case_cap = 12.0 if quick else 60.0
    meshes, cases = {}, []
    combos = all_kw()
    # every length unit occurs (stratified: a shuffled cycle through the list,
    # offset by one after each pass so that tet/hex alternate per unit)
    unit_cycle = rng.sample(SCALE_EXPS, len(SCALE_EXPS))
    for k in range(n_mesh):
        et = 'tet' if k % 2 == 0 else 'hex'
        pool = DIMS_POOL if quick else DIMS_POOL + [(3, 3, 5), (4, 3, 3), (4, 4, 3), (2, 4, 5)]
        dims = pool[(k // 2) % len(pool)]
        dims = tuple(rng.sample(dims, 3))
        mp = rng.choice(list(G.MAPS))
        jitter = rng.random() < (0.7 if et == 'tet' else 0.5)
        idm = rng.choice(['sparse', 'sparse', 'large', 'huge', 'dense', 'offset'])
        order = rng.choice(['shuffled', 'shuffled', 'sorted', 'reversed', 'ends_fixed', 'swap2', 'move1'])
        elem_order = rng.choice(['shuffled', 'sorted', 'reversed', 'ends_fixed', 'swap2', 'move1'])
        holes = 0.3 if (k % 5 == 3 and min(dims) >= 2 and max(dims) >= 3) else 0.0
        mesh = G.gen_mesh(rng, et, dims, spacing_max=rng.choice([2, 2, 3, 5]), jitter=jitter, map_name=mp,
                          id_mode=idm, order=order, elem_order=elem_order, holes=holes)
        G.scale_mesh(mesh, unit_cycle[(k + k // len(unit_cycle)) % len(unit_cycle)])
        # coordinate dtype handed to femio (integers only where the coordinates are integers)
        dts = ['float64'] * 5 + ['float32'] + (['int64', 'int32'] if mesh['scale_exp'] >= 0 else [])
        mesh['xyz_dtype'] = rng.choice(dts)
        mesh['descr']['xyz_dtype'] = mesh['xyz_dtype']
        mesh['exact_vol'] = exact_volumes(mesh)
        mesh['min_degree'] = {md: min_degree(mesh, md) for md in ('nodal', 'elemental')}
        meshes[f'm{k}'] = mesh
    mids = list(meshes)
    cache = {}
    unplaced = 0
    total_budget = 1500.0 if quick else 12000.0      # estimated CPU seconds of vm_compute
    spent = 0.0
    for rnd in range(n_rounds):
        for kw in combos:
            if spent > total_budget:
                unplaced += 1
                continue
            fit = []
            for mid in mids:
                mesh = meshes[mid]
                if kw['consider_volume'] and kw['mode'] == 'nodal' and not kw['use_effective_volume'] \
                        and mesh['exact_vol'] is None:
                    continue       # float32 volumes: 'mean' weights would be 50-bit fractions
                if mesh['min_degree'][kw['mode']] < 1 and kw['moment_matrix']:
                    continue       # a vertex without neighbours: M_i = 0, outside the property
                # a hop count larger than the graph diameter adds nothing new;
                # still allowed, but prefer meshes where hop matters
                if cost_estimate(mesh, kw, cache) > per_case_cap:
                    continue
                if kw['moment_matrix']:
                    wk = ('well', mid, kw['mode'], kw['n_hop'])
                    if wk not in cache:
                        inc, nb, P = G.neighbourhoods(eff_mesh(mesh, kw), kw['mode'], kw['n_hop'])
                        cache[wk] = well_conditioned(nb, P)
                    if not cache[wk]:
                        continue   # some neighbourhood does not span space (with margin)
                fit.append(mid)
            if not fit:
                unplaced += 1
                continue
            # prefer the larger fitting meshes for the first round, random afterwards
            if rnd == 0:
                fit.sort(key=lambda m: -cost_estimate(meshes[m], kw, cache))
                mid = fit[rng.randrange(min(3, len(fit)))]
            else:
                mid = rng.choice(fit)
            cases.append({'mesh': mid, 'kw': dict(kw), 'kernel': None,
                          'est': cost_estimate(meshes[mid], kw, cache)})
            spent += cases[-1]['est'] + 1.0
    ctx.notes['unplaced_option_cases'] = unplaced
    # kernels (oracle only): exp / gauss with a scale adapted to the mesh
    for mid in mids:
        mesh = meshes[mid]
        diam2 = max(sum((a - b) ** 2 for a, b in zip(p, mesh['xyz'][0])) for p in mesh['xyz'])
        for kern in ('exp', 'gauss'):
            for _ in range(2 if quick else 3):
                kw = dict(rng.choice(combos))
                if mesh['min_degree'][kw['mode']] < 1:
                    kw['mode'] = 'nodal'
                    kw['use_effective_volume'] = True
                if kw['moment_matrix']:
                    inc, nb, P = G.neighbourhoods(eff_mesh(mesh, kw), kw['mode'], kw['n_hop'])
                    if not well_conditioned(nb, P):
                        kw['moment_matrix'] = False
                t = rng.choice([0.5, 1.0, 3.0])
                alpha = t / max(diam2, 1e-300) ** 0.5 if kern == 'exp' else 2 * t / max(diam2, 1e-300)
                kw['kernel'] = kern
                kw['alpha'] = alpha
                cases.append({'mesh': mid, 'kw': kw, 'kernel': kern})
    used = {c['mesh'] for c in cases}
    return {m: meshes[m] for m in mids if m in used}, cases


def plan_extended(ctx):
    """second-order (tet2, with and without order1_only) and mixed hex+tet
    meshes (nodal mode; femio's elemental mode raises on mixed meshes with
    numpy >= 1.24: convert_nodal2elemental builds a ragged array)"""
    rng = ctx.rng
    quick = ctx.tier == 'quick'
    cap = 6.0 if quick else 30.0
    meshes, cases, cache = {}, [], {}

    def kwm(mode, hop, cv, eff, mm, **k):
        d = dict(mode=mode, n_hop=hop, consider_volume=cv, use_effective_volume=eff, moment_matrix=mm)
        d.update(k)
        return d

    def place(mid, kw, **extra):
        mesh = meshes[mid]
        inc, nb, P = G.neighbourhoods(eff_mesh(mesh, kw), kw['mode'], kw['n_hop'])
        if min(len(x) for x in nb) < 1:
            return
        if kw['moment_matrix'] and not well_conditioned(nb, P):
            kw = dict(kw, moment_matrix=False)
        est = cost_estimate(eff_mesh(mesh, kw), kw, cache)
        if kw.get('kernel') is None and est > cap:
            return
        cases.append(dict({'mesh': mid, 'kw': kw, 'kernel': kw.get('kernel'), 'est': est}, **extra))

    tet_dims = [(2, 2, 2), (2, 2, 3), (3, 2, 2)] * (1 if quick else 4)
    for k, dims in enumerate(tet_dims):
        base = G.gen_mesh(rng, 'tet', tuple(rng.sample(dims, 3)), spacing_max=2, jitter=rng.random() < 0.6,
                          map_name=rng.choice(list(G.MAPS)), id_mode=rng.choice(['sparse', 'large']),
                          shuffle=True)
        mesh = G.scale_mesh(G.to_tet2(rng, base), rng.choice(SCALE_EXPS))
        mesh['exact_vol'] = exact_volumes(mesh)
        mid = f'q{k}'
        meshes[mid] = mesh
        # order1_only=True: the operator lives on the corner nodes
        for kw in [kwm('nodal', 1, False, True, True, order1_only=True),
                   kwm('nodal', rng.choice([2, 3]), True, True, rng.random() < 0.5, order1_only=True),
                   kwm('nodal', 1, True, True, True, order1_only=True),
                   kwm('elemental', 1, True, True, False, order1_only=True)]:
            place(mid, kw, with_conv=rng.random() < 0.6)
        # order1_only=True with mean volumes (see known_findings.d/C15.json)
        place(mid, kwm('nodal', 1, True, False, False, order1_only=True), with_conv=False)
        # all ten nodes of each element are vertices
        for kw in [kwm('nodal', 1, False, True, False, order1_only=False),
                   kwm('nodal', 1, True, rng.random() < 0.5, True, order1_only=False),
                   kwm('elemental', 1, False, True, True, order1_only=False)]:
            place(mid, kw, with_conv=rng.random() < 0.3)
        diam2 = max(sum((a - b) ** 2 for a, b in zip(p, mesh['xyz'][0])) for p in mesh['xyz'])
        place(mid, kwm('nodal', 1, True, True, True, order1_only=True, kernel='gauss',
                       alpha=2.0 / max(diam2, 1e-300)), with_conv=True)
    mix_dims = [(2, 2, 3), (3, 2, 3), (2, 3, 3)] * (1 if quick else 4)
    for k, dims in enumerate(mix_dims):
        mesh = G.gen_mixed(rng, tuple(rng.sample(dims, 3)), map_name=rng.choice(list(G.MAPS)),
                           id_mode=rng.choice(['sparse', 'large']))
        G.scale_mesh(mesh, rng.choice(SCALE_EXPS))
        mesh['exact_vol'] = exact_volumes(mesh)
        mid = f'x{k}'
        meshes[mid] = mesh
        for kw in [kwm('nodal', 1, False, True, True), kwm('nodal', 1, True, True, False),
                   kwm('nodal', 2, True, False, True), kwm('nodal', rng.choice([2, 3]), True, True, True)]:
            place(mid, kw, with_conv=rng.random() < 0.5)
        diam2 = max(sum((a - b) ** 2 for a, b in zip(p, mesh['xyz'][0])) for p in mesh['xyz'])
        place(mid, kwm('nodal', 1, True, True, True, kernel='exp', alpha=1.0 / max(diam2, 1e-300) ** 0.5),
              with_conv=True)
    used = {c['mesh'] for c in cases}
    return {m: v for m, v in meshes.items() if m in used}, cases


def plan_wide(ctx, extended=False):
    """oracle-only cases at sizes / coordinates where evaluating the Coq model
    is too expensive or the coordinates are not dyadic: hop count 32 on a mesh
    with > 100 vertices (walk counts overflow int64 if adjacency powers were
    integers), decimal length scales, meshes far from the origin."""
    import sys as _sys
    rng = ctx.rng
    big = ctx.tier != 'quick' or extended
    meshes, cases = {}, []

    def kwm(mode, hop, cv, eff, mm, **k):
        d = dict(mode=mode, n_hop=hop, consider_volume=cv, use_effective_volume=eff, moment_matrix=mm)
        d.update(k)
        return d
    # (a) hop 32
    for k, (et, dims) in enumerate([('hex', (5, 5, 4) if not big else (7, 6, 5)),
                                    ('tet', (4, 4, 3) if not big else (5, 5, 4))]):
        mesh = G.gen_mesh(rng, et, dims, spacing_max=2, jitter=True, map_name=rng.choice(list(G.MAPS)),
                          id_mode='large', order='shuffled')
        G.scale_mesh(mesh, rng.choice([-7, 0, 7]))
        mesh['exact_vol'] = None
        mid = f'w{k}'
        meshes[mid] = mesh
        for kw in ([kwm('nodal', 32, True, True, True), kwm('nodal', 32, False, True, False)] if et == 'hex'
                   else [kwm('nodal', 32, True, True, False), kwm('elemental', 32, False, True, False)]):
            cases.append({'mesh': mid, 'kw': kw, 'kernel': None, 'oracle_only': True, 'with_conv': k == 0,
                          'est': 0.0})
    # (b) decimal scales, far from the origin (coordinates are rounded decimals;
    # the oracle takes the floats femio gets as the exact positions)
    eps = 2.0 ** -52
    combos = [(1e-3, 0.0), (0.1, 1e5), (10.0, 1e7), (1e3, 1e5), (1e-3, 1e7), (1.0, 1e6)]
    for k, (sc, off) in enumerate(combos if big else rng.sample(combos, 3)):
        et = 'tet' if k % 2 else 'hex'
        mesh = G.gen_mesh(rng, et, tuple(rng.sample((2, 3, 3), 3)), spacing_max=2, jitter=True,
                          map_name=rng.choice(list(G.MAPS)), id_mode='sparse', order='shuffled')
        cell = 4.0 * sc
        shift = [off * cell * f for f in (1.0, -0.5, 0.25)]
        mesh['xyz'] = [[c * sc + t for c, t in zip(p, shift)] for p in mesh['xyz']]
        mesh['descr'] = dict(mesh['descr'], scale=f'decimal {sc:g}', offset_in_cells=off)
        R = max(abs(c) for p in mesh['xyz'] for c in p) / cell
        mesh['aff_tol'] = Fr(max(1e-9, 256 * eps * R))
        mesh['exact_vol'] = None
        mid = f'y{k}'
        meshes[mid] = mesh
        diam2 = max(sum((a - b) ** 2 for a, b in zip(p, mesh['xyz'][0])) for p in mesh['xyz'])
        for kw in [kwm('nodal', 1, True, True, True), kwm('elemental', 1, True, True, False),
                   kwm('nodal', 2, False, True, False, kernel='gauss', alpha=2.0 / diam2),
                   kwm('nodal', 1, True, False, True)]:
            inc, nb, P = G.neighbourhoods(mesh, kw['mode'], kw['n_hop'])
            if kw['moment_matrix'] and not well_conditioned(nb, P):
                kw['moment_matrix'] = False
            cases.append({'mesh': mid, 'kw': kw, 'kernel': kw.get('kernel'), 'oracle_only': True,
                          'with_conv': rng.random() < 0.5, 'est': 0.0})
    return meshes, cases


def run_impl(ctx, meshes, jobs, tag='impl'):
    out = ctx.scratch / f'{tag}_out.json'
    keys = ('etype', 'node_ids', 'xyz', 'elem_ids', 'conn', 'blocks', 'k1', 'xyz_dtype')
    spec = {'out': str(out), 'meshes': {m: {k: v[k] for k in keys if k in v} for m, v in meshes.items()},
            'jobs': jobs}
    r = subprocess.run([lib.PY, str(lib.VERIF / 'harness' / 'c15_impl.py')],
                       input=json.dumps(spec), text=True, capture_output=True,
                       env=lib.impl_env(), timeout=1500)
    if r.returncode != 0:
        raise RuntimeError('impl runner failed: ' + r.stderr[-2000:])
    return {x['id']: x for x in json.loads(out.read_text())}


# --------------------------------------------------------------- the oracle
def oracle_case(mesh, case, mats, conv, P, well, nb=None):
    """the property itself, evaluated exactly on the floats femio returned.
    returns list of (check, detail)"""
    bad = []
    n = len(P)
    f32 = mesh.get('xyz_dtype') == 'float32'
    t_sum = Fr(1, 2 ** 16) if f32 else Fr(1, 2 ** 40)
    t_aff = max(Fr(1, 10 ** 4) if f32 else Fr(1, 10 ** 9), mesh.get('aff_tol', Fr(0)))
    rows3 = [rows_from_coo(A, n) for A in mats]
    # (1) constants -> 0: every row of every matrix sums to zero (the diagonal
    # is minus the sum of the others), within the rounding of one float sum
    for a, rows in enumerate(rows3):
        for i, row in enumerate(rows):
            s = sum(x for _, x in row)
            sa = sum(abs(x) for _, x in row)
            if abs(s) > t_sum * sa:
                bad.append(('const-zero', {'axis': a, 'row': i, 'row_sum': float(s),
                                           'abs_sum': float(sa)}))
                break
    # (1b) plain rows: the coefficient vector of neighbour j is a positive
    # multiple of x_j - x_i, and nothing is stored outside the n-hop neighbourhood
    if nb is not None and not case['kw']['moment_matrix'] and not bad:
        t_par = max(Fr(1, 2 ** 12) if f32 else Fr(1, 2 ** 30), mesh.get('aff_tol', Fr(0)))
        for i in range(n):
            d = [dict(rows3[a][i]) for a in range(3)]
            sc = max([abs(x) for a in range(3) for x in d[a].values()] + [Fr(0)])
            if sc == 0:
                if nb[i]:
                    bad.append(('offsets', {'row': i, 'empty_row_but_neighbours': len(nb[i])}))
                    break
                continue
            extra = {j for a in range(3) for j, x in d[a].items()
                     if j != i and abs(x) > t_par * sc} - set(nb[i])
            if extra:
                bad.append(('offsets', {'row': i, 'columns_outside_the_neighbourhood': sorted(extra)[:5]}))
                break
            for j in nb[i]:
                cv_ = tuple(d[a].get(j, Fr(0)) for a in range(3))
                v = G.sub(P[j], P[i])
                cn, vn = max(abs(x) for x in cv_), max(abs(x) for x in v)
                x = MOD.cross(cv_, v)
                if cn == 0 or max(abs(t) for t in x) > t_par * cn * vn or sum(p_ * q_ for p_, q_ in zip(cv_, v)) <= 0:
                    bad.append(('offsets', {'row': i, 'col': j, 'coefficient': [float(t) for t in cv_],
                                            'offset': [float(t) for t in v]}))
                    break
            if bad:
                break
    # (2) affine exactness with the moment matrix
    if case['kw']['moment_matrix'] and well:
        for g, c in case['affine']:
            f = [sum(Fr(gg) * p for gg, p in zip(g, P[j])) + c for j in range(n)]
            fmax = max(abs(x) for x in f)
            stop = False
            for a, rows in enumerate(rows3):
                for i, row in enumerate(rows):
                    val = sum(x * f[j] for j, x in row)
                    # scale: |g| + (operator norm of the row) x (size of the field)
                    sc = max(abs(Fr(x)) for x in g) + sum(abs(x) for _, x in row) * fmax
                    if abs(val - g[a]) > t_aff * sc:
                        bad.append(('affine-exact', {'axis': a, 'row': i, 'g': g, 'c': c,
                                                     'computed': float(val), 'true': g[a]}))
                        stop = True
                        break
                if stop:
                    break
            if stop:
                break
    # (3) convenience function = matrices applied by hand
    if conv is not None:
        data = case.get('data_eff', case['data'])
        nfeat = len(data[0])
        dmax = max(abs(x) for r in data for x in r)
        shape = conv['shape']
        if shape != [n, 3, nfeat]:
            bad.append(('convenience', {'shape': shape, 'expected_shape': [n, 3, nfeat]}))
        else:
            gr = [fr_hex(h) for h in conv['grad']]
            done = False
            for i in range(n):
                for a in range(3):
                    row = rows3[a][i]
                    for k in range(nfeat):
                        val = sum(x * data[j][k] for j, x in row)
                        sc = sum(abs(x) for _, x in row) * dmax + Fr(1, 2 ** 60)
                        if abs(val - gr[(i * 3 + a) * nfeat + k]) > t_sum * sc:
                            bad.append(('convenience', {'vertex': i, 'axis': a, 'feature': k,
                                                        'by_hand': float(val),
                                                        'returned': float(gr[(i * 3 + a) * nfeat + k])}))
                            done = True
                            break
                    if done:
                        break
                if done:
                    break
    return bad


# ------------------------------------------------------------ Coq evaluation
HEADER = ['From Coq Require Import List ZArith QArith Uint63.', 'Import ListNotations.',
          'From FV.C15 Require Import Model Exec.', 'Set Printing Width 100000.',
          'Set Printing Depth 100000.']


def enc(x):
    """exact dyadic Fraction (a float) -> 'mant, code' primitive ints:
    value = (-1)^(code%2) * mant / 2^(code//2)"""
    x = Fr(x)
    d = x.denominator
    e = d.bit_length() - 1
    if d != 1 << e or abs(x.numerator) >= 2 ** 62 or e >= 2 ** 20:
        raise ValueError(f'not a transportable float: {x}')
    return f'{abs(x.numerator)}%uint63, {2 * e + (1 if x < 0 else 0)}%uint63'


def coq_file_for(batch, meshes, vols):
    """batch: list of (case id, case, impl rows3 or None, conv or None)"""
    txt = list(HEADER)
    used = sorted({c['mesh'] for _, c, _, _ in batch})
    for mid in used:
        txt.append(coq_mesh('mesh_' + mid, meshes[mid]))
        txt.append(f"Definition evol_{mid} : list Q := {lib.coq_list([q(v) for v in vols[mid]])}.")
    for cid, c, rows3, conv in batch:
        mid = c['mesh']
        tol = tol_for(meshes[mid], c['kw'])
        if rows3 is not None:
            impl = lib.coq_list([lib.coq_list([lib.coq_list([f'({j}%uint63, {enc(x)})' for j, x in row])
                                               for row in rows]) for rows in rows3])
            if c['kw'].get('order1_only'):
                txt.append(f'Definition cm_{cid} := corr_matrices_x {q(tol)} {q(floor_of(meshes[mid]))} true {coq_nat(meshes[mid]["k1"])} '
                           f'{coq_opts(c["kw"])} mesh_{mid} evol_{mid} {impl}.')
            else:
                txt.append(f'Definition cm_{cid} := corr_matrices {q(tol)} {q(floor_of(meshes[mid]))} {coq_opts(c["kw"])} '
                           f'mesh_{mid} evol_{mid} {impl}.')
            txt.append(f'Goal True. idtac "@@ mat {cid}". Abort.')
            txt.append(f'Time Eval vm_compute in cm_{cid}.')
        if conv is not None:
            data = lib.coq_list([lib.coq_list([q(x) for x in r]) for r in c['data']])
            nfeat = len(c['data'][0])
            n = c['n']
            gr = [fr_hex(h) for h in conv['grad']]
            shape = conv['shape']
            if shape == [n, 3, nfeat]:
                g3 = lib.coq_list([lib.coq_list([lib.coq_list(['(' + enc(gr[(i * 3 + a) * nfeat + k]) + ')'
                                                               for k in range(nfeat)])
                                                 for a in range(3)]) for i in range(n)])
            else:
                g3 = '[]'
            if c['kw'].get('order1_only'):
                txt.append(f'Definition cc_{cid} := conv_agree_x {q(tol)} {q(floor_of(meshes[mid]))} true {coq_nat(meshes[mid]["k1"])} '
                           f'{coq_opts(c["kw"])} mesh_{mid} evol_{mid} {coq_nat(nfeat)} {data} {g3}.')
            else:
                txt.append(f'Definition cc_{cid} := conv_agree {q(tol)} {q(floor_of(meshes[mid]))} {coq_opts(c["kw"])} '
                           f'mesh_{mid} evol_{mid} {coq_nat(nfeat)} {data} {g3}.')
            txt.append(f'Goal True. idtac "@@ conv {cid}". Abort.')
            txt.append(f'Time Eval vm_compute in cc_{cid}.')
    txt.append('Goal True. idtac "@@ end". Abort.')
    return '\n'.join(txt) + '\n'


def parse_results(out):
    """-> {('mat'|'conv', id): (ok, detail, seconds)}"""
    res = {}
    for key, text in lib.parse_marked(out).items():
        parts = key.split()
        if len(parts) != 2:
            continue
        val = ' '.join(text.split('\n     :')[0].split())
        if val.startswith('='):
            val = val[1:].strip()
        m = re.search(r'Finished transaction in [0-9.]+ secs \(([0-9.]+)u', text)   # CPU seconds
        res[(parts[0], int(parts[1]))] = (val == 'Some []', val[:400], float(m.group(1)) if m else None)
    return res


def run_coq_batches(ctx, batches, meshes, vols):
    """returns ({case id: detail} failing matrices, {case id: detail} failing conv, errors, timings)"""
    def one(ib):
        i, batch = ib
        rc, out, err = ctx.coq_eval(f'Corr{i}', coq_file_for(batch, meshes, vols), timeout=1500)
        return i, batch, rc, out, err
    fm, fc, errors, times = {}, {}, [], {}
    with cf.ThreadPoolExecutor(max_workers=14) as ex:
        for i, batch, rc, out, err in ex.map(one, list(enumerate(batches))):
            pr = parse_results(out)
            if rc != 0:
                errors.append((i, err[-800:]))
            for cid, c, rows3, conv in batch:
                for kind, present, dest in (('mat', rows3 is not None, fm), ('conv', conv is not None, fc)):
                    if not present:
                        continue
                    r = pr.get((kind, cid))
                    if r is None:
                        dest[cid] = 'coq evaluation failed or timed out'
                    else:
                        times[(kind, cid)] = r[2]
                        ok = (r[1] == 'None') if c.get('malformed') else r[0]
                        if not ok:
                            dest[cid] = r[1]
    return fm, fc, errors, times


# ------------------------------------------------------- same-object stream
def run_sequences(ctx, meshes, seqs, tag):
    """seqs: list of {'mesh', 'mode', 'steps'}; runs each on ONE object plus a
    fresh-object reference per distinct option set; returns per sequence the
    list of (step outputs, reference outputs)"""
    jobs, refs = [], {}
    for sq in seqs:
        sq['job'] = len(jobs)
        jobs.append({'id': len(jobs), 'mesh': sq['mesh'], 'kind': 'sequence',
                     'steps': H.json_steps(sq['steps'])})
        if sq.get('mesh2'):
            jobs[-1]['mesh2'] = sq['mesh2']
        for st in sq['steps']:
            if st['kind'] == 'call':
                continue
            key = (st.get('mesh_id', sq['mesh']), H.kw_tuple(st['kw']))
            if key not in refs:
                refs[key] = len(jobs)
                jobs.append({'id': len(jobs), 'mesh': key[0], 'kind': 'matrices', 'kw': st['kw']})
    res = run_impl(ctx, meshes, jobs, tag=tag)
    out = []
    for sq in seqs:
        r = res[sq['job']]
        steps_out = r.get('steps') or [{'error': r.get('error', 'no output')}] * len(sq['steps'])
        out.append([(so, {} if st['kind'] == 'call' else
                     res[refs[(st.get('mesh_id', sq['mesh']), H.kw_tuple(st['kw']))]])
                    for st, so in zip(sq['steps'], steps_out)])
    return out


_STEP_CACHE = {}


def step_info(mesh, mode, kw):
    """positions, conditioning and node filter of the (possibly reduced) mesh
    one call of a sequence works on"""
    key = (id(mesh), mode, kw['n_hop'], bool(kw.get('order1_only')))
    if key not in _STEP_CACHE:
        vm = eff_mesh(mesh, dict(kw, mode=mode))
        inc, nb, P = G.neighbourhoods(vm, mode, kw['n_hop'])
        _STEP_CACHE[key] = {'P': P, 'well': well_conditioned(nb, P),
                            'min_degree': min(len(x) for x in nb),
                            'keep': vm.get('order1_keep') if vm is not mesh else None}
    return _STEP_CACHE[key]


def finish_steps(rng, mesh, mode, steps):
    """fill per step: effective positions, conditioning, data (for all
    vertices the function takes data for) and the rows the operator sees"""
    P_all = G.neighbourhoods(mesh, mode, 1)[2]
    for st in steps:
        if st['kind'] == 'call':
            continue
        info = step_info(mesh, mode, st['kw'])
        st['P'], st['well'] = info['P'], info['well']
        if st['kind'] == 'conv':
            if st.get('data') is None:
                H.attach_data(rng, st, P_all)
            if info['keep'] is not None:
                st['data_eff'] = [st['data'][k] for k in info['keep']]
            else:
                st.pop('data_eff', None)
    return steps


def eval_sequence(meshes, sq, outs, wells=None):
    """-> list of (step index, check, detail)"""
    bad = []
    for k, (st, (so, ref)) in enumerate(zip(sq['steps'], outs)):
        if st['kind'] == 'call':
            continue
        for check, detail in H.check_step(st, so, ref, st['P'], st['well'], rows_from_coo, fr_hex):
            bad.append((k, check, detail))
    return bad


def history_stream(ctx, meshes, cost_cache, corpus_seqs=()):
    rng = ctx.rng
    quick = ctx.tier == 'quick'
    n_seq, length = (12, 7) if quick else (80, 10)
    wells, cands, cands2 = {}, [], []
    for mid, mesh in meshes.items():
        if mesh.get('descr', {}).get('malformed'):
            continue
        if mesh.get('k1'):
            # second-order mesh (node ids shuffled in storage): order1_only is toggled
            if len(mesh['node_ids']) <= (50 if quick else 80):
                cands2.append((mid, 'nodal'))
            continue
        if 'min_degree' not in mesh:
            continue
        for mode in ('nodal', 'elemental'):
            n = len(mesh['node_ids']) if mode == 'nodal' else len(mesh['conn'])
            if mesh['min_degree'][mode] < 1 or not (5 <= n <= (20 if quick else 40)):
                continue
            base = dict(mode=mode, n_hop=1)
            if step_info(mesh, mode, base)['well'] or step_info(mesh, mode, dict(base, n_hop=2))['well']:
                cands.append((mid, mode))
    rng.shuffle(cands)
    rng.shuffle(cands2)
    seqs = []
    for mid, mode, steps in corpus_seqs:          # corpus first
        mesh = meshes[mid]
        finish_steps(rng, mesh, mode, steps)
        seqs.append({'mesh': mid, 'mode': mode, 'steps': steps, 'P': G.neighbourhoods(mesh, mode, 1)[2]})
    for mid, mode in cands[:n_seq] + cands2[:(4 if quick else 12)]:
        mesh = meshes[mid]
        diam2 = max(sum((a - b) ** 2 for a, b in zip(p, mesh['xyz'][0])) for p in mesh['xyz'])
        scales = {'exp': 1.0 / max(diam2, 1e-300) ** 0.5, 'gauss': 2.0 / max(diam2, 1e-300)}
        steps = H.make_sequence(rng, mesh, mode, length,
                                lambda kw, mesh=mesh, mode=mode: step_info(mesh, mode, kw)['well']
                                and step_info(mesh, mode, kw)['min_degree'] >= 1,
                                scales, second_order=bool(mesh.get('k1')))
        finish_steps(rng, mesh, mode, steps)
        seqs.append({'mesh': mid, 'mode': mode, 'steps': steps, 'P': G.neighbourhoods(mesh, mode, 1)[2]})
    # several live objects queried alternately (class-level state such as
    # functools.lru_cache on methods): two sequences interleaved on two objects
    pairs = [s_ for s_ in seqs if not meshes[s_['mesh']].get('k1') and 'corpus' not in str(meshes[s_['mesh']].get('descr'))]
    cand_pairs = []
    for md in ('nodal', 'elemental'):
        grp = [s_ for s_ in pairs if s_['mode'] == md]
        cand_pairs += list(zip(grp[0::2], grp[1::2]))
    for a, b in cand_pairs[:(3 if quick else 10)]:
        if a['mesh'] == b['mesh']:
            continue
        sa = [dict(st, obj=0, mesh_id=a['mesh']) for st in a['steps']]
        sb = [dict(st, obj=1, mesh_id=b['mesh']) for st in b['steps']]
        inter = [x for pair in zip(sa, sb) for x in pair]
        seqs.append({'mesh': a['mesh'], 'mesh2': b['mesh'], 'mode': a['mode'], 'steps': inter, 'P': a['P']})
    if not seqs:
        return [], [], []
    outs = run_sequences(ctx, meshes, seqs, 'hist')
    failures, items, hcases = [], [], []
    n_steps = n_same_names = 0
    for sq, o in zip(seqs, outs):
        mesh = meshes[sq['mesh']]
        names_seen = {}
        for k, st in enumerate(sq['steps']):
            if st['kind'] == 'call':
                ctx.count('history-step:other-call:' + st['name'])
                continue
            kw = st['kw']
            n_steps += 1
            key = (st.get('obj', 0), st['kind'], kw['mode'], kw['n_hop'], kw.get('kernel'), tuple(sorted(kw)))
            if key in names_seen and names_seen[key] != H.kw_tuple(kw):
                n_same_names += 1
            names_seen.setdefault(key, H.kw_tuple(kw))
            ctx.count('history-step:' + st['kind'])
            ctx.case(['history', mesh['descr'], mesh['node_ids'][:4], k,
                      [x.get('name') or (x.get('obj', 0), H.kw_tuple(x['kw'])) for x in sq['steps'][:k + 1]]],
                     nontrivial=k > 0)
        bad = eval_sequence(meshes, sq, o, wells)
        for k, check, detail in bad[:1]:       # the first failing step of a sequence
            c = {'mesh': sq['mesh'], 'kw': sq['steps'][k]['kw'], 'n': len(sq['P']),
                 'sequence': sq, 'failing_step': k, 'seq_id': id(sq),
                 'mesh2_obj': meshes.get(sq.get('mesh2')) if sq.get('mesh2') else None}
            failures.append([len(sq['P']) * 100 + k, 'impl-violation', mesh, c,
                             {'convenience-history': 'convenience output = matrices of a fresh object applied by hand, at every step',
                              'affine-exact-history': 'gradient of g.x+c is g at every vertex, at every step',
                              'matrices-history': 'explicit matrices do not depend on earlier calls',
                              'raised-history': 'the call succeeds as on a fresh object'}[check],
                             dict(detail, step=k),
                             {'affine-exact-history': 'C15_convenience_affine_exact',
                              'matrices-history': 'C15_grad_const_zero (matrices are a function of mesh and options)'
                              }.get(check, 'C15_convenience_equals_matrices') + ' / same-object stream', check])
        # correspondence with the Coq model of the convenience function (kernel None, cheap)
        for k, (st, (so, ref)) in enumerate(zip(sq['steps'], o)):
            if st['kind'] != 'conv':
                continue
            kw = st['kw']
            smid = st.get('mesh_id', sq['mesh'])
            smesh = meshes[smid]
            if kw.get('kernel') or 'error' in so:
                continue
            if kw['moment_matrix'] and not st['well']:
                continue
            if kw['consider_volume'] and smesh.get('exact_vol') is None:
                continue
            est = cost_estimate(eff_mesh(smesh, kw), kw, cost_cache)
            if est > (1.2 if quick else 2.0) or (quick and rng.random() < 0.4):
                continue
            hc = {'id': 100000 + len(hcases), 'mesh': smid, 'kw': kw, 'data': st['data'],
                  'n': len(st['P']), 'est': 4 * est, 'sequence': sq, 'failing_step': k, 'history': True,
                  'seq_id': id(sq)}
            hcases.append(hc)
            items.append((hc['id'], hc, None, so))
    ctx.notes['same_object_stream'] = {
        'sequences': len(seqs), 'steps': n_steps,
        'steps_repeating_option_names_with_other_values': n_same_names,
        'coq_convenience_cases': len(items), 'failing_sequences': len(failures)}
    # shrink: the failing step alone, then (earlier step, failing step) pairs
    failures.sort(key=lambda f: f[0])
    todo = failures[:3]
    if todo:
        cand = []
        for f in todo:
            sq, k = f[3]['sequence'], f[3]['failing_step']
            for pre in [[]] + [[j] for j in range(k - 1, -1, -1)]:
                cand.append((f, {'mesh': sq['mesh'], 'mode': sq['mode'], 'P': sq['P'],
                                 'mesh2': sq.get('mesh2'),
                                 'steps': [sq['steps'][j] for j in pre] + [sq['steps'][k]]}))
        outs2 = run_sequences(ctx, meshes, [c for _, c in cand], 'hist_shrink')
        done = set()
        for (f, sq2), o2 in zip(cand, outs2):
            if id(f) in done:
                continue
            b2 = [b for b in eval_sequence(meshes, sq2, o2, wells) if b[0] == len(sq2['steps']) - 1]
            if b2:
                done.add(id(f))
                f[3] = dict(f[3], sequence=sq2, failing_step=len(sq2['steps']) - 1,
                            shrunk_from=len(f[3]['sequence']['steps']))
                f[5] = dict(b2[0][2], step=len(sq2['steps']) - 1)
                f[7] = b2[0][1]
                f[0] = len(sq2['P']) * 100 + len(sq2['steps']) - 10000     # shrunk ones are reported first
    return [tuple(f) for f in failures], items, hcases


# ------------------------------------------------- in-place modification stream
def snapshot_mesh(snap, base):
    m = {'etype': snap['etype'], 'node_ids': snap['node_ids'],
         'xyz': [[float.fromhex(c) for c in p] for p in snap['xyz']],
         'elem_ids': snap['elem_ids'], 'conn': snap['conn'],
         'descr': dict(base.get('descr', {}), modified=True)}
    if 'scale_exp' in base:
        m['scale_exp'] = base['scale_exp']
    # fem_data.nodes and nodal_data['NODE'] can drift apart (in-place edit of
    # nodes.data leaves the data frame behind; remove_useless_nodes rebuilds
    # 'NODE' from the frame as a separate object): that is the attribute-table
    # property C08; C15's model reads 'NODE' like the code does
    m['nodes_vs_NODE_inconsistent'] = (snap.get('xyz_nodes') != snap['xyz']
                                       or snap.get('NODE_ids') != snap['node_ids'])
    return m


def run_mod_sequences(ctx, meshes, seqs, tag):
    """run each sequence on ONE object (phase 1), then fresh objects built from
    the meshes the object reported (phase 2); evaluate every op step.
    returns per sequence: list of dicts (one per op step)"""
    this = sys.modules[__name__]
    jobs = []
    for sq in seqs:
        sq['job'] = len(jobs)
        jobs.append({'id': len(jobs), 'mesh': sq['mesh'], 'kind': 'sequence',
                     'steps': MOD.impl_steps(sq['steps'])})
    res = run_impl(ctx, meshes, jobs, tag=tag + '_1')
    # walk the outputs, tracking the mesh the object reports
    evals, fresh_jobs, fresh_meshes = [], [], {}
    for sqi, sq in enumerate(seqs):
        r = res[sq['job']]
        outs = r.get('steps') or []
        cur = meshes[sq['mesh']]
        cur_id = sq['mesh']
        k_out = 0
        ev = []
        for k, st in enumerate(sq['steps']):
            if st['kind'] == 'modify':
                o = outs[k_out] if k_out < len(outs) else {'error': r.get('error', 'no output')}
                k_out += 1
                if 'modify_error' in o:
                    sq.setdefault('modify_errors', []).append((st['op'], o['modify_error']))
                if 'snapshot' in o:
                    cur = snapshot_mesh(o['snapshot'], meshes[sq['mesh']])
                    cur_id = f"{sq['mesh']}s{k}"
                    fresh_meshes[cur_id] = cur
                else:
                    ev.append({'step': k, 'st': st, 'cur': cur, 'cur_id': cur_id,
                               'bad': [('modification-raised', {'op': st['op'], 'error': o.get('error')})],
                               'info': {'n': 0}, 'mats': o, 'conv': o})
                continue
            mo = outs[k_out] if k_out < len(outs) else {'error': r.get('error', 'no output')}
            co = outs[k_out + 1] if k_out + 1 < len(outs) else {'error': r.get('error', 'no output')}
            k_out += 2
            e = {'step': k, 'st': st, 'cur': cur, 'cur_id': cur_id, 'mats': mo, 'conv': co,
                 'fresh_job': len(fresh_jobs)}
            fresh_meshes.setdefault(cur_id, cur)
            fresh_jobs.append({'id': len(fresh_jobs), 'mesh': cur_id, 'kind': 'matrices', 'kw': st['kw']})
            ev.append(e)
        evals.append(ev)
    fres = run_impl(ctx, fresh_meshes, fresh_jobs, tag=tag + '_2') if fresh_jobs else {}
    for ev in evals:
        for e in ev:
            if 'bad' in e:
                continue
            e['fresh'] = fres.get(e['fresh_job'])
            e['bad'], e['info'] = MOD.check_op(this, e['cur'], e['st'], e['mats'], e['conv'], e['fresh'])
    return evals


def mod_kw_pool(rng, mesh):
    diam2 = max(sum((a - b) ** 2 for a, b in zip(p, mesh['xyz'][0])) for p in mesh['xyz'])
    pool = []
    for hop in (1, 2):
        for cv in (False, True):
            for mm in (False, True):
                pool.append(dict(n_hop=hop, consider_volume=cv, use_effective_volume=True, moment_matrix=mm))
    pool.append(dict(n_hop=1, consider_volume=True, use_effective_volume=True, moment_matrix=True,
                     kernel='gauss', alpha=2.0 / max(diam2, 1e-300)))
    pool.append(dict(n_hop=1, consider_volume=False, use_effective_volume=True, moment_matrix=False,
                     kernel='exp', alpha=1.0 / max(diam2, 1e-300) ** 0.5))
    return pool


def json_mod_steps(steps):
    out = []
    for st in steps:
        if st['kind'] == 'modify':
            out.append({k: v for k, v in st.items() if k in ('kind', 'op', 'by_id', 'by_eid')})
        else:
            out.append({k: st[k] for k in ('kind', 'kw', 'g', 'c', 'seed', 'data_by_id') if k in st})
    return out


def modify_stream(ctx, meshes, vols, corpus_mod=()):
    """-> (failures, coq batch items, pseudo-cases)"""
    import random
    rng = ctx.rng
    quick = ctx.tier == 'quick'
    n_seq, n_ops = (8, 3) if quick else (40, 4)
    seqs = []
    for mid, mode, steps in corpus_mod:
        seqs.append({'mesh': mid, 'mode': mode, 'steps': steps})
    dims_pool = [(2, 2, 3), (3, 2, 2), (2, 3, 3), (2, 2, 4), (3, 3, 2)]
    for k in range(n_seq):
        et = 'tet' if k % 2 == 0 else 'hex'
        mesh = G.gen_mesh(rng, et, tuple(rng.sample(dims_pool[k % len(dims_pool)], 3)), spacing_max=2,
                          jitter=True, map_name=rng.choice(list(G.MAPS)),
                          id_mode=rng.choice(['sparse', 'large', 'sparse']), shuffle=True)
        MOD.add_unreferenced_nodes(rng, mesh, 2 if k % 3 else 0)
        G.scale_mesh(mesh, rng.choice(SCALE_EXPS))
        mid = f'd{k}'
        meshes[mid] = mesh
        mode = 'elemental' if k % 4 in (0, 1) else 'nodal'
        if mode == 'elemental' and min_degree(mesh, 'elemental') < 1:
            mode = 'nodal'
        steps = MOD.plan_sequence(rng, mesh, mode, n_ops, mod_kw_pool(rng, mesh))
        MOD.attach_data(random.Random, mesh, mode, steps)
        seqs.append({'mesh': mid, 'mode': mode, 'steps': steps})
    evals = run_mod_sequences(ctx, meshes, seqs, 'mod')
    failures, items, pcases = [], [], []
    n_steps = n_stale = 0
    n_incons = sum(1 for ev in evals for e in ev if e['cur'].get('nodes_vs_NODE_inconsistent'))
    cost_cache = {}
    for sq, ev in zip(seqs, evals):
        mesh0 = meshes[sq['mesh']]
        reported = False
        for e in ev:
            st, k, cur = e['st'], e['step'], e['cur']
            if st['kind'] == 'op':
                n_steps += 1
                ctx.count('in-place:op-after-' + '+'.join(
                    sorted({x['op'] for x in sq['steps'][:k] if x['kind'] == 'modify'}) or ['nothing']))
                ctx.case(['in-place', mesh0['descr'], mesh0['node_ids'][:4], k,
                          [x.get('op') or kw_key(x['kw']) for x in sq['steps'][:k + 1]]], nontrivial=k > 0)
                if e['info'].get('differs_from_fresh') and st['kw']['consider_volume']:
                    n_stale += 1
            if e['bad'] and not reported:
                reported = True
                check, detail = e['bad'][0]
                c = {'mesh': sq['mesh'], 'kw': st.get('kw') or sq['steps'][0]['kw'], 'n': e['info'].get('n', 0),
                     'mod_sequence': sq, 'failing_step': k, 'seq_id': id(sq)}
                failures.append([len(mesh0['node_ids']) * 100 + k, 'impl-violation', mesh0, c,
                                 'after an in-place modification every operator is the operator of the '
                                 'modified mesh (' + check + ')', dict(detail, step=k),
                                 {'affine-exact-after-modification': 'C15_convenience_affine_exact',
                                  'const-zero-after-modification': 'C15_grad_const_zero',
                                  'convenience-after-modification': 'C15_convenience_equals_matrices'
                                  }.get(check, 'C15_moment_exact / model on the modified mesh')
                                 + ' / in-place modification stream', check])
            # correspondence with the Coq model on the reported mesh
            if st['kind'] != 'op' or e['bad'] or 'error' in e['mats'] or st['kw'].get('kernel'):
                continue
            kw = st['kw']
            if kw['moment_matrix'] and not e['info']['well']:
                continue
            est = cost_estimate(cur, kw, cost_cache)
            if est > (4.0 if quick else 12.0):
                continue
            dm = f"{e['cur_id']}k{k}"
            meshes[dm] = dict(cur, exact_vol=None)
            ne = len(cur['conn'])
            if kw['consider_volume']:
                if 'slot_volumes' not in e['mats'] or sorted(e['mats']['slot_elem_ids']) != sorted(cur['elem_ids']):
                    continue
                by = dict(zip(e['mats']['slot_elem_ids'], [fr_hex(h) for h in e['mats']['slot_volumes']]))
                vols[dm] = [by[i] for i in cur['elem_ids']]
            else:
                vols[dm] = [Fr(1)] * ne
            n = e['info']['n']
            pc = {'id': 200000 + len(pcases), 'mesh': dm, 'kw': kw, 'n': n, 'est': est, 'modified': True,
                  'mod_sequence': sq, 'failing_step': k, 'seq_id': id(sq), 'base_mesh_obj': mesh0}
            rows3 = [rows_from_coo(A, n) for A in e['mats']['matrices']]
            conv = None
            if est <= 1.0 and 'error' not in e['conv']:
                pc['data'] = e['info']['data']
                conv = e['conv']
            pcases.append(pc)
            items.append((pc['id'], pc, rows3, conv))
    ctx.notes['in_place_modification_stream'] = {
        'sequences': len(seqs), 'operator_steps': n_steps, 'coq_cases': len(items),
        'failing_sequences': len(failures),
        'modifications_that_raised (not judged)': sorted({f'{a}: {b}' for sq in seqs for a, b in sq.get('modify_errors', [])}),
        'volume_weighted_steps_differing_from_a_fresh_object (stale volume slot, property C19)': n_stale,
        "operator_steps_in_a_state_where_nodes_and_nodal_data['NODE']_differ (property C08)": n_incons}
    # shrink: [modifications..., failing op], then [.., earlier op, .., failing op]
    failures.sort(key=lambda f: f[0])
    todo = [f for f in failures[:3] if f[3]['mod_sequence']['steps'][f[3]['failing_step']]['kind'] == 'op']
    if todo:
        cand = []
        for f in todo:
            sq, k = f[3]['mod_sequence'], f[3]['failing_step']
            ops = [j for j in range(k) if sq['steps'][j]['kind'] == 'op']
            for keep_ops in [[]] + [[j] for j in reversed(ops)]:
                idx = [j for j in range(k) if sq['steps'][j]['kind'] == 'modify' or j in keep_ops] + [k]
                cand.append((f, {'mesh': sq['mesh'], 'mode': sq['mode'],
                                 'steps': [sq['steps'][j] for j in idx]}))
        ev2 = run_mod_sequences(ctx, meshes, [c for _, c in cand], 'mod_shrink')
        done = set()
        for (f, sq2), ev in zip(cand, ev2):
            if id(f) in done:
                continue
            last = [e for e in ev if e['step'] == len(sq2['steps']) - 1]
            if last and last[0]['bad']:
                done.add(id(f))
                f[3] = dict(f[3], mod_sequence=sq2, failing_step=len(sq2['steps']) - 1,
                            shrunk_from=len(f[3]['mod_sequence']['steps']))
                f[5] = dict(last[0]['bad'][0][1], step=len(sq2['steps']) - 1)
                f[7] = last[0]['bad'][0][0]
                f[0] -= 100000
    return [tuple(f) for f in failures], items, pcases


# -------------------------------------------------------------------- main
def prepare_cases(ctx, meshes, cases):
    """run the implementation; attach outputs, neighbourhood data, flags"""
    rng = ctx.rng
    jobs = []
    for mid in meshes:
        jobs.append({'id': len(jobs), 'mesh': mid, 'kind': 'volumes', 'mid': mid})
    for cid, c in enumerate(cases):
        c['id'] = cid
        mesh = meshes[c['mesh']]
        n = n_vertices(mesh, c['kw'])
        c['n'] = n
        kw = dict(c['kw'])
        c['job_mat'] = len(jobs)
        jobs.append({'id': len(jobs), 'mesh': c['mesh'], 'kind': 'matrices', 'kw': kw,
                     'falsy': c.get('falsy')})
        # convenience function on integer data (1-3 features), fresh object
        c['with_conv'] = c.get('with_conv', rng.random() < 0.5 and
                               (c['kw'].get('kernel') is not None or c.get('est', 0.0) <= 1.2))
        # boolean flags given as falsy / truthy non-bool values; parameters as ints
        if 'falsy' not in c and not c.get('malformed') and rng.random() < 0.15:
            c['falsy'] = rng.choice(['none', 'zero', 'npfalse'])
        if c.get('falsy'):
            ctx.count('flags-as:' + c['falsy'])
        if c['with_conv']:
            order1_nodal = bool(c['kw'].get('order1_only')) and c['kw']['mode'] == 'nodal' and mesh.get('k1')
            if 'data' not in c:
                nfeat = rng.randint(1, 3)
                if rng.random() < 0.1:
                    nfeat = 12                 # many components: oracle only
                    c['conv_no_coq'] = True
                c['data_dtype'] = rng.choice(['float', 'float', 'int', 'bool'])
                # the nodal convenience function takes data for ALL nodes and filters itself
                n_data = len(mesh['node_ids']) if order1_nodal else n
                c['data'] = [[(rng.randint(0, 1) if c['data_dtype'] == 'bool' else rng.randint(-9, 9))
                              for _ in range(nfeat)] for _ in range(n_data)]
            if order1_nodal:
                c['data_eff'] = [c['data'][k] for k in eff_mesh(mesh, c['kw'])['order1_keep']]
            c['job_conv'] = len(jobs)
            jobs.append({'id': len(jobs), 'mesh': c['mesh'], 'kind': 'conv', 'kw': kw,
                         'data': c['data'], 'falsy': c.get('falsy'),
                         'data_dtype': c.get('data_dtype', 'float')})
        if 'affine' not in c:
            c['affine'] = [([rng.randint(-5, 5) for _ in range(3)], rng.randint(-20, 20))
                           for _ in range(2)] + [([1, 0, 0], 0)]
    res = run_impl(ctx, meshes, jobs)
    vols = {}
    for j in jobs:
        if j['kind'] == 'volumes':
            r = res[j['id']]
            mesh = meshes[j['mid']]
            if 'error' in r:
                if mesh.get('descr', {}).get('malformed'):
                    vols[j['mid']] = [Fr(1)] * len(mesh['conn'])
                    continue
                raise RuntimeError('calculate_element_volumes failed on a generated mesh: ' + r['error'])
            impl = [fr_hex(h) for h in r['volumes']]
            if r.get('elem_ids') and sorted(r['elem_ids']) == sorted(mesh['elem_ids']) \
                    and len(impl) == len(mesh['elem_ids']):
                by_id = dict(zip(r['elem_ids'], impl))          # femio's element order -> ours
                impl = [by_id[i] for i in mesh['elem_ids']]
            if 'exact_vol' not in mesh:
                mesh['exact_vol'] = exact_volumes(mesh)
            ex = mesh['exact_vol']
            rel = Fr(1, 2 ** 45) if mesh['etype'] in ('tet', 'tet2') else Fr(1, 2 ** 20)
            if mesh.get('xyz_dtype') == 'float32':
                rel = Fr(1, 2 ** 18)
            if ex is not None and len(ex) == len(impl) and \
                    all(abs(a - b) <= rel * abs(a) for a, b in zip(ex, impl)):
                vols[j['mid']] = ex
                ctx.count('volumes:exact (independent of femio, femio agrees)')
            else:
                # non-planar hexes (femio returns float32 values), or femio
                # disagrees with the exact volume (that is property C11, not
                # C15): the model takes femio's volumes as its input
                vols[j['mid']] = impl
                mesh['exact_vol'] = None
                ctx.count('volumes:from calculate_element_volumes()')
    return res, vols


MODELLED = {
    'femio/signal_processor.py': [
        'calculate_spatial_gradient_adjacency_matrices', 'calculate_nodal_spatial_gradients',
        'calculate_elemental_spatial_gradients', 'calculate_data_diff_adjs', 'calculate_data_adjs',
        'calculate_norm_adj', 'calculate_tensor_power', 'multiply_sparse_tensors',
        '_operate_sparse_list', '_inverse_tensors', '_dot_ndarray_sparse',
        '_calculate_inner_product_adj', 'calculate_distance_kernel_adj', 'convert_nodal2elemental',
        'convert_elemental2nodal'],
    'femio/graph_processor.py': [
        'calculate_n_hop_adj', 'calculate_adjacency_matrix_node', 'calculate_adjacency_matrix_element',
        'calculate_incidence_matrix'],
}


def source_hashes():
    """sha256 of the source text of every function the hand model mirrors
    (recorded in the evidence; the tie itself is the correspondence)"""
    import ast
    out = {}
    for rel, names in MODELLED.items():
        try:
            src = (lib.REPO / rel).read_text()
            tree = ast.parse(src)
        except (OSError, SyntaxError) as e:
            out[rel] = 'unreadable: ' + str(e)[:100]
            continue
        for node in ast.walk(tree):
            if isinstance(node, ast.FunctionDef) and node.name in names:
                out[f'{rel}:{node.name}'] = lib.sha(ast.get_source_segment(src, node) or '')
    return out


def describe(mesh, c):
    return {'mesh': mesh['descr'], 'n_nodes': len(mesh['node_ids']), 'n_elems': len(mesh['conn']),
            'options': kw_key(c['kw']), 'alpha': c['kw'].get('alpha')}


def replay_case(mesh, c, vols=None):
    mesh = c.get('base_mesh_obj', mesh)
    out = {'mesh': {k: mesh[k] for k in ('etype', 'node_ids', 'xyz', 'elem_ids', 'conn', 'blocks', 'k1', 'scale_exp', 'xyz_dtype')
                    if k in mesh},
           'kw': c['kw'], 'data': c.get('data'), 'affine': c.get('affine')}
    if c.get('mod_sequence'):
        k = c['failing_step']
        base = c['mod_sequence']['mesh']
        out['data'] = None
        out['in_place_sequence'] = json_mod_steps(c['mod_sequence']['steps'][:k + 1])
        out['failing_step'] = k
        out['mode'] = c['mod_sequence']['mode']
        if c.get('shrunk_from'):
            out['shrunk_from_steps'] = c['shrunk_from']
    elif c.get('sequence'):
        k = c['failing_step']
        out['data'] = None
        out['same_object_sequence'] = H.json_steps(c['sequence']['steps'][:k + 1])
        if c['sequence'].get('mesh2') and c.get('mesh2_obj') is not None:
            m2 = c['mesh2_obj']
            out['mesh2'] = {kk: m2[kk] for kk in ('etype', 'node_ids', 'xyz', 'elem_ids', 'conn', 'blocks', 'k1',
                                                  'scale_exp', 'xyz_dtype') if kk in m2}
        out['failing_step'] = k
        out['mode'] = c['sequence']['mode']
        if c.get('shrunk_from'):
            out['shrunk_from_steps'] = c['shrunk_from']
    return out


def trailing_isolated_kernel_case(kw, nb, err):
    """the option/mesh class of the finding 'kernel matrix rebuilt without its
    shape': a distance kernel is requested, the vertex stored LAST (in the
    mode's vertex order) has no neighbour within n_hop, and scipy reports the
    shape mismatch.  Anything else that raises stays an ordinary 'raised'."""
    if kw.get('kernel') is None or not nb or nb[-1]:
        return False
    return str(err).startswith('ValueError: inconsistent shapes')


def signature(mesh, c, check):
    kw = c['kw']
    sig = {'check': check, 'options': kw_key(kw), 'etype': mesh['etype']}
    if kw.get('order1_only'):
        sig['order1_only'] = True
    if c.get('_error'):
        sig['error'] = c['_error'].split(':')[0]
    return sig


def main(ctx):
    ctx.rule = ('meshes: graded integer lattices of tet (Kuhn split) or hex cells, integer jitter, '
                'integer affine image (rotation x3, shear, reflection, anisotropic), sparse/large/dense '
                'ids, storage order shuffled; options: nodal/elemental x hop 1-3 x volume '
                'none/effective/mean(nodal)/element x moment on/off (round-robin over all 30) with '
                'kernel=None for the correspondence, plus exp/gauss kernels for the oracle; a case is '
                'non-trivial when the implementation returned matrices with at least one off-diagonal '
                'entry; distinct = distinct (mesh, options); same-object stream: random walks over option '
                'values on ONE FEMData (7 calls quick / 10 thorough per sequence), each step compared with '
                'a fresh object and with the model; distinct = distinct call prefix')
    ctx.trusted += [
        'hand model coq/C15/Model.v tied to femio by the correspondence (explicit matrices and '
        'convenience functions, kernel=None) evaluated in Coq on rationals; floats enter as exact '
        'rationals (float.hex); tolerance 2^-36 x max(1, largest |model entry| of the row) for the '
        'binary64 path, 2^-18 where femio weights with float32 volumes (hex meshes with consider_volume)',
        'element volumes are an INPUT of the model: computed exactly and independently of femio for '
        'tets (det/6) and parallelepiped hexes (femio must agree within 2^-45 / 2^-20), else taken '
        'from calculate_element_volumes() of a separate fresh object (their correctness is C11)',
        'exp/gauss kernels: irrational weights, checked against the theorems\' conclusions only '
        '(oracle), not entrywise',
        'harness glue harness/c15.py, c15_gen.py (generator, float->rational, COO canonicalisation: '
        'duplicates summed, rows sorted by column); untrusted Python mirror used only to select '
        'well-conditioned neighbourhoods',
    ]
    ctx.assumptions += [
        'rounding is outside the model (reals); single element type per mesh (tet or hex); every '
        'node belongs to an element; normals=None (Neumann terms are outside the property)',
        'moment-matrix cases are generated only where every vertex neighbourhood spans space with '
        'margin det(M0) >= (tr(M0)/3)^3/50 (unweighted normalised moment matrix, exact)',
    ]
    ctx.sources = source_hashes()
    # exact-body tie: when a modelled function's source differs from the
    # baseline the correspondence ran against, say so and widen the search
    bl = lib.VERIF / 'corpus' / PID / 'source_baseline.json'
    if bl.exists():
        base = json.loads(bl.read_text())
        # a baseline value is one hash or a list of accepted hashes (the tree
        # before and after a proposed fix that is awaiting its `fix:` commit)
        def same(b, h):
            return h in b if isinstance(b, list) else b == h
        changed = sorted(k for k in set(base) | set(ctx.sources) if not same(base.get(k), ctx.sources.get(k)))
        if changed:
            ctx.notes['modelled_source_changed'] = changed
            ctx.log('modelled source differs from the baseline:', changed, '-> extended search sizes')
    # 1. proofs
    proof_ok, log = ctx.build_props('C15/Props.v')
    if not proof_ok:
        ctx.notes['build_log_tail'] = log[-1500:]

    # 2. cases: corpus first, then generated
    meshes, cases, corpus_seqs, corpus_mod = {}, [], [], []
    corpus_dir = lib.VERIF / 'corpus' / PID
    n_corpus = 0
    if corpus_dir.exists():
        for f in sorted(corpus_dir.glob('*.json')):
            rp = json.loads(f.read_text())
            if not isinstance(rp, dict) or 'mesh' not in rp:
                continue              # e.g. source_baseline.json
            mid = f'c{n_corpus}'
            m = dict(rp['mesh'])
            m['descr'] = {'corpus': f.name, 'etype': m['etype']}
            meshes[mid] = m
            if rp.get('in_place_sequence'):
                steps = [dict(st) for st in rp['in_place_sequence']]
                for st in steps:
                    if st['kind'] != 'modify':
                        st['kind'] = 'op'
                corpus_mod.append((mid, rp.get('mode') or 'elemental', steps))
                n_corpus += 1
                continue
            if rp.get('same_object_sequence'):
                steps = []
                for st in rp['same_object_sequence']:
                    st = dict(st)
                    if st.get('data') is not None:
                        st['data'] = [[Fr(x) for x in r] for r in st['data']]
                    steps.append(st)
                m['exact_vol'] = exact_volumes(m)
                corpus_seqs.append((mid, rp.get('mode') or steps[-1]['kw']['mode'], steps))
                n_corpus += 1
                continue
            c = {'mesh': mid, 'kw': rp['kw'], 'kernel': rp['kw'].get('kernel'), 'with_conv': bool(rp.get('data'))}
            if rp.get('data'):
                c['data'] = rp['data']
            if rp.get('affine'):
                c['affine'] = [tuple(x) for x in rp['affine']]
            cases.append(c)
            n_corpus += 1
    gm, gc = plan(ctx)
    meshes.update(gm)
    cases += gc
    xm, xc = plan_extended(ctx)
    meshes.update(xm)
    cases += xc
    wm, wc = plan_wide(ctx, extended=bool(ctx.notes.get('modelled_source_changed')))
    meshes.update(wm)
    cases += wc
    ctx.notes['wide_oracle_only_cases'] = len(wc)
    ctx.notes['extended_stream_cases'] = len(xc)
    ctx.notes['corpus_cases'] = n_corpus
    # small malformed stream (kept apart): an element refers to a node id that
    # does not exist; the model rejects (incidence = None), femio must raise
    for k, mid in enumerate(list(gm)[:3]):
        bad = {x: gm[mid][x] for x in ('etype', 'node_ids', 'xyz', 'elem_ids')}
        bad['conn'] = [list(e) for e in gm[mid]['conn']]
        bad['conn'][k % len(bad['conn'])][k % len(bad['conn'][0])] = max(bad['node_ids']) + 12345
        bad['descr'] = dict(gm[mid]['descr'], malformed='dangling node id')
        bad['exact_vol'] = None
        meshes[f'bad{k}'] = bad
        cases.append({'mesh': f'bad{k}', 'malformed': True, 'kernel': None, 'with_conv': False,
                      'kw': dict(mode=('nodal', 'elemental')[k % 2], n_hop=1, consider_volume=False,
                                 use_effective_volume=True, moment_matrix=False)})
    res, vols = prepare_cases(ctx, meshes, cases)
    ctx.log(f'implementation ran: {len(meshes)} meshes, {len(cases)} option cases')

    # 3. classify, oracle, build Coq batches
    batch_items = []
    n_oracle = 0
    failures = []     # (size, kind, mesh, case, expected, observed, theorem, check)
    skipped_sing = 0
    for c in cases:
        mesh = meshes[c['mesh']]
        kw = c['kw']
        if c.get('malformed'):
            r = res[c['job_mat']]
            ctx.count('malformed:dangling-node-id')
            ctx.case([mesh['descr'], 'malformed', kw_key(kw)], nontrivial=False)
            if 'error' not in r:
                failures.append((c['n'], 'correspondence', mesh, c, 'femio raises (the model rejects)',
                                 {'returned': 'matrices'}, 'correspondence C15 (malformed stream)',
                                 'malformed'))
            else:
                batch_items.append((c['id'], c, [[], [], []], None))
            continue
        inc, nb, P = G.neighbourhoods(eff_mesh(mesh, kw), kw['mode'], kw['n_hop'])
        well = well_conditioned(nb, P) if kw['moment_matrix'] else True
        r = res[c['job_mat']]
        rc = res[c['job_conv']] if c['with_conv'] else None
        ctx.count('etype:' + mesh['etype'])
        ctx.count('options:' + kw_key(kw).rsplit('/', 1)[0])
        ctx.count('kernel:' + (kw.get('kernel') or 'none'))
        ctx.count('ids:' + str(mesh['descr'].get('ids', 'corpus')))
        ctx.count('map:' + str(mesh['descr'].get('map', 'corpus')))
        ctx.count('length-unit:' + str(mesh['descr'].get('scale', '2^0')))
        ctx.count('vertices:%s' % ('<=12' if c['n'] <= 12 else '<=30' if c['n'] <= 30 else '>30'))
        if kw['moment_matrix'] and not well:
            # outside the property's precondition (neighbourhoods must span
            # space); numpy raises LinAlgError or returns an ill-conditioned
            # inverse: not compared
            skipped_sing += 1
            ctx.count('skipped:moment-not-well-conditioned')
            continue
        if 'error' in r or (rc is not None and 'error' in rc):
            err = r.get('error') or rc.get('error')
            c['_error'] = err
            check = 'raised'
            obs = {'error': err}
            if trailing_isolated_kernel_case(kw, nb, err):
                # diagnosis of one specific call site (see known_findings.d/C15.json):
                # calculate_distance_kernel_adj rebuilds the CSR matrix from
                # (data, indices, indptr) WITHOUT shape=, so the column count is
                # inferred as 1 + the largest stored column; when the vertices
                # stored last have no neighbour the kernel matrix is narrower
                # than the adjacency and .multiply(volume_adj) raises
                check = 'raised-kernel-trailing-isolated-vertex'
                last = max((j for x in nb for j in x), default=-1)
                obs['diagnosis'] = (f'kernel={kw.get("kernel")!r} and the {len(nb) - 1 - last} vertices stored last '
                                    f'(of {len(nb)}) have no neighbour: the kernel matrix is built with '
                                    f'{last + 1} columns')
            failures.append((c['n'], 'impl-violation', mesh, c,
                             'matrices are returned', obs,
                             'C15_grad_const_zero (implementation raised on a well-formed mesh)', check))
            continue
        mats = r['matrices']
        shapes_ok = r['n_matrices'] == 3 and all(A['shape'] == [c['n'], c['n']] for A in mats)
        if not shapes_ok:
            failures.append((c['n'], 'correspondence', mesh, c, f"3 matrices of shape {[c['n'], c['n']]}",
                             {'n_matrices': r['n_matrices'], 'shapes': [A['shape'] for A in mats]},
                             'correspondence C15 (Model.corr_matrices)', 'shape'))
            continue
        def nonfinite(hs):
            return [h for h in hs if 'n' in h.lower().replace('0x', '')]   # inf / nan
        nf = sum(len(nonfinite(A['data'])) for A in mats) + (len(nonfinite(rc['grad'])) if rc else 0)
        if nf:
            failures.append((c['n'], 'impl-violation', mesh, c, 'finite matrix entries',
                             {'non_finite_entries': nf},
                             'C15_grad_const_zero / oracle on implementation', 'non-finite'))
            continue
        nnz_off = sum(1 for A in mats for rr, cc in zip(A['row'], A['col']) if rr != cc)
        ctx.case([mesh['descr'], mesh['node_ids'][:4], kw_key(kw), kw.get('alpha')],
                 nontrivial=nnz_off > 0,
                 sample={'case': describe(mesh, c), 'offdiag_entries': nnz_off,
                         'first_entries_axis0': [[rr, cc, float.fromhex(h)] for rr, cc, h in
                                                 list(zip(mats[0]['row'], mats[0]['col'], mats[0]['data']))[:4]]})
        # oracle (all kernels)
        bad = oracle_case(mesh, c, mats, rc, P, well, nb)
        n_oracle += 1
        for check, detail in bad:
            th = {'const-zero': 'C15_grad_const_zero', 'affine-exact': 'C15_moment_exact',
                  'offsets': 'model (coef_plain: coefficients are positive multiples of the offsets)',
                  'convenience': 'C15_convenience_equals_matrices'}[check]
            failures.append((c['n'], 'impl-violation', mesh, c,
                             {'const-zero': 'every row of every matrix sums to zero',
                              'offsets': 'plain rows: coefficient of neighbour j is a positive multiple of x_j - x_i',
                              'affine-exact': 'gradient of g.x+c is g at every vertex',
                              'convenience': 'convenience output = matrices applied by hand'}[check],
                             detail, th + ' / oracle on implementation', check))
        # correspondence (kernel None only)
        if kw.get('kernel') is None and not c.get('oracle_only'):
            rows3 = [rows_from_coo(A, c['n']) for A in mats]
            batch_items.append((c['id'], c, rows3, None if c.get('conv_no_coq') else rc))
    # 3b. same-object stream (several calls on ONE FEMData)
    hist_failures, hist_items, hist_cases = history_stream(ctx, meshes, {}, corpus_seqs)
    failures += hist_failures
    batch_items += hist_items
    # 3c. in-place modification stream
    mod_failures, mod_items, mod_cases = modify_stream(ctx, meshes, vols, corpus_mod)
    failures += mod_failures
    batch_items += mod_items
    hist_cases = hist_cases + mod_cases
    ctx.log(f"in-place modification stream: {ctx.notes.get('in_place_modification_stream')}")
    ctx.log(f"same-object stream: {ctx.notes.get('same_object_stream')}")
    ctx.notes['search_evaluations'] = n_oracle + ctx.notes.get('same_object_stream', {}).get('steps', 0)
    ctx.notes['skipped_moment_not_well_conditioned'] = skipped_sing

    # 4. correspondence inside Coq
    model_ok, _, _ = lib.coq_make(['C15/Exec.vo'])      # Model.vo + the executable comparison
    corr_fail = 0
    n_corr = sum(1 for b in batch_items if b[2] is not None) + sum(1 for b in batch_items if b[3] is not None)
    by_id0 = {c['id']: c for c in cases + hist_cases}
    if model_ok and batch_items:
        # balance batches by estimated cost (longest first, least-loaded batch)
        batch_items.sort(key=lambda b: -b[1].get('est', 1.0))
        nb_batches = min(14 if ctx.tier == 'quick' else 15, len(batch_items))
        batches = [[] for _ in range(nb_batches)]
        loads = [0.0] * nb_batches
        for b in batch_items:
            k = loads.index(min(loads))
            batches[k].append(b)
            loads[k] += b[1].get('est', 1.0) + 1.0
        ctx.notes['estimated_coq_seconds_per_batch'] = round(max(loads), 1)
        fm, fc, errors, times = run_coq_batches(ctx, batches, meshes, vols)
        ctx.notes['coq_case_seconds'] = {'max': max([t or 0 for t in times.values()] + [0]), 'sum': round(sum(t or 0 for t in times.values()), 1)}
        ctx.notes['slowest_cases'] = sorted([(round(t or 0, 1), k[0], kw_key(by_id0[k[1]]['kw']), by_id0[k[1]]['n'], round(by_id0[k[1]].get('est', 0), 1)) for k, t in times.items()], reverse=True)[:8]
        (ctx.scratch / 'calib.json').write_text(json.dumps(
            [{'kind': k[0], 'sec': t, 'opts': kw_key(by_id0[k[1]]['kw']), 'n': by_id0[k[1]]['n'],
              'est': by_id0[k[1]].get('est'), 'descr': meshes[by_id0[k[1]]['mesh']]['descr'],
              'exact_vol': meshes[by_id0[k[1]]['mesh']].get('exact_vol') is not None}
             for k, t in times.items()], indent=0))
        if errors:
            ctx.notes['coq_eval_errors'] = errors[:3]
        by_id = by_id0
        for cid, detail in fm.items():
            c = by_id[cid]
            corr_fail += 1
            failures.append((c['n'], 'correspondence', meshes[c['mesh']], c,
                             'implementation matrices = model matrices (all rows, within tolerance)',
                             {'failing (axis,row) pairs or model result': detail},
                             'correspondence C15 (Model.corr_matrices)' +
                             (' on the mesh reported after in-place modification' if c.get('modified') else ''),
                             'matrices-after-modification' if c.get('modified') else 'matrices'))
        for cid, detail in fc.items():
            c = by_id[cid]
            corr_fail += 1
            failures.append((c['n'], 'correspondence', meshes[c['mesh']], c,
                             'convenience function output = model (all vertices, within tolerance)',
                             {'failing vertices or model result': detail},
                             'correspondence C15 (Model.conv_agree)' +
                             (' / same-object stream' if c.get('history') else ''),
                             'conv-history' if c.get('history') else
                             'conv-after-modification' if c.get('modified') else 'conv'))
    elif not model_ok:
        ctx.notes['model_build_failed'] = True
    ctx.corr = {'cases': n_corr if model_ok else 0, 'disagreements': corr_fail,
                'matrices_cases': sum(1 for b in batch_items if b[2] is not None),
                'convenience_cases': sum(1 for b in batch_items if b[3] is not None)}
    ctx.log(f'correspondence: {n_corr} cases, {corr_fail} disagreements; oracle cases {n_oracle}')

    # 5. violations (smallest failing input per signature first)
    failures.sort(key=lambda f: f[0])
    impl_bad_cases = {id(f[3]) for f in failures if f[1] == 'impl-violation'}
    impl_bad_seqs = {f[3]['seq_id'] for f in failures if f[1] == 'impl-violation' and 'seq_id' in f[3]}
    per_check, suppressed = {}, {}
    for size, kind, mesh, c, expected, observed, theorem, check in failures:
        found = kind == 'impl-violation' or id(c) in impl_bad_cases or c.get('seq_id') in impl_bad_seqs
        # at most 3 replay files per (kind, check): the smallest failing inputs
        k = f'{kind}/{check}'
        per_check[k] = per_check.get(k, 0) + 1
        if per_check[k] > 3:
            suppressed[k] = suppressed.get(k, 0) + 1
            continue
        ctx.violation(kind, replay_case(mesh, c), expected, observed, theorem,
                      found_input=found, signature=signature(mesh, c, check),
                      what=f"{check} fails for {kw_key(c['kw'])} on a {mesh['etype']} mesh "
                           f"({len(mesh['node_ids'])} nodes)" +
                           (f" as call {c['failing_step'] + 1} on the same object"
                            if c.get('sequence') else ''))
    if suppressed:
        ctx.notes['further_failing_cases_not_written_as_replay_files'] = suppressed
    ctx.notes['failing_cases_by_kind'] = per_check
    if not proof_ok and not failures:
        bad = [o['name'] for o in ctx.obligations if not o['discharged']]
        ctx.violation('proof-broken', {'theorems': bad}, 'Props.v compiles with stdlib axioms only',
                      'does not check', ', '.join(bad), found_input=False,
                      signature={'check': 'proof-broken'})
    if not model_ok and not failures:
        ctx.violation('tie-broken', {}, 'Model.v and Exec.v compile', 'do not compile',
                      'correspondence C15', found_input=False, signature={'check': 'model-build'})
    return ctx.finish()


def replay(path):
    rp = json.loads(Path(path).read_text())
    case = rp.get('case', {})
    if 'mesh' not in case:
        print('nothing to replay on the implementation:', json.dumps(rp, indent=1)[:2000])
        return 1
    ctx = lib.Ctx(PID, 'quick', clear_replays=False)
    mesh = dict(case['mesh'])
    mesh['descr'] = {'replay': Path(path).name, 'etype': mesh['etype']}
    meshes = {'r0': mesh}
    c = {'mesh': 'r0', 'kw': case['kw'], 'kernel': case['kw'].get('kernel'),
         'with_conv': bool(case.get('data'))}
    if case.get('data'):
        c['data'] = case['data']
    if case.get('affine'):
        c['affine'] = [tuple(x) for x in case['affine']]
    if case.get('in_place_sequence'):
        steps = [dict(st) for st in case['in_place_sequence']]
        for st in steps:
            if st['kind'] != 'modify':
                st['kind'] = 'op'
        sq = {'mesh': 'r0', 'mode': case.get('mode') or 'elemental', 'steps': steps}
        ev = run_mod_sequences(ctx, meshes, [sq], 'replay_mod')[0]
        anybad = False
        for k, st in enumerate(steps):
            if st['kind'] == 'modify':
                print(f'step {k}: modify {st["op"]}')
        for e in ev:
            anybad = anybad or bool(e['bad'])
            print(f"step {e['step']}: operators {kw_key(e['st']['kw']) if e['st'].get('kw') else ''}:",
                  e['bad'] or 'agree with the modified mesh')
        print('property', 'VIOLATED' if anybad else 'holds', 'on this call sequence')
        return 1 if anybad else 0
    if case.get('same_object_sequence'):
        steps = []
        for st in case['same_object_sequence']:
            st = dict(st)
            if st.get('data') is not None:
                st['data'] = [[Fr(x) for x in r] for r in st['data']]
            steps.append(st)
        mode = case.get('mode') or [st for st in steps if st['kind'] != 'call'][-1]['kw']['mode']
        sq = {'mesh': 'r0', 'mode': mode, 'steps': steps, 'P': G.neighbourhoods(mesh, mode, 1)[2]}
        if case.get('mesh2'):
            m2 = dict(case['mesh2'])
            m2['descr'] = {'replay': 'second object', 'etype': m2['etype']}
            meshes['r1'] = m2
            sq['mesh2'] = 'r1'
            for st in steps:
                st['mesh_id'] = 'r1' if st.get('obj') else 'r0'
            finish_steps(ctx.rng, mesh, mode, [st for st in steps if not st.get('obj')])
            finish_steps(ctx.rng, m2, mode, [st for st in steps if st.get('obj')])
        else:
            finish_steps(ctx.rng, mesh, mode, steps)
        outs = run_sequences(ctx, meshes, [sq], 'replay_hist')[0]
        bad = eval_sequence(meshes, sq, outs)
        for k, st in enumerate(steps):
            if st['kind'] == 'call':
                print(f'step {k}: other public call {st["name"]}')
                continue
            print(f'step {k} (object {st.get("obj", 0)}): {st["kind"]} {kw_key(st["kw"])} '
                  f'alpha={st["kw"].get("alpha")}:',
                  [b[1:] for b in bad if b[0] == k] or 'agrees with a fresh object')
        print('property', 'VIOLATED' if bad else 'holds', 'on this call sequence')
        return 1 if bad else 0
    res, vols = prepare_cases(ctx, meshes, [c])
    kw = c['kw']
    inc, nb, P = G.neighbourhoods(eff_mesh(mesh, kw), kw['mode'], kw['n_hop'])
    well = well_conditioned(nb, P) if kw['moment_matrix'] else True
    r = res[c['job_mat']]
    rc = res[c['job_conv']] if c['with_conv'] else None
    if 'error' in r:
        print('implementation raised:', r['error'])
        return 1
    bad = oracle_case(mesh, c, r['matrices'], rc, P, well)
    print('implementation, property oracle:', bad if bad else 'holds')
    rcode = 1 if bad else 0
    if kw.get('kernel') is None:
        rows3 = [rows_from_coo(A, c['n']) for A in r['matrices']]
        lib.coq_make(['C15/Exec.vo'])
        fm, fc, errors, _ = run_coq_batches(ctx, [[(0, c, rows3, rc)]], meshes, vols)
        print('model vs implementation (Coq): matrices', fm.get(0, 'agree'), '; convenience',
              fc.get(0, 'agree' if rc is not None else 'not run'), errors or '')
        if fm or fc:
            rcode = 1
    print('property', 'VIOLATED or tie broken' if rcode else 'holds', 'on this input')
    return rcode


if __name__ == '__main__':
    if len(sys.argv) > 2 and sys.argv[1] == 'replay':
        sys.exit(replay(sys.argv[2]))
    tier = sys.argv[1] if len(sys.argv) > 1 else 'quick'
    sys.exit(main(lib.Ctx(PID, tier)))
