"""C19 child process for the slot-protocol correspondence: runs sequences of
calculate_element_volumes / _areas / _metrics calls (explicit options) and
drops (remove_useless_nodes, which forgets the stored results) on a live femio
mesh; reports every answer and the table entry under the slot's name after
every step as exact rationals.  The signed values per mode come from separate
fresh objects (compute path).  Spec on stdin (JSON), result in spec['out'].
"""
import contextlib
import io
import json
import sys
import traceback
from pathlib import Path

import numpy as np

sys.path.insert(0, str(Path(__file__).resolve().parent))
import c19_impl  # noqa  (build)

METHOD = {'volume': ('calculate_element_volumes', 'raise_negative_volume', 'return_abs_volume', True),
          'area': ('calculate_element_areas', 'raise_negative_area', 'return_abs_area', True),
          'metric': ('calculate_element_metrics', 'raise_negative_metric', 'return_abs_metric', False)}
MODES = ['centroid', 'linear', 'gaussian']


def rats(a):
    out = []
    for x in np.ravel(np.asarray(a, dtype=np.float64)).tolist():
        n, d = float(x).as_integer_ratio()
        out.append([str(n), str(d)])
    return out


def kwargs_of(slot, o):
    meth, kr, ka, has_mode = METHOD[slot]
    kw = {kr: bool(o['raise']), ka: bool(o['abs'])}
    if has_mode:
        kw['mode'] = MODES[o['mode']]
    return meth, kw


def call(fd, slot, o):
    meth, kw = kwargs_of(slot, o)
    try:
        with contextlib.redirect_stdout(io.StringIO()):
            v = getattr(fd, meth)(**kw)
        return {'val': rats(v)}
    except ValueError as e:
        if 'Negative metric found' in str(e):
            return {'raise': True}
        return {'error': 'ValueError: ' + str(e)[:200]}
    except Exception as e:        # noqa
        return {'error': type(e).__name__ + ': ' + str(e)[:200]}


def entry(fd, slot):
    if slot not in fd.elemental_data:
        return None
    opts = getattr(fd.elemental_data[slot], 'options', None)
    if opts is not None:
        opts = list(opts)
        if len(opts) == 3:
            opts = {'mode': MODES.index(opts[0]) if opts[0] in MODES else 99, 'raise': bool(opts[1]), 'abs': bool(opts[2])}
        else:
            opts = {'mode': 0, 'raise': bool(opts[0]), 'abs': bool(opts[1])}
    return {'vals': rats(fd.elemental_data.get_attribute_data(slot)), 'opts': opts}


def signed_of(make, slot):
    out = []
    n_modes = 3 if METHOD[slot][3] else 1
    for m in range(n_modes):
        r = call(make(), slot, {'mode': m, 'raise': False, 'abs': False})
        if 'val' not in r:
            raise RuntimeError('signed values: ' + json.dumps(r))
        out.append(r['val'])
    return out


def run_case(case):
    slot = case['slot']
    mesh = case['mesh']
    bare = dict(mesh, elemental={k: v for k, v in mesh.get('elemental', {}).items() if k != slot})
    signed = signed_of(lambda: c19_impl.build(bare), slot)
    fd = c19_impl.build(mesh)
    t0 = entry(fd, slot)
    steps = []
    for op in case['ops']:
        if op == 'drop':
            with contextlib.redirect_stdout(io.StringIO()):
                fd.remove_useless_nodes()
            steps.append({'drop': True, 'entry': entry(fd, slot)})
        elif op == 'mod':
            # connectivity assignment (first two nodes of every element swapped: orientation flips);
            # the values the kernels compute afterwards come from fresh copies of the modified mesh
            d = np.array(fd.elements.data).copy()
            d[:, [0, 1]] = d[:, [1, 0]]
            with contextlib.redirect_stdout(io.StringIO()):
                fd.elements.data = d
            user = {'nodal': [], 'elemental': []}
            steps.append({'mod': True, 'entry': entry(fd, slot),
                          'signed': signed_of(lambda: c19_impl.fresh_copy(fd, user), slot)})
        else:
            r = call(fd, slot, op)
            r['entry'] = entry(fd, slot)
            steps.append(r)
    return {'signed': signed, 't0': t0, 'steps': steps}


def main():
    spec = json.loads(sys.stdin.read())
    res = []
    for case in spec['cases']:
        try:
            res.append(run_case(case))
        except Exception as ex:       # noqa
            res.append({'error': type(ex).__name__ + ': ' + str(ex)[:300], 'trace': traceback.format_exc()[-600:]})
    Path(spec['out']).write_text(json.dumps(res))


if __name__ == '__main__':
    main()
