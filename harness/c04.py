"""C04 — AVS UCD write -> read is exact for mesh, nodal and elemental data."""
import json
import math
import re
import struct
import subprocess
import sys
from pathlib import Path

sys.path.insert(0, str(Path(__file__).resolve().parent))
sys.path.insert(0, str(Path(__file__).resolve().parent.parent / 'translate'))
import lib  # noqa
import c04_cfg  # noqa
import c04_offsets  # noqa
import c04_format  # noqa

PID = 'C04'
ARITY = {'line': 2, 'spring': 2, 'tri': 3, 'quad': 4, 'tet': 4, 'pyr': 5, 'prism': 6, 'hex': 8,
         'hexprism': 12, 'unknown': 3, 'tet2': 10}
SECOND_ORDER_UNSUPPORTED = {'line2': 3, 'tri2': 6, 'quad2': 8, 'hex2': 20, 'pyr2': 13, 'prism2': 15}
SPECIALS = ['nan', '-0.0', '0.0', '5e-324', '-5e-324', '1e308', '-1e308', '1.7976931348623157e308',
            '2.2250738585072014e-308', '2.225073858507201e-308', 'inf', '-inf', '0.1', '1e16', '1e-7',
            '123456789012345680.0', '0.30000000000000004', '1e22', '1e23', '9007199254740993.0']
NAME_CH = 'abcdefghijklmnopqrstuvwxyzABCDEFGHIJKLMNOPQRSTUVWXYZ0123456789_-.+/()[]<>=*&%$#!?;:|~^'


# ------------------------------------------------------------------ floats
def fl(h):
    return float('nan') if h == 'nan' else float.fromhex(h)


def hx(x):
    return 'nan' if math.isnan(x) else float(x).hex()


def vprint_py(x):
    """what the writer is trusted to print for a float64 (pandas to_csv: repr, na_rep='NaN')"""
    return 'NaN' if math.isnan(x) else repr(float(x))


def rand_float(rng):
    k = rng.random()
    if k < 0.25:
        return float(rng.choice(SPECIALS))
    if k < 0.5:
        return struct.unpack('<d', struct.pack('<Q', rng.getrandbits(64)))[0]
    if k < 0.75:
        return rng.uniform(-10, 10)
    return float(rng.randint(-5, 5)) / rng.choice([1, 2, 3, 7, 1024])


# --------------------------------------------------------------- generator
def store_order(rng, ids):
    """storage order of an id list: shuffled, or almost sorted (ends in place + interior shuffled,
    two neighbours swapped, one id moved, reversed, sorted)"""
    ids = list(ids)
    k = rng.choice(['shuffle', 'shuffle', 'sorted', 'reversed', 'swap', 'move', 'ends'])
    if k == 'shuffle' or len(ids) < 3:
        rng.shuffle(ids)
        return ids
    ids.sort()
    if k == 'reversed':
        ids.reverse()
    elif k == 'swap':
        i = rng.randrange(len(ids) - 1)
        ids[i], ids[i + 1] = ids[i + 1], ids[i]
    elif k == 'move':
        x = ids.pop(rng.randrange(len(ids)))
        ids.insert(rng.randrange(len(ids) + 1), x)
    elif k == 'ends':
        mid = ids[1:-1]
        rng.shuffle(mid)
        ids = [ids[0]] + mid + [ids[-1]]
    return ids


def gen_ids(rng, n, mode):
    if mode == 'seq':
        ids = list(range(1, n + 1))
    elif mode == 'offset':
        a = rng.choice([2, 100, 2 ** 31 - 3, 2 ** 53 - n])
        ids = list(range(a, a + n))
    elif mode == 'sparse':
        ids = rng.sample(range(1, 10000), n)
    elif mode == 'large':
        ids = rng.sample(range(2 ** 31, 2 ** 53), n - 1) + [2 ** 53]
    else:  # 'signed'
        ids = rng.sample(range(-50, 50), n)
    return ids


def gen_name(rng, used):
    while True:
        ln = rng.choice([1, 2, 3, 5, 8, 12])
        s = ''.join(rng.choice(NAME_CH) for _ in range(ln))
        if rng.random() < 0.2 and ln >= 3:
            s = s[0] + ' ' + s[2:]
        if used and rng.random() < 0.35:
            # names that are prefixes / extensions / case variants of one another
            base = rng.choice(sorted(used))
            s = rng.choice([base + rng.choice(NAME_CH), base.swapcase(), base[:-1] or base + '_', base + base])
        if s not in used and s.upper() != 'NODE' and s not in ALIASES and s.lower() not in ('nan', 'na', 'null', 'n/a', 'none'):
            used.add(s)
            return s


ALIASES = set()


def load_aliases():
    r = subprocess.run([lib.PY, '-c', 'from femio import config; import json; '
                        'print("@@"+json.dumps(sorted(set(config.DICT_ALIASES)|set(config.DICT_ALIASES.values()))))'],
                       capture_output=True, text=True, env=lib.impl_env())
    for line in r.stdout.splitlines():
        if line.startswith('@@'):
            ALIASES.update(json.loads(line[2:]))


def gen_case(rng, cid, stream, inplace_p=0.45):
    """stream: 'aligned' | 'permuted' | 'malformed'"""
    c = {'id': cid, 'stream': stream}
    nn = rng.choice([1, 2, 3, 4, 5, 6, 8, 12])
    id_mode = rng.choice(['seq', 'offset', 'sparse', 'sparse', 'large', 'signed'])
    nids = store_order(rng, gen_ids(rng, nn, id_mode))
    nw = rng.choice([3, 3, 3, 2, 1])
    c['nodes'] = {'ids': nids, 'width': nw,
                  'rows': [[hx(rand_float(rng)) for _ in range(nw)] for _ in range(nn)]}
    # element blocks
    nt = rng.choice([1, 1, 2, 2, 3, 4])
    types = rng.sample([t for t in ARITY], nt)
    if rng.random() < 0.15:
        # first and second order of the same family in one mesh
        types = ['tet', 'tet2'] + [t for t in types if t not in ('tet', 'tet2')][:nt - 2 if nt > 2 else 0]
        nt = len(types)
    if stream == 'malformed' and rng.random() < 0.5:
        types[rng.randrange(nt)] = rng.choice(list(SECOND_ORDER_UNSUPPORTED))
    counts = [rng.choice([1, 1, 2, 3, 4]) for _ in types]
    eid_mode = rng.choice(['seq', 'offset', 'sparse', 'sparse', 'large', 'signed'])
    eids = gen_ids(rng, sum(counts), eid_mode)
    rng.shuffle(eids)                     # interleaves the ids across the types
    c['elems'] = []
    k = 0
    for t, cnt in zip(types, counts):
        ar = ARITY.get(t) or SECOND_ORDER_UNSUPPORTED[t]
        c['elems'].append({'type': t, 'ids': store_order(rng, eids[k:k + cnt]),
                           'rows': [[rng.choice(nids) for _ in range(ar)] for _ in range(cnt)]})
        k += cnt
    used = set()
    c['drop_NODE'] = rng.random() < 0.25
    # nodal variables
    c['nodal'] = []
    for _ in range(rng.choice([0, 0, 1, 1, 2, 3])):
        kind = rng.choice(['2d'] * 6 + ['1d', '3d'])
        w = rng.choice([1, 1, 2, 3, 6, 9, 10, 12, 20])
        if kind == '3d' and w == nn:
            w += 1     # (k, n_node, ...) arrays are time series to the writer; out of scope
        ids = list(nids)
        if stream == 'permuted' and nn > 1:
            while ids == nids:
                ids = store_order(rng, ids)
        if stream == 'malformed' and rng.random() < 0.4 and nn > 1:
            ids = ids[:-1]                # a variable that does not cover the mesh
        c['nodal'].append({'name': gen_name(rng, used), 'kind': kind, 'width': w, 'ids': ids,
                           'rows': [[hx(rand_float(rng)) for _ in range(w)] for _ in ids]})
    # elemental variables
    c['elemental'] = []
    all_e = [(b['type'], i) for b in c['elems'] for i in b['ids']]
    for _ in range(rng.choice([0, 0, 1, 1, 2, 3])):
        kind = rng.choice(['2d'] * 6 + ['1d', '3d'])
        w = rng.choice([1, 1, 2, 3, 6, 10, 12])
        layout = rng.choice(['typed', 'typed', 'unknown'])
        if layout == 'typed':
            blocks = []
            for b in c['elems']:
                ids = list(b['ids'])
                if stream == 'permuted':
                    ids = store_order(rng, ids)
                blocks.append({'type': b['type'], 'ids': ids})
        else:
            ids = [i for _, i in all_e]
            if stream == 'aligned':
                # the order femio itself would use (elements.ids): storage order
                # for one block, ascending for several
                ids = ids if len(c['elems']) == 1 else sorted(ids)
            else:
                rng.shuffle(ids)
            blocks = [{'type': 'unknown', 'ids': ids}]
        if len(blocks) > 1:
            kind = '2d'   # femio cannot hold/convert 1-D or 3-D data on mixed element types
        if stream == 'malformed' and rng.random() < 0.4 and len(blocks[0]['ids']) > 1:
            blocks[0]['ids'] = blocks[0]['ids'][:-1]
        for b in blocks:
            b['rows'] = [[hx(rand_float(rng)) for _ in range(w)] for _ in b['ids']]
        c['elemental'].append({'name': gen_name(rng, used), 'kind': kind, 'width': w, 'blocks': blocks})
    # options: how the file is written / read; the same read twice
    c['reader'] = rng.choice(['files', 'files', 'directory'])
    c['overwrite'] = rng.choice([True, False])      # fresh paths only; a shared path is always overwritten
    c['read_twice'] = rng.random() < 0.25
    # history of the mesh object itself: every value table (coordinates, nodal variables, single-block
    # elemental variables) is first built with placeholder values and then overwritten IN PLACE through
    # the array that attribute.data returns ('edit'); 'write-edit-write' also writes the placeholder
    # mesh to the same path before the edit.  The property is about the values the mesh holds when it
    # is written, so the expected file / read-back are those of the final values.
    c['inplace'] = rng.choice([None, None, 'edit', 'write-edit-write']) if rng.random() < inplace_p else None
    return c


INT_DTYPES = ['int64', 'int32', 'float32']


def gen_dtype_case(rng, cid, inplace_p=0.45):
    """dtype stream (oracle on the implementation only): coordinates and fields that are not float64;
    all values are small integers, so every dtype holds them exactly and the read-back float64 must be
    numerically identical"""
    c = gen_case(rng, cid, 'aligned', inplace_p)
    c['stream'] = 'dtypes'
    c['oracle_only'] = True
    c['drop_NODE'] = False

    def ints(rows, lo=-9, hi=9):
        return [[hx(float(rng.randint(lo, hi))) for _ in r] for r in rows]
    c['nodes']['rows'] = ints(c['nodes']['rows'])
    c['nodes']['dtype'] = rng.choice(['float64', 'float32', 'int64', 'int32'])
    for v in c['nodal']:
        v['dtype'] = rng.choice(INT_DTYPES + ['bool'])
        v['rows'] = ints(v['rows'], 0, 1) if v['dtype'] == 'bool' else ints(v['rows'])
    for v in c['elemental']:
        v['dtype'] = rng.choice(INT_DTYPES)
        for b in v['blocks']:
            b['rows'] = ints(b['rows'])
    return c


# ------------------------------------------------- expected values (Python)
def mesh_elem_ids(c, etypes):
    order = [b for t in etypes for b in c['elems'] if b['type'] == t]
    ids = [i for b in order for i in b['ids']]
    return ids if len(order) == 1 else sorted(ids)


def ea_table(blocks, etypes):
    order = [b for t in etypes for b in blocks if b['type'] == t]
    rows = [(i, r) for b in order for i, r in zip(b['ids'], b['rows'])]
    return rows if len(order) == 1 else sorted(rows, key=lambda x: x[0])


def expected_by_id(c, etypes):
    """the property's right-hand side, computed independently of the Coq model:
    dicts keyed by id; None when the case is outside the property's domain"""
    exp = {'nodes': {i: r for i, r in zip(c['nodes']['ids'], c['nodes']['rows'])}}
    el = {}
    for b in c['elems']:
        if b['type'] in SECOND_ORDER_UNSUPPORTED:
            return None
        t = 'tet' if b['type'] == 'tet2' else b['type']
        for i, r in zip(b['ids'], b['rows']):
            el[i] = (t, r[:4] if b['type'] == 'tet2' else r)
    exp['elems'] = el
    nd = {}
    for v in c['nodal']:
        if v['kind'] == '2d':
            if sorted(v['ids']) != sorted(c['nodes']['ids']):
                return None
            nd[v['name']] = {i: r for i, r in zip(v['ids'], v['rows'])}
    nd['NODE'] = dict(exp['nodes'])     # FEMData keeps the node table under 'NODE'
    exp['nodal'] = nd
    ed = {}
    for v in c['elemental']:
        if v['kind'] == '2d':
            tb = ea_table(v['blocks'], etypes)
            if sorted(i for i, _ in tb) != sorted(el):
                return None
            ed[v['name']] = {i: r for i, r in tb}
    exp['elemental'] = ed
    return exp


def observed_by_id(rd):
    obs = {'nodes': {i: r for i, r in rd['nodes']}}
    obs['elems'] = {i: (t, r) for t, tb in rd['elems'] for i, r in tb}
    obs['nodal'] = {k: {i: r for i, r in tb} for k, tb in rd['nodal']}
    obs['elemental'] = {k: {i: r for i, r in tb} for k, tb in rd['elemental']}
    return obs


def diff_by_id(exp, obs):
    """list of (section, name, id) where the read-back value differs"""
    out = []
    for sec in ('nodes', 'elems'):
        if set(exp[sec]) != set(obs[sec]):
            out.append((sec, None, 'id-set'))
        for i in exp[sec]:
            if i in obs[sec] and list(exp[sec][i]) != list(obs[sec][i]) and tuple(exp[sec][i]) != tuple(obs[sec][i]):
                out.append((sec, None, i))
    for sec in ('nodal', 'elemental'):
        if list(exp[sec]) != list(obs[sec]):
            if set(exp[sec]) != set(obs[sec]):
                out.append((sec, None, 'names'))
        for k in exp[sec]:
            if k not in obs[sec]:
                continue
            if set(exp[sec][k]) != set(obs[sec][k]):
                out.append((sec, k, 'id-set'))
            for i in exp[sec][k]:
                if i in obs[sec][k] and exp[sec][k][i] != obs[sec][k][i]:
                    out.append((sec, k, i))
    return out


def is_aligned(c, etypes, sec):
    if sec == 'nodal':
        return all(v['ids'] == c['nodes']['ids'] for v in c['nodal'] if v['kind'] == '2d')
    me = mesh_elem_ids(c, etypes)
    return all([i for i, _ in ea_table(v['blocks'], etypes)] == me
               for v in c['elemental'] if v['kind'] == '2d')


# ------------------------------------------------------------ Coq literals
def cS(s):
    return '(S ' + lib.coq_str(s) + ')'


def ctok(h):
    return cS(vprint_py(fl(h)))


def ctable(rows, f):
    return lib.coq_list([f'({lib.coq_Z(i)}, {lib.coq_list([f(x) for x in r])})' for i, r in rows])


def coq_mesh(c):
    nodes = ctable(zip(c['nodes']['ids'], c['nodes']['rows']), ctok)
    elems = lib.coq_list([f"({cS(b['type'])}, {ctable(zip(b['ids'], b['rows']), lib.coq_Z)})"
                          for b in c['elems']])
    nodal = []
    if not c['drop_NODE']:
        nodal.append(f"Build_nvar {cS('NODE')} true {nodes}")
    for v in c['nodal']:
        nodal.append(f"Build_nvar {cS(v['name'])} {'true' if v['kind'] == '2d' else 'false'} "
                     f"{ctable(zip(v['ids'], v['rows']), ctok)}")
    elemental = []
    for v in c['elemental']:
        bl = lib.coq_list([f"({cS(b['type'])}, {ctable(zip(b['ids'], b['rows']), ctok)})"
                           for b in v['blocks']])
        elemental.append(f"Build_evar {cS(v['name'])} {'true' if v['kind'] == '2d' else 'false'} {bl}")
    return f"(Build_mesh {nodes} {elems} {lib.coq_list(nodal)} {lib.coq_list(elemental)})"


def coq_ucd(rd):
    def named(l, f):
        return lib.coq_list([f'({cS(k)}, {ctable(tb, f)})' for k, tb in l])
    return (f"(Build_ucd {ctable(rd['nodes'], ctok)} {named(rd['elems'], lib.coq_Z)} "
            f"{named(rd['nodal'], ctok)} {named(rd['elemental'], ctok)})")


def ascii_ok(s):
    return all(32 <= ord(ch) < 127 for ch in s)


# -------------------------------------------------------------- impl runner
def run_impl(ctx, cases):
    work = ctx.scratch / 'work'
    work.mkdir(exist_ok=True)
    spec = {'work': str(work), 'out': str(ctx.scratch / 'impl_out.json'), 'cases': cases}
    r = subprocess.run([lib.PY, str(lib.VERIF / 'harness' / 'c04_impl.py')], input=json.dumps(spec),
                       text=True, capture_output=True, env=lib.impl_env(), timeout=1500)
    if r.returncode != 0:
        raise RuntimeError('impl runner failed: ' + r.stderr[-2000:])
    return {x['id']: x for x in json.loads(Path(spec['out']).read_text())}


CFG_OK_V = """From Coq Require Import String List.
From FV.C04 Require Import Text Model Proofs Props.
From FV.C04.gen Require Import UcdCfg.
Theorem C04_cfg_ok : cfg_ok UcdCfg.cfg = true.
Proof. vm_compute. reflexivity. Qed.
Definition C04_ucd_roundtrip_unconditional :=
  fun V p q h1 h2 => C04_ucd_roundtrip V p q h1 h2 C04_cfg_ok.
Check C04_ucd_roundtrip_unconditional.
Print Assumptions C04_ucd_roundtrip_unconditional.
"""

# per-run obligation: the reader's line / column arithmetic translated from the tree under test
# (gen/UcdOffsets.v, s_*) equals, for ALL header counts, the positions the model reads at
# (Offsets.v, m_*; Model.read_* = "read at m_*" by the reflexivity lemmas bundled in
# C04_reader_reads_at_named_offsets / C04_reader_headers_at_named_offsets).  The hypotheses are what
# read_headers establishes for every file: no nodal section (DN = 0) => n_nodal_data = 0, same for
# the elemental section.
OFFSETS_V = r"""From Coq Require Import Arith Lia.
From FV.C04 Require Import Offsets.
From FV.C04.gen Require Import UcdOffsets.
Theorem C04_reader_offsets : forall N E DN DE ND NE : nat,
  (DN = 0 -> ND = 0) -> (DE = 0 -> NE = 0) ->
  s_nodal_header_line N E DN DE ND NE = m_nodal_header_line N E
  /\ s_elemental_header_line N E DN DE ND NE = m_elemental_header_line N E ND
  /\ s_nodes_lo N E DN DE ND NE = m_nodes_lo N /\ s_nodes_hi N E DN DE ND NE = m_nodes_hi N
  /\ s_elems_lo N E DN DE ND NE = m_elems_lo N E /\ s_elems_hi N E DN DE ND NE = m_elems_hi N E
  /\ s_nnames_lo N E DN DE ND NE = m_nnames_lo N E ND /\ s_nnames_hi N E DN DE ND NE = m_nnames_hi N E ND
  /\ s_nrows_lo N E DN DE ND NE = m_nrows_lo N E ND /\ s_nrows_hi N E DN DE ND NE = m_nrows_hi N E ND
  /\ s_enames_lo N E DN DE ND NE = m_enames_lo N E DN ND NE
  /\ s_enames_hi N E DN DE ND NE = m_enames_hi N E DN ND NE
  /\ s_erows_lo N E DN DE ND NE = m_erows_lo N E DN ND NE
  /\ s_erows_hi N E DN DE ND NE = m_erows_hi N E DN ND NE
  /\ s_node_first_col N E DN DE ND NE = m_node_first_col
  /\ s_elem_type_col N E DN DE ND NE = m_elem_type_col
  /\ s_elem_first_col N E DN DE ND NE = m_elem_first_col
  /\ s_data_first_col N E DN DE ND NE = m_data_first_col.
Proof.
  intros N E DN DE ND NE Hn He.
  cbv [s_nodal_header_line s_elemental_header_line s_nodes_lo s_nodes_hi s_elems_lo s_elems_hi
       s_nnames_lo s_nnames_hi s_nrows_lo s_nrows_hi s_enames_lo s_enames_hi s_erows_lo s_erows_hi
       s_node_first_col s_elem_type_col s_elem_first_col s_data_first_col
       m_nodal_header_line m_elemental_header_line m_nodes_lo m_nodes_hi m_elems_lo m_elems_hi
       m_nnames_lo m_nnames_hi m_nrows_lo m_nrows_hi m_enames_lo m_enames_hi m_erows_lo m_erows_hi
       m_node_first_col m_elem_type_col m_elem_first_col m_data_first_col].
  destruct DN as [|DN']; destruct ND as [|ND']; destruct DE as [|DE']; destruct NE as [|NE'];
    cbn [Nat.eqb Nat.min]; repeat split; try lia; try (exfalso; lia); try nia.
Qed.
Check C04_reader_offsets.
Print Assumptions C04_reader_offsets.
Goal True. idtac "@@ end_offsets". Abort.
"""
# second scratch file (only when C04_reader_offsets holds): the reader parametrised by the translated
# offsets (ReadParam.read_ucd_at src_offs) IS Model.read_ucd, and the round trip holds for it
TRANSLATED_READER_V = OFFSETS_V + r"""
(* the round trip stated directly over the translated offsets *)
From Coq Require Import String List.
From FV.C04 Require Import Text Model Proofs ReadParam PropsReader.
From FV.C04.gen Require Import UcdCfg.
Definition src_offs : offs := {|
  o_nodal_header_line := s_nodal_header_line; o_elemental_header_line := s_elemental_header_line;
  o_nodes_lo := s_nodes_lo; o_nodes_hi := s_nodes_hi; o_elems_lo := s_elems_lo; o_elems_hi := s_elems_hi;
  o_nnames_lo := s_nnames_lo; o_nnames_hi := s_nnames_hi; o_nrows_lo := s_nrows_lo; o_nrows_hi := s_nrows_hi;
  o_enames_lo := s_enames_lo; o_enames_hi := s_enames_hi; o_erows_lo := s_erows_lo; o_erows_hi := s_erows_hi;
  o_node_first_col := s_node_first_col; o_elem_type_col := s_elem_type_col;
  o_elem_first_col := s_elem_first_col; o_data_first_col := s_data_first_col |}.
Theorem C04_reader_offsets_agree : agree src_offs.
Proof. intros N E DN DE ND NE H1 H2. exact (C04_reader_offsets N E DN DE ND NE H1 H2). Qed.
Theorem C04_translated_reader_is_reader :
  forall (V : Type) (vparse : str -> option V) lines,
    read_ucd_at V vparse element_types src_offs lines = read_ucd V vparse element_types lines.
Proof. intros. apply C04_reader_at_is_reader. exact C04_reader_offsets_agree. Qed.
Theorem C04_ucd_roundtrip_translated_reader :
  forall (V : Type) (vprint : V -> str) (vparse : str -> option V),
    (forall v, vparse (vprint v) = Some v) -> (forall v, tokenb (vprint v) = true) ->
    cfg_ok UcdCfg.cfg = true ->
    forall m : mesh V, wf V element_types m = true ->
      roundtrip_at V vprint vparse element_types src_offs UcdCfg.cfg m = Ok (first_order V element_types m).
Proof. intros. apply C04_ucd_roundtrip_reader_at; auto. exact C04_reader_offsets_agree. Qed.
Goal True. idtac "@@ translated_reader". Abort.
Print Assumptions C04_ucd_roundtrip_translated_reader.
Print Assumptions C04_translated_reader_is_reader.
"""

# per-run obligation: the writer's text format translated from the tree under test (gen/UcdFormat.v, s_*)
# equals the constants Model.write_ucd is shown to use (Format.v, m_*), and the shape theorems restated
# over the translated constants
FORMAT_V = r"""From Coq Require Import String List.
Import ListNotations.
From FV.C04 Require Import Text Model Format.
From FV.C04.gen Require Import UcdCfg UcdFormat.
Theorem C04_writer_format :
  s_sep = m_sep /\ s_csv_header = m_csv_header /\ s_unit_suffix = m_unit_suffix
  /\ s_top_fields = m_top_fields /\ s_na_rep = S "NaN".
Proof. repeat split; reflexivity. Qed.
(* hence: the first line of every file the model writes, in terms of the translated constants *)
Theorem C04_written_first_line :
  forall (V : Type) (vprint : V -> str) (m : mesh V) f,
    write_ucd V vprint element_types UcdCfg.cfg m = Ok f ->
    hd_error f = Some (join s_sep (map (render_top V element_types m) s_top_fields)).
Proof.
  intros V vprint m f H. destruct C04_writer_format as (E1 & _ & _ & E4 & _). rewrite E1, E4.
  exact (write_first_line V vprint element_types UcdCfg.cfg m f H).
Qed.
(* and the shape of a data section *)
Theorem C04_written_data_section :
  forall (V : Type) (vprint : V -> str) by_id ids v vars lines,
    data_block V vprint by_id ids (v :: vars) = Ok lines ->
    exists rows,
      lines = join s_sep (print_nat (length (v :: vars)) :: map (fun x => print_nat (width (snd x))) (v :: vars))
              :: map (fun x : str * table V => (fst x ++ s_unit_suffix)%list) (v :: vars)
              ++ map (fun r : row V => join s_sep (print_Z (fst r) :: map vprint (snd r))) rows.
Proof.
  intros V vprint by_id ids v vars lines H. destruct C04_writer_format as (E1 & _ & E3 & _ & _).
  rewrite E1, E3. exact (data_block_format V vprint by_id ids v vars lines H).
Qed.
(* non-vacuity: a mesh that is written, and its first line *)
From FV.C04 Require Import Corr PropsReader.
Example C04_written_first_line_example :
  exists f, write_ucd str tprint element_types UcdCfg.cfg ex_mesh = Ok f /\ hd_error f = Some (S "2 2 1 1 0").
Proof.
  exists (match write_ucd str tprint element_types UcdCfg.cfg ex_mesh with Ok f => f | Err _ => [] end).
  split; vm_compute; reflexivity.
Qed.
Goal True. idtac "@@ writer_format". Abort.
Print Assumptions C04_writer_format.
Print Assumptions C04_written_first_line.
Print Assumptions C04_written_data_section.
"""

HEADER = ['From Coq Require Import ZArith String List. Import ListNotations.',
          'From FV.C04 Require Import Text Model Corr Props.', 'From FV.C04.gen Require Import UcdCfg.',
          'Definition write_ucd_opt et c m := match write_ucd str tprint et c m with Ok l => Some l | Err _ => None end.',
          'Open Scope string_scope.', 'Set Printing Width 100000.']


def coq_correspondence(ctx, cases, res, tag):
    """model write == file, model read(file) == femio's read-back, and the
    model's own verdict on the property, all evaluated by vm_compute"""
    bad_w, bad_r, model_prop_false = [], [], []
    chunk = 60
    jobs = []
    for k in range(0, len(cases), chunk):
        part = cases[k:k + chunk]
        txt = list(HEADER)
        wl, rl, pl = [], [], []
        for c in part:
            r = res[c['id']]
            if 'build_error' in r or c.get('oracle_only'):
                continue
            m = coq_mesh(c)
            txt.append(f"Definition m{c['id']} : mesh str := {m}.")
            if 'lines' in r:
                if not all(ascii_ok(l) for l in r['lines']):
                    bad_w.append(c['id'])
                    continue
                txt.append(f"Definition f{c['id']} : list str := "
                           f"{lib.coq_list([cS(l) for l in r['lines']])}.")
                wl.append(f"({c['id']}, agree_write element_types cfg m{c['id']} (Some f{c['id']}))")
                if 'read' in r:
                    rl.append(f"({c['id']}, agree_read element_types f{c['id']} (Some {coq_ucd(r['read'])}))")
                else:
                    rl.append(f"({c['id']}, agree_read element_types f{c['id']} None)")
            else:
                wl.append(f"({c['id']}, agree_write element_types cfg m{c['id']} None)")
            pl.append(f"({c['id']}, model_roundtrip_ok element_types cfg m{c['id']})")
            if c.get('corpus_file') == '000_model_witness.json':
                # the replayed witness is the one of C04_ucd_roundtrip_positional_refuted
                wl.append(f"({c['id']}, res_agree (list_eqb str_eqb) "
                          f"(write_ucd str tprint element_types positional Props.witness) "
                          f"(write_ucd_opt element_types positional m{c['id']}))")
        for nm, l in (('W', wl), ('R', rl), ('P', pl)):
            txt.append(f'Definition cases{nm} : list (nat * bool) := {lib.coq_list(l)}.')
            txt.append(f'Goal True. idtac "@@ {nm}". Abort.')
            txt.append(f'Eval vm_compute in map fst (filter (fun c => negb (snd c)) cases{nm}).')
        jobs.append((part, f'Corr_{tag}_{k // chunk}', '\n'.join(txt) + '\n'))
    from concurrent.futures import ThreadPoolExecutor
    with ThreadPoolExecutor(max_workers=6) as ex:
        results = list(ex.map(lambda j: ctx.coq_eval(j[1], j[2], timeout=900), jobs))
    for (part, _, _), (rc, out, err) in zip(jobs, results):
        if rc != 0:
            ctx.log('correspondence file failed to compile:', err[-800:])
            bad_w += [c['id'] for c in part]
            continue
        parts = lib.parse_marked(out)
        for nm, acc in (('W', bad_w), ('R', bad_r), ('P', model_prop_false)):
            t = parts.get(nm, '').split(':')[0]
            acc += [int(x) for x in re.findall(r'\d+', t)]
    return bad_w, bad_r, model_prop_false


def describe(c):
    return {'nodes': len(c['nodes']['ids']), 'types': [b['type'] for b in c['elems']],
            'nodal': [(v['name'], v['kind'], v['width']) for v in c['nodal']],
            'elemental': [(v['name'], v['kind'], v['width'], [b['type'] for b in v['blocks']])
                          for v in c['elemental']], 'stream': c['stream']}


def case_for_replay(c):
    d = {k: c[k] for k in ('nodes', 'elems', 'drop_NODE', 'nodal', 'elemental', 'stream')}
    for k in ('reader', 'overwrite', 'read_twice', 'oracle_only', 'inplace'):
        if k in c:
            d[k] = c[k]
    if c.get('path_key'):
        d['path_key'] = c['path_key']
        if c.get('_prev') is not None:
            # history: the case written to and read from the same path just before, same process
            d['preceded_by'] = c['_prev']
    return d


def check_cases(ctx, cases, etypes, cfg, tag, tie_ok):
    """runs implementation + model on the cases; returns number of unlisted problems"""
    last_shared = {}
    for c in cases:
        if c.get('path_key'):
            prev = last_shared.get(c['path_key'])
            c['_prev'] = {k: v for k, v in case_for_replay(prev).items() if k != 'preceded_by'} if prev else None
            last_shared[c['path_key']] = c
    res = run_impl(ctx, cases)
    # -- property oracle on the implementation (id-keyed, bit exact)
    oracle_bad = {}
    for c in cases:
        r = res[c['id']]
        ctx.count('stream:' + c['stream'])
        ctx.count('history:' + ('same-path-rewrite' if c.get('_prev') else 'fresh-path'))
        ctx.count('reader:' + c.get('reader', 'files'))
        ctx.count('object_history:' + (c.get('inplace') or 'as-constructed'))
        if c.get('stream') == 'dtypes':
            ctx.count('node_dtype:' + c['nodes'].get('dtype', 'float64'))
        ctx.count('n_types:%d' % len(c['elems']))
        ctx.count('n_nodal2d:%d' % (len([v for v in c['nodal'] if v['kind'] == '2d']) + (not c['drop_NODE'])))
        ctx.count('n_elemental2d:%d' % len([v for v in c['elemental'] if v['kind'] == '2d']))
        outcome = 'build_error' if 'build_error' in r else 'write_error' if 'write_error' in r else \
            'read_error' if 'read_error' in r else 'ok'
        ctx.count('impl:' + outcome)
        ctx.case(case_for_replay(c), nontrivial=outcome == 'ok',
                 sample={'case': describe(c), 'impl': outcome,
                         'first_lines': r.get('lines', [])[:3]})
        exp = expected_by_id(c, etypes)
        if exp is None or outcome == 'build_error':
            continue
        if outcome != 'ok':
            oracle_bad[c['id']] = [('raised', outcome, r.get(outcome, ''))]
            continue
        if r.get('second_read_differs'):
            oracle_bad[c['id']] = [('second read of the same file differs from the first',)]
            continue
        # float(repr(x)) == x: the trusted section hypothesis, exercised here
        d = diff_by_id(exp, observed_by_id(r['read']))
        if d:
            oracle_bad[c['id']] = d
    # -- correspondence in Coq
    bad_w = bad_r = model_false = []
    if tie_ok:
        bad_w, bad_r, model_false = coq_correspondence(ctx, cases, res, tag)
    ctx.corr['cases'] = ctx.corr.get('cases', 0) + len(cases)
    ctx.corr['disagreements'] = ctx.corr.get('disagreements', 0) + len(set(bad_w) | set(bad_r))
    by_id = {c['id']: c for c in cases}
    n_unlisted = 0
    for cid in sorted(set(bad_w) | set(bad_r)):
        c = by_id[cid]
        r = res[cid]
        listed = ctx.violation(
            'correspondence', case_for_replay(c),
            'model write_ucd = file written by femio and model read_ucd(file) = femio read-back',
            {'write_disagrees': cid in bad_w, 'read_disagrees': cid in bad_r,
             'impl': {k: r.get(k) for k in ('write_error', 'read_error', 'lines')}},
            'correspondence C04 (Corr.agree_write / Corr.agree_read)', found_input=cid in oracle_bad,
            signature={'kind': 'correspondence', 'write': cid in bad_w, 'read': cid in bad_r,
                       'stream': c['stream'],
                       'history': 'same-path-rewrite' if c.get('_prev') else 'fresh-path'},
            what='implementation and model disagree')
        n_unlisted += 0 if listed else 1
    for cid, d in sorted(oracle_bad.items()):
        c = by_id[cid]
        secs = sorted({x[0] for x in d})
        al = {'nodal': is_aligned(c, etypes, 'nodal'), 'elemental': is_aligned(c, etypes, 'elemental')}
        # narrow signature: which sections differ, whether each of them is one whose variables
        # are stored in another id order than the mesh, and whether the positional-binding
        # model reproduces femio's file and read-back exactly and itself refutes the round trip
        sig = {'site': 'UCDWriter.write', 'sections': '+'.join(secs),
               'nodal_aligned': al['nodal'], 'elemental_aligned': al['elemental'],
               'diff_only_in_misaligned_sections': all(s in al and not al[s] for s in secs),
               'explained_by_model': bool(tie_ok and cid not in bad_w and cid not in bad_r
                                          and cid in model_false),
               'history': 'same-path-rewrite' if c.get('_prev') else 'fresh-path',
               'object_history': c.get('inplace') or 'as-constructed'}
        listed = ctx.violation(
            'impl-violation', case_for_replay(c),
            'every value read back under the id it was written for (bit exact)',
            {'differences (section, variable, id)': d[:8], 'file': res[cid].get('lines', [])[:40]},
            'C04_roundtrip / oracle on implementation', found_input=True, signature=sig,
            what=f'UCD round trip differs in {secs}')
        n_unlisted += 0 if listed else 1
    # the model's verdict must coincide with the oracle's on cases inside the domain
    if tie_ok:
        for cid in sorted(set(model_false) - set(oracle_bad)):
            c = by_id[cid]
            if expected_by_id(c, etypes) is None:
                continue
            if cid in bad_w or cid in bad_r:
                continue
            ctx.violation('correspondence', case_for_replay(c), 'oracle and model verdict coincide',
                          'model says the round trip differs from the specification, oracle does not',
                          'Corr.model_roundtrip_ok', found_input=False,
                          signature={'kind': 'verdict-mismatch'})
            n_unlisted += 1
    ctx.notes['search_evaluations'] = ctx.notes.get('search_evaluations', 0) + len(cases)
    ctx.notes['impl_property_failures'] = ctx.notes.get('impl_property_failures', 0) + len(oracle_bad)
    return n_unlisted


def hypothesis_check(ctx, n):
    """parse (print v) = v on float64, bit exact (the section hypothesis)"""
    bad = 0
    for _ in range(n):
        x = rand_float(ctx.rng)
        t = vprint_py(x)
        y = float(t)
        if hx(x) != hx(y) or not t or any(ch.isspace() for ch in t):
            bad += 1
    for s in SPECIALS:
        x = float(s)
        if hx(float(vprint_py(x))) != hx(x):
            bad += 1
    return bad


def load_corpus():
    d = lib.VERIF / 'corpus' / PID
    out = []
    if d.exists():
        for f in sorted(d.glob('*.json')):
            c = json.loads(f.read_text())
            c['corpus_file'] = f.name
            out.append(c)
    return out


def main(ctx):
    ctx.rule = ('generated meshes: 1-12 nodes (ids 1..n / sparse / up to 2^53 / signed, storage shuffled), '
                '1-4 element blocks of fixed-arity types incl. tet2 with ids interleaved across blocks, '
                '0-3 nodal and 0-3 elemental variables of width 1-9 (2-D, plus 1-D/3-D ones that the writer '
                'must skip), values from specials (NaN, -0.0, denormals, 1e308, inf) and random bit patterns; '
                'streams: aligned (variables stored in mesh id order), permuted (same id set, other order), '
                'malformed (unsupported second-order type, variable not covering the mesh); every third case goes through '
                'one shared path in one process (write A, read, overwrite with B, read: same-process history). '
                'A case is non-trivial when femio wrote and read the file; distinct = distinct full input')
    ctx.trusted += [
        'section hypotheses of C04_* theorems: vparse (vprint v) = Some v and vprint v is a blank-free '
        'non-empty token (Python float repr / float(); pandas to_csv na_rep); checked bit-exactly on the '
        'generated values by harness/c04.py:hypothesis_check and by the byte comparison of the files',
        'translator translate/c04_cfg.py (ELEMENT_TYPES, binding mode of UCDWriter.write; fail-closed)',
        'file layer: f.write of "\\n"-joined lines and pandas.read_csv(sep="@", header=None, dtype=str) '
        'return the same list of lines for lines without @, double quote, and blank lines (modelled as identity)',
        'reader id conversion astype(float).astype(int) is exact for |id| <= 2^53 (wf bound id_ok)',
        'harness glue: Coq literals generated from the JSON case, float <-> token via repr',
        'file layer tie: translate/c04_cfg.py:file_layer accepts only the known bodies of StringSeries.read_file / '
        'read_files (file read on every call, no cache); C04_reader_reads_file',
    ]
    ctx.assumptions += [
        'variable names: printable ASCII without comma, @, double quote, not starting with a blank, not a '
        'femio alias key (config.DICT_ALIASES renames e.g. "disp" on access)',
        'element types of fixed arity (polygon / polyhedron object arrays are outside the model)',
        'NaN payloads are not distinguished (every NaN is written as "NaN")',
        'variables are 2-D float64 arrays; 1-D / 3-D variables are skipped by the writer (modelled by a flag)',
    ]
    load_aliases()
    # 1. translate.  A region the translator cannot read is NOT an alarm by itself (policy round 5):
    #    its committed baseline model (translate/c04_cfg.py:BASELINE = coq/C04/gen_baseline/UcdCfg.v,
    #    the last translation of the registered tree) becomes the hand model of that region, the
    #    theorems are built against it and the correspondence below is widened; only a concrete
    #    disagreement (a failing input) is then a violation.
    tie_ok, cfg, degraded = True, None, []
    try:
        cfg, consumed, degraded = c04_cfg.translate(str(lib.REPO), degrade=True)
        ctx.sources = consumed
        lib.write_if_changed(lib.COQ / 'C04' / 'gen' / 'UcdCfg.v', c04_cfg.emit(cfg))
        base = lib.COQ / 'C04' / 'gen_baseline' / 'UcdCfg.v'
        if degraded and base.read_text() != c04_cfg.emit(c04_cfg.BASELINE):
            raise c04_cfg.TranslateError('committed baseline model differs from translate/c04_cfg.py:BASELINE')
    except (c04_cfg.TranslateError, SyntaxError, OSError, AssertionError) as e:
        tie_ok = False
        ctx.log('translator failed closed:', e)
        ctx.notes['translator_error'] = str(e)
    # 1b. the reader's offsets (translate/c04_offsets.py): same policy
    OFF_REGION = 'femio/formats/ucd/ucd.py:UCDData.read_* line and column arithmetic'
    try:
        off = None
        off, sha = c04_offsets.translate(str(lib.REPO))
        ctx.sources[OFF_REGION] = sha
        off_text = c04_offsets.emit(off)
    except (c04_offsets.TranslateError, SyntaxError, OSError, RecursionError) as e:
        degraded.append((OFF_REGION, f'{type(e).__name__}: {e}'))
        off_text = (lib.COQ / 'C04' / 'gen_baseline' / 'UcdOffsets.v').read_text()
    lib.write_if_changed(lib.COQ / 'C04' / 'gen' / 'UcdOffsets.v', off_text)
    for reg, why in degraded:
        ctx.log(f'translator could not read {reg}: {why} -> baseline model + widened correspondence')
    ctx.notes['translator_degraded'] = [{'region': r, 'reason': w} for r, w in degraded]
    etypes = cfg['element_types'] if cfg else list(ARITY) + list(SECOND_ORDER_UNSUPPORTED)
    # 2. proofs
    proof_ok = False
    if tie_ok:
        proof_ok, log = ctx.build_props('C04/Props.v', extra_targets=['C04/Corr.vo'])
        if not proof_ok:
            ctx.notes['build_log_tail'] = log[-1500:]
        else:
            # second props file: the reader parametrised by its offsets (ReadParam.v)
            proof_ok, log = ctx.build_props('C04/PropsReader.v')
            if not proof_ok:
                ctx.notes['build_log_tail'] = log[-1500:]
    else:
        for n in lib.theorem_names(lib.COQ / 'C04' / 'Props.v'):
            ctx.obligations.append({'name': n, 'discharged': False, 'assumptions': [],
                                    'note': 'translator failed closed'})
    if tie_ok and proof_ok and ctx.tier == 'thorough' and hasattr(ctx, 'coqchk'):
        ctx.coqchk('C04/Props.v')
    ctx.notes['writer_binding'] = {k: cfg[k] for k in ('nodal_by_id', 'elemental_by_id')} if cfg else None
    # 2b. per-run obligation: the translated writer binds rows by id; with it the
    #     unconditional round-trip theorem is obtained
    cfg_is_ok = False
    if tie_ok and proof_ok:
        rc, out, err = ctx.coq_eval('CfgOk', CFG_OK_V)
        cfg_is_ok = rc == 0
        ax = [] if 'Closed under the global context' in out else re.findall(r'^([A-Za-z0-9_.\']+)\s*:', out, flags=re.M)
        note = '' if cfg_is_ok else ('cfg_ok cfg = false: UCDWriter.write binds data rows by position '
                                     '(see C04_ucd_roundtrip_positional_refuted and the replayed witness)')
        for nm in ('C04_cfg_ok', 'C04_ucd_roundtrip_unconditional'):
            ctx.obligations.append({'name': nm, 'discharged': cfg_is_ok, 'assumptions': ax, 'note': note})
    ctx.notes['cfg_ok'] = cfg_is_ok
    # 2e. per-run obligation: translated writer format = the model's (additive, round 6).  Not part of the
    #     alarm policy: the format is pinned byte for byte by every correspondence case; an unread region or
    #     a failed obligation is recorded in the evidence, the failing input comes from the correspondence.
    FMT_REGION = 'femio/formats/ucd/write_ucd.py:UCDWriter text format (to_csv arguments, first line, unit suffix)'
    try:
        fmt, sha = c04_format.translate(str(lib.REPO))
        ctx.sources[FMT_REGION] = sha
        fmt_err = None
    except (c04_format.TranslateError, SyntaxError, OSError, RecursionError) as e:
        fmt, fmt_err = c04_format.BASELINE, f'{type(e).__name__}: {e}'
    try:
        fmt_text = c04_format.emit(fmt)
    except c04_format.TranslateError as e:
        fmt_text, fmt_err = c04_format.emit(c04_format.BASELINE), f'{type(e).__name__}: {e}'
    lib.write_if_changed(lib.COQ / 'C04' / 'gen' / 'UcdFormat.v', fmt_text)
    ctx.notes['writer_format'] = {'translated': fmt_err is None, 'reason': fmt_err,
                                  'value': {k: v for k, v in fmt.items()}}
    if tie_ok and proof_ok:
        fmt_ok, axf, notef = False, [], f'format region not read ({fmt_err}); tie of this region: H (byte comparison)'
        if fmt_err is None:
            ok, log, _ = lib.coq_make(['C04/gen/UcdFormat.vo', 'C04/Format.vo'])
            rcf, outf, errf = ctx.coq_eval('WriterFormat', FORMAT_V) if ok else (1, '', log)
            fmt_ok = rcf == 0
            tf = lib.parse_marked(outf).get('writer_format', '')
            axf = [] if tf.count('Closed under the global context') == 3 else \
                re.findall(r'^([A-Za-z0-9_.\']+)\s*:', tf, flags=re.M)
            notef = '' if fmt_ok else ('translated format constants differ from the model\'s: ' + errf[-300:])
        for nm in ('C04_writer_format', 'C04_written_first_line', 'C04_written_data_section'):
            ctx.obligations.append({'name': nm, 'discharged': fmt_ok, 'assumptions': axf, 'note': notef})
    # 2c. per-run obligation: translated reader offsets = the positions the model reads at
    offsets_ok, offsets_reachable_diff = None, False
    if tie_ok and proof_ok:
        ok, log, _ = lib.coq_make(['C04/gen/UcdOffsets.vo', 'C04/Offsets.vo', 'C04/PropsReader.vo'])
        rc, out, err = ctx.coq_eval('ReaderOffsets', OFFSETS_V) if ok else (1, '', log)
        offsets_ok = rc == 0
        ax = [] if 'Closed under the global context' in out else re.findall(r'^([A-Za-z0-9_.\']+)\s*:', out, flags=re.M)
        note, offsets_reachable_diff = '', False
        if not offsets_ok:
            # which header counts?  Only counts a WRITTEN file can have matter to the round trip; a
            # difference on other counts (inconsistent files) is recorded, not alarmed
            diffs = c04_offsets.differences(off) if off else []
            offsets_reachable_diff = any(r for _, _, r in diffs) or not diffs
            ctx.notes['reader_offsets_differences'] = [
                {'quantity': k, 'counts': c, 'file_can_be_written': r} for k, c, r in diffs[:12]]
            note = ('the offsets translated from ucd.py differ from the model\'s for some header counts '
                    '(gen/UcdOffsets.v vs Offsets.v); on counts a written file can have: %s; %s'
                    % (offsets_reachable_diff, err[-300:]))
            degraded.append((OFF_REGION, 'obligation C04_reader_offsets does not hold: the model\'s hand-written '
                                         'positions (Offsets.v) stay the model of this region'))
            ctx.log('C04_reader_offsets not provable ->', 'differences on writable counts' if offsets_reachable_diff
                    else 'differences only on header counts no written file has', '-> widened correspondence')
        ctx.obligations.append({'name': 'C04_reader_offsets', 'discharged': offsets_ok, 'assumptions': ax,
                                'note': note})
        # 2d. with it: ReadParam.read_ucd_at <translated offsets> = Model.read_ucd on every file, and the
        #     round trip for the reader that uses the translated offsets
        tr_ok, ax2, note2 = False, [], 'not attempted: C04_reader_offsets does not hold'
        if offsets_ok:
            rc2, out2, err2 = ctx.coq_eval('TranslatedReader', TRANSLATED_READER_V)
            tr_ok = rc2 == 0
            t2 = lib.parse_marked(out2).get('translated_reader', '')
            ax2 = [] if t2.count('Closed under the global context') == 2 else \
                re.findall(r'^([A-Za-z0-9_.\']+)\s*:', t2, flags=re.M)
            note2 = '' if tr_ok else err2[-300:]
        for nm in ('C04_reader_offsets_agree', 'C04_translated_reader_is_reader',
                   'C04_ucd_roundtrip_translated_reader'):
            ctx.obligations.append({'name': nm, 'discharged': tr_ok, 'assumptions': ax2, 'note': note2})
        ctx.notes['translator_degraded'] = [{'region': r, 'reason': w} for r, w in degraded]
        ctx.notes['reader_offsets'] = off_text.split('From Coq Require Import Arith.')[-1].strip().splitlines()
    # 3. hypothesis exercised
    hb = hypothesis_check(ctx, 20000 if ctx.tier == 'quick' else 400000)
    ctx.notes['repr_roundtrip_failures'] = hb
    if hb:
        ctx.violation('impl-violation', {'what': 'float(repr(x)) != x'}, 'bit exact', f'{hb} failures',
                      'section hypothesis vparse_vprint', found_input=True,
                      signature={'kind': 'repr-roundtrip'})
    # 4. corpus, then generated streams
    n_unlisted = 0
    corpus = load_corpus()
    cid = 0
    cases = []
    for c in corpus:
        c['id'] = cid
        cid += 1
        cases.append(c)
    n = {'quick': (150, 40, 20), 'thorough': (3500, 1000, 500)}[ctx.tier]
    n_dtype = {'quick': 12, 'thorough': 300}[ctx.tier]
    inplace_p = 0.45
    if degraded and ctx.tier == 'quick':
        # widened correspondence: everything the unread region decides is exercised much more densely --
        # id arrangements of every variable against the mesh (binding mode), mixed element types
        # (ELEMENT_TYPES order), object histories (in-place edits, rewrite of one path: file layer)
        n, n_dtype, inplace_p = (200, 220, 30), 30, 0.6
    for stream, k in zip(('aligned', 'permuted', 'malformed'), n):
        for _ in range(k):
            cases.append(gen_case(ctx.rng, cid, stream, inplace_p))
            cid += 1
    # dtype stream (oracle only)
    for _ in range(n_dtype):
        cases.append(gen_dtype_case(ctx.rng, cid, inplace_p))
        cid += 1
    gen = cases[len(corpus):]
    ctx.rng.shuffle(gen)
    cases = cases[:len(corpus)] + gen
    for i, c in enumerate(cases):
        c['id'] = i
        # same-process history stream: every third case (every second one when a region is unread) is
        # written to and read from one shared path (write A, read, overwrite with B, read, ...); each
        # read is compared with what was written last.  Malformed cases too: a failed write must not
        # leak into the next read
        if i % (2 if degraded else 3) == 0:
            c['path_key'] = 'h'
    if tie_ok:
        ok, log, _ = lib.coq_make(['C04/Corr.vo', 'C04/gen/UcdCfg.vo'])
        if not ok:
            ctx.log('model does not build:', log[-500:])
            tie_ok_model = False
        else:
            tie_ok_model = True
    else:
        tie_ok_model = False
    step = 600
    for k in range(0, len(cases), step):
        n_unlisted += check_cases(ctx, cases[k:k + step], etypes, cfg, f'g{k // step}', tie_ok_model)
    # 5. proof / tie broken without a failing input
    found_any = bool(ctx.violations) or bool(ctx.known)
    n_corr = ctx.corr.get('cases', 0)
    if degraded and tie_ok:
        ctx.notes['tie'] = '; '.join(
            f'H (translator could not read {r}: {w}; baseline model + widened correspondence, {n_corr} cases)'
            for r, w in degraded)
        for o in ctx.obligations:
            o['note'] = (o.get('note', '') + ' [checked against the committed baseline model of: '
                         + ', '.join(r for r, _ in degraded) + ']').strip()
    else:
        ctx.notes['tie'] = 'T (all regions translated) + H (correspondence, %d cases)' % n_corr
    if not tie_ok:
        ctx.violation('tie-broken', {'translator_error': ctx.notes.get('translator_error')},
                      'translator accepts UCDWriter.write / ELEMENT_TYPES or the baseline model is usable',
                      'neither', 'translator c04_cfg', found_input=False, signature={'kind': 'tie-broken'})
    elif not tie_ok_model:
        ctx.violation('tie-broken', {'what': 'the model (Corr.v + gen/UcdCfg.v) does not build'},
                      'model builds', 'does not build', 'C04/Corr.vo', found_input=False,
                      signature={'kind': 'tie-broken', 'model': 'does not build'})
    elif not proof_ok or (offsets_ok is False and offsets_reachable_diff):
        bad = [o['name'] for o in ctx.obligations if not o['discharged']]
        ctx.violation('proof-broken', {'undischarged': bad, 'failing_input_reported_separately': found_any},
                      'all theorems of C04/Props.v check', 'do not check', ', '.join(bad),
                      found_input=False, signature={'kind': 'proof-broken', 'theorems': ','.join(bad)})
    return ctx.finish()


def replay(path):
    rp = json.loads(Path(path).read_text())
    c = rp['case']
    if 'nodes' not in c:
        print('nothing to replay on the implementation:', json.dumps(rp, indent=1)[:2000])
        return 1
    try:
        ctx = lib.Ctx(PID, 'quick', clear_replays=False)
    except TypeError:
        ctx = lib.Ctx(PID, 'quick')
    load_aliases()
    c = dict(c)
    c['id'] = 0
    cfg, _, dg = c04_cfg.translate(str(lib.REPO), degrade=True)
    for reg, why in dg:
        print(f'translator could not read {reg}: {why}; baseline model used')
    etypes = cfg['element_types']
    if c.get('preceded_by'):
        prev = dict(c['preceded_by'])
        prev['id'] = 0
        prev['path_key'] = c['path_key']
        c['id'] = 1
        print('history: first the preceding case is written to and read from the same path')
        r = run_impl(ctx, [prev, c])[1]
    else:
        r = run_impl(ctx, [c])[0]
    print('implementation:', json.dumps({k: r.get(k) for k in ('build_error', 'write_error', 'read_error',
                                                               'lines', 'read')}, indent=1)[:6000])
    exp = expected_by_id(c, etypes)
    bad = None
    if exp is not None and 'read' in r:
        bad = diff_by_id(exp, observed_by_id(r['read']))
        print('differences (section, variable, id):', bad)
    elif exp is not None:
        bad = ['raised']
    if 'nodal_by_id' in cfg:
        lib.write_if_changed(lib.COQ / 'C04' / 'gen' / 'UcdCfg.v', c04_cfg.emit(cfg))
        ok, log, _ = lib.coq_make(['C04/Corr.vo', 'C04/gen/UcdCfg.vo'])
        if ok:
            bw, br, mf = coq_correspondence(ctx, [c], {c['id']: r}, 'replay')
            print('model: write agrees with file:', c['id'] not in bw, '| read agrees:', c['id'] not in br,
                  '| model round trip = specification:', c['id'] not in mf)
    print('property', 'VIOLATED' if bad else 'holds', 'on this input')
    return 1 if bad else 0


if __name__ == '__main__':
    if len(sys.argv) > 2 and sys.argv[1] == 'replay':
        sys.exit(replay(sys.argv[2]))
    tier = sys.argv[1] if len(sys.argv) > 1 else 'quick'
    sys.exit(main(lib.Ctx(PID, tier)))
