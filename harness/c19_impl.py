"""C19 child process: runs histories (new / query / effect / derive) on live
femio FEMData objects and, for every query, compares the value with the same
query on a freshly built equal mesh (raw arrays deep-copied, so no lru entry,
no in-mesh slot, no shared table); snapshots nodes / elements / user variables
around queries and writers; compares every in-place modifier with the same
modifier applied to a fresh copy.  Spec on stdin (JSON), result in spec['out'].
"""
import hashlib
import io
import json
import os
import sys
import traceback
import contextlib
from pathlib import Path

import numpy as np
import scipy.sparse as sp

import femio
from femio.fem_attribute import FEMAttribute
from femio.fem_attributes import FEMAttributes
from femio.fem_elemental_attribute import FEMElementalAttribute


def h(b):
    return hashlib.sha256(b).hexdigest()[:20]


def canon(v, depth=0):
    """canonical, exactly comparable form of a query result"""
    if depth > 6:
        return ['deep']
    if v is None or isinstance(v, (bool, int, str)):
        return ['lit', repr(v)]
    if isinstance(v, float):
        return ['float', v.hex()]
    if isinstance(v, np.generic):
        return ['np', str(v.dtype), repr(v.item())]
    if isinstance(v, np.ndarray):
        if v.dtype == object:
            return ['objarr', list(v.shape), [canon(x, depth + 1) for x in v.ravel().tolist()]] \
                if v.size <= 5000 else ['objarr-big', list(v.shape)]
        # values are compared exactly after widening (float32 -> float64, intN -> int64 lose
        # nothing): the precision a path happens to return is not part of the value
        if v.dtype.kind == 'f':
            v = v.astype(np.float64)
        elif v.dtype.kind in 'iu':
            v = v.astype(np.int64)
        a = np.ascontiguousarray(v)
        return ['arr', list(a.shape), str(a.dtype), h(a.tobytes())]
    if sp.issparse(v):
        c = sp.coo_matrix(v)
        c.sum_duplicates()
        order = np.lexsort((c.col, c.row))
        dat = c.data[order]
        if dat.dtype.kind == 'f':
            dat = dat.astype(np.float64)
        elif dat.dtype.kind in 'iu':
            dat = dat.astype(np.int64)
        return ['sparse', list(c.shape), str(dat.dtype),
                h(np.ascontiguousarray(c.row[order]).astype(np.int64).tobytes()
                  + np.ascontiguousarray(c.col[order]).astype(np.int64).tobytes()
                  + np.ascontiguousarray(dat).tobytes())]
    if isinstance(v, (list, tuple)):
        return ['seq', [canon(x, depth + 1) for x in v]]
    if isinstance(v, dict):
        return ['dict', [[str(k), canon(x, depth + 1)] for k, x in sorted(v.items(), key=lambda kv: str(kv[0]))]]
    if isinstance(v, femio.FEMData):
        return ['femdata', snapshot(v, None)]
    if isinstance(v, (FEMAttribute,)):
        return ['attr', canon(np.asarray(v.ids), depth + 1), canon(v.data, depth + 1)]
    return ['other', type(v).__name__]


def brief(v):
    try:
        if isinstance(v, np.ndarray) and v.dtype != object:
            return {'shape': list(v.shape), 'head': np.ravel(v)[:6].tolist()}
        if sp.issparse(v):
            return {'sparse_shape': list(v.shape), 'nnz': int(v.nnz)}
        if isinstance(v, (list, tuple)):
            return [brief(x) for x in v[:3]]
        return repr(v)[:120]
    except Exception:
        return type(v).__name__


def attr_snap(a):
    return [canon(np.asarray(a.ids)), canon(a.data)]


def snapshot(fd, user):
    """node ids, coordinates, element ids / connectivity per type, user variables"""
    s = {'nodes': attr_snap(fd.nodes)}
    el = {}
    for t, e in fd.elements.items():
        el[t] = attr_snap(e)
    s['elements'] = el
    s['element_ids'] = canon(np.asarray(fd.elements.ids))
    if user is not None:
        for tab, names in (('nodal_data', user.get('nodal', [])), ('elemental_data', user.get('elemental', []))):
            T = getattr(fd, tab)
            for nm in names:
                if nm in T:
                    a = T[nm]
                    if isinstance(a, FEMElementalAttribute) or isinstance(a, dict) and not isinstance(a, FEMAttribute):
                        s[f'{tab}:{nm}'] = [[t, attr_snap(x)] for t, x in a.items()]
                    else:
                        s[f'{tab}:{nm}'] = attr_snap(a)
                else:
                    s[f'{tab}:{nm}'] = 'absent'
    return s


def build(mesh):
    """FEMData from a raw spec {nodes:{ids,xyz}, elements:{type:{ids,conn}}, nodal:{}, elemental:{}, faces?}"""
    nodes = FEMAttribute('NODE', np.array(mesh['nodes']['ids'], dtype=int),
                         np.array(mesh['nodes']['xyz'], dtype=float))
    blocks = {}
    for t, b in mesh['elements'].items():
        if t == 'polyhedron':
            conn = np.empty(len(b['conn']), object)
            conn[:] = [np.array(c, dtype=int) for c in b['conn']]
        else:
            conn = np.array(b['conn'], dtype=int)
        blocks[t] = FEMAttribute(t, np.array(b['ids'], dtype=int), conn)
    elements = FEMElementalAttribute('ELEMENT', blocks)
    fd = femio.FEMData(nodes=nodes, elements=elements)
    for nm, val in mesh.get('nodal', {}).items():
        arr = np.array(val, dtype=float)
        fd.nodal_data.update({nm: FEMAttribute(nm, np.array(mesh['nodes']['ids'], dtype=int), arr,
                                                time_series=(arr.ndim == 3))})
    for nm, spec in mesh.get('nodal_partial', {}).items():
        fd.nodal_data.update({nm: FEMAttribute(nm, np.array(spec['ids'], dtype=int),
                                                np.array(spec['values'], dtype=float))})
    for nm, val in mesh.get('elemental', {}).items():
        fd.elemental_data.update_data(np.array(fd.elements.ids).copy(), {nm: np.array(val, dtype=float)})
    return fd


def fresh_copy(fd, user):
    """a freshly built mesh equal to fd's current mesh (shares nothing with fd)"""
    nodes = FEMAttribute('NODE', np.array(fd.nodes.ids).copy(), np.array(fd.nodes.data).copy())
    blocks = {}
    for t, e in fd.elements.items():
        d = e.data
        if d.dtype == object:
            c = np.empty(len(d), object)
            c[:] = [np.array(x).copy() for x in d]
        else:
            c = np.array(d).copy()
        blocks[t] = FEMAttribute(t, np.array(e.ids).copy(), c)
    elements = FEMElementalAttribute('ELEMENT', blocks)
    new = femio.FEMData(nodes=nodes, elements=elements)
    for nm in user.get('nodal', []):
        if nm in fd.nodal_data:
            a = fd.nodal_data[nm]
            new.nodal_data.update({nm: FEMAttribute(nm, np.array(a.ids).copy(), np.array(a.data).copy(),
                                                     time_series=bool(getattr(a, 'time_series', False)))})
    for nm in user.get('elemental', []):
        if nm in fd.elemental_data:
            dat = np.array(fd.elemental_data.get_attribute_data(nm)).copy()
            if len(dat) == len(fd.elements.ids):
                new.elemental_data.update_data(np.array(fd.elements.ids).copy(), {nm: dat})
    if 'polyhedron' in blocks and 'face' in fd.elemental_data:
        # the face lists are part of a polyhedral mesh
        src = fd.elemental_data['face']['polyhedron']
        fdat = np.empty(len(src.data), object)
        fdat[:] = [np.array(x).copy() for x in src.data]
        face = FEMElementalAttribute('face', {'polyhedron': FEMAttribute(
            'face', ids=np.array(src.ids).copy(), data=fdat)})
        new.elemental_data.update({'face': face})
    return new


def resolve(fd, v):
    """{'$nodal': name} / {'$elemental': name}: the current array of that user variable"""
    if isinstance(v, dict) and len(v) == 1:
        (k, nm), = v.items()
        if k == '$nodal':
            return np.array(fd.nodal_data.get_attribute_data(nm)).copy()
        if k == '$elemental':
            return np.array(fd.elemental_data.get_attribute_data(nm)).copy()
        if k == '$block':
            return fd.elements[nm]          # one type block of the mesh's own elements
    return v


def call(fd, q, kwargs):
    try:
        with contextlib.redirect_stdout(io.StringIO()):
            v = getattr(fd, q)(**{k: resolve(fd, x) for k, x in kwargs.items()})
        return ['ok', canon(v)], brief(v)
    except BaseException as e:        # noqa
        if isinstance(e, (KeyboardInterrupt, SystemExit, MemoryError)):
            raise
        return ['raise', type(e).__name__], str(e)[:160]


def apply_effect(fd, e, args, workdir, tag):
    with contextlib.redirect_stdout(io.StringIO()):
        if e == 'assign_connectivity':
            d = np.array(fd.elements.data).copy()
            kind = args.get('kind', 'roll')
            if kind == 'roll':
                d = np.roll(d, 1, axis=0)
            elif kind == 'swap01':
                d[:, [0, 1]] = d[:, [1, 0]]
            elif kind == 'swap_first':
                d[0, [0, 1]] = d[0, [1, 0]]
            elif kind in ('same_array', 'same_array_rows'):
                # the edit idiom: take the array the mesh holds, change it, assign it back
                d = fd.elements.data
                if kind == 'same_array_rows' and len(d) > 1:
                    d[[0, -1]] = d[[-1, 0]]
                else:
                    d[0, [0, 1]] = d[0, [1, 0]]
            fd.elements.data = d
        elif e == 'assign_nodes':
            kind = args.get('kind', 'new')
            if kind == 'new':
                fd.nodes.data = np.array(fd.nodes.data) * 2. + 1.
            elif kind == 'same_array':
                d = fd.nodes.data
                d[:, 0] = d[:, 0] * 2. + 1.
                fd.nodes.data = d
            else:                           # in place, nothing assigned
                fd.nodes.data[:, 0] = fd.nodes.data[:, 0] * 2. + 1.
        elif e == 'reindex_nodes':
            kind = args.get('kind', 'ids_roll')
            ids = np.array(fd.nodes.ids).copy()
            xyz = np.array(fd.nodes.data).copy()
            if kind == 'ids_roll':
                # re-label: every node id now names the next row (the id set stays the same)
                fd.nodes.ids = np.roll(ids, 1)
            elif kind == 'ids_reverse':
                fd.nodes.ids = ids[::-1].copy()
            elif kind == 'update_overwrite':
                # replace the coordinates of two existing nodes (the table is rebuilt, sorted by id)
                k = [0, len(ids) - 1]
                fd.nodes.update(ids[k], xyz[k] * 2. + 1., allow_overwrite=True)
            else:                           # 'update_add': one more (unreferenced) node
                fd.nodes.update([int(ids.max()) + 5], np.array([[9., 8., 7.]]), allow_overwrite=True)
        elif e == 'edit_user_variable':
            a = fd.nodal_data['u']
            if args.get('kind') == 'assign':
                a.data = np.array(a.data) + 1.
            else:
                a.data[0] = a.data[0] + 1.
        elif e.startswith('write_'):
            fmt = e[len('write_'):]
            p = Path(workdir) / f'{tag}' / 'out'
            p.parent.mkdir(parents=True, exist_ok=True)
            fd.write(fmt, str(p), overwrite=True)
        elif e in ('rotation', 'translation'):
            if args.get('reset'):
                # femio moves the nodes only of a mesh without variables (as its own tests do)
                fd.nodal_data.reset()
                fd.elemental_data.reset()
            try:
                if e == 'rotation':
                    fd.rotation(*args.get('v', [0., 0., 1., 0.5]))
                else:
                    fd.translation(*args.get('v', [1., 2., 3.]))
            finally:
                if args.get('reset'):
                    fd.nodal_data['NODE'] = fd.nodes     # as FEMData.__init__ does
        else:
            getattr(fd, e)(**args.get('kwargs', {}))


def clear_all_caches():
    for nm in dir(femio.FEMData):
        f = getattr(femio.FEMData, nm, None)
        if hasattr(f, 'cache_clear'):
            f.cache_clear()


def run_history(hist, workdir, hid):
    """phase 1: the history on the live objects (nothing else touches the
    process-wide caches); the raw arrays of the object are copied before each
    query / effect.  phase 2 (after the history, caches cleared): the same
    query / effect on a mesh freshly built from those raw arrays."""
    clear_all_caches()
    live = {}
    users = {}
    out = []
    todo = []
    for i, op in enumerate(hist):
        k = op['op']
        rec = {'i': i, 'op': k}
        try:
            if k == 'new':
                live[op['o']] = build(op['mesh'])
                users[op['o']] = {'nodal': list(op['mesh'].get('nodal', {})) + list(op['mesh'].get('nodal_partial', {})),
                                  'elemental': list(op['mesh'].get('elemental', {}))}
            elif k == 'query':
                fd = live.get(op['o'])
                if fd is None:
                    rec['skipped'] = 'no object'
                    out.append(rec)
                    continue
                before = {o: snapshot(x, users[o]) for o, x in live.items()}
                raw = fresh_copy(fd, users[op['o']])      # built now, queried in phase 2
                obs, obs_b = call(fd, op['q'], op.get('kwargs', {}))
                after = {o: snapshot(x, users[o]) for o, x in live.items()}
                rec.update({'q': op['q'], 'outcome': obs[0],
                            'raised': obs[1] if obs[0] == 'raise' else None})
                # FEMData.__init__ binds nodal_data['NODE'] to the node table itself
                rec['node_detached'] = bool('NODE' in fd.nodal_data and fd.nodal_data['NODE'] is not fd.nodes)
                todo.append(('query', rec, raw, op, obs, obs_b))
                rec['changed'] = [f'{o}:{key}' for o in before for key in before[o]
                                  if before[o][key] != after[o].get(key)]
            elif k == 'effect':
                fd = live.get(op['o'])
                if fd is None:
                    rec['skipped'] = 'no object'
                    out.append(rec)
                    continue
                e = op['e']
                before = {o: snapshot(x, users[o]) for o, x in live.items()}
                raw = fresh_copy(fd, users[op['o']])
                r2 = None
                try:
                    apply_effect(fd, e, op.get('args', {}), workdir, f'h{hid}_{i}')
                except Exception as ex:
                    r2 = type(ex).__name__
                after = {o: snapshot(x, users[o]) for o, x in live.items()}
                rec.update({'e': e, 'raised': r2})
                ch = [f'{o}:{key}' for o in before for key in before[o] if before[o][key] != after[o].get(key)]
                rec['changed'] = ch
                rec['changed_other'] = [c for c in ch if not c.startswith(f"{op['o']}:")]
                todo.append(('effect', rec, raw, op, (r2, after[op['o']]), users[op['o']]))
            elif k == 'derive':
                fd = live.get(op['o'])
                if fd is None or op['o2'] in live:
                    rec['skipped'] = 'no object'
                    out.append(rec)
                    continue
                before = {o: snapshot(x, users[o]) for o, x in live.items()}
                raw = fresh_copy(fd, users[op['o']])
                child = None
                try:
                    with contextlib.redirect_stdout(io.StringIO()):
                        child = getattr(fd, op['d'])(**op.get('kwargs', {}))
                    obs = ['ok', snapshot(child, users[op['o']])]
                except Exception as ex:
                    obs = ['raise', type(ex).__name__]
                    rec['raised'] = type(ex).__name__ + ': ' + str(ex)[:120]
                after = {o: snapshot(x, users[o]) for o, x in live.items()}
                rec['d'] = op['d']
                rec['changed'] = [f'{o}:{key}' for o in before for key in before[o]
                                  if before[o][key] != after[o].get(key)]
                todo.append(('derive', rec, raw, op, obs, users[op['o']]))
                if child is fd:
                    rec['same_object'] = True
                elif child is not None:
                    live[op['o2']] = child
                    # a derived object carries (a restriction of) its parent's user variables
                    users[op['o2']] = {'nodal': list(users[op['o']]['nodal']),
                                       'elemental': list(users[op['o']]['elemental'])}
        except Exception as ex:
            rec['error'] = type(ex).__name__ + ': ' + str(ex)[:200]
            rec['trace'] = traceback.format_exc()[-600:]
        out.append(rec)
    # ---- phase 2: references (one evaluation per (object, call) while no effect intervened)
    epoch = {}
    memo = {}
    for item in todo:
        clear_all_caches()
        kind, rec, raw, op = item[0], item[1], item[2], item[3]
        try:
            if kind != 'query':
                epoch[op['o']] = epoch.get(op['o'], 0) + 1
            if kind == 'query':
                obs, obs_b = item[4], item[5]
                mkey = (op['o'], epoch.get(op['o'], 0), op['q'], json.dumps(op.get('kwargs', {}), sort_keys=True))
                if mkey not in memo:
                    memo[mkey] = call(raw, op['q'], op.get('kwargs', {}))
                exp, exp_b = memo[mkey]
                rec['equal'] = exp == obs
                if exp != obs:
                    rec['expected'] = {'canon': exp if exp[0] == 'raise' else exp[1][:4], 'brief': exp_b}
                    rec['observed'] = {'canon': obs if obs[0] == 'raise' else obs[1][:4], 'brief': obs_b}
            elif kind == 'derive':
                obs, user = item[4], item[5]
                try:
                    with contextlib.redirect_stdout(io.StringIO()):
                        c2 = getattr(raw, op['d'])(**op.get('kwargs', {}))
                    exp = ['ok', snapshot(c2, user)]
                except Exception as ex:
                    exp = ['raise', type(ex).__name__]
                rec['equal'] = exp == obs
                if exp != obs:
                    rec['expected'] = {'canon': exp if exp[0] == 'raise' else 'mesh', 'brief': ''}
                    rec['observed'] = {'canon': obs if obs[0] == 'raise' else 'mesh', 'brief': rec.get('raised', '')}
            else:
                (r2, after_o), user = item[4], item[5]
                r1 = None
                try:
                    apply_effect(raw, op['e'], op.get('args', {}), workdir, f'h{hid}_{rec["i"]}_ref')
                except Exception as ex:
                    r1 = type(ex).__name__
                rec['ref_raised'] = r1
                rec['effect_equal'] = (r1 == r2) and snapshot(raw, user) == after_o
        except Exception as ex:
            rec['error'] = type(ex).__name__ + ': ' + str(ex)[:200]
    clear_all_caches()
    return out


def main():
    spec = json.loads(sys.stdin.read())
    work = spec['work']
    res = []
    for hid, hist in enumerate(spec['histories']):
        try:
            res.append({'id': hid, 'ops': run_history(hist, work, hid)})
        except Exception as ex:
            res.append({'id': hid, 'fatal': type(ex).__name__ + ': ' + str(ex)[:300],
                        'trace': traceback.format_exc()[-800:]})
    Path(spec['out']).write_text(json.dumps(res))


if __name__ == '__main__':
    main()
