import json, sys
sys.path.insert(0,'/verif/harness'); sys.path.insert(0,'/verif/translate')
import lib, c19, c19_caches
cfg,_=c19_caches.translate(str(lib.REPO))
cfgq={q['name']:q for q in cfg['queries']}
memo_pin, slot_pin = c19.pins(cfgq)
memo=sorted(q for q,c in cfgq.items() if c['lru'] is not None)
out=[]
def fixed(match, commit, what):
    out.append({'property':'C19','status':'fixed','commit':commit,'site':'see commit','match':match,
                'what':f'fixed: property=C19 {commit} {what}'})
def opn(match, site, what):
    out.append({'property':'C19','status':'open','site':site,'match':match,'what':'open: '+what})
for q in ('calculate_all_element_normals','calculate_surface_normals','extract_surface'):
    fixed({'effect':'make_elements_positive','kind':'stale-lru','query':q},'7351b2a',
          f'{q}(); make_elements_positive(); {q}() returned the value memoised for the inverted elements')
for q in ('calculate_element_metrics','calculate_element_volumes'):
    fixed({'effect':'make_elements_positive','kind':'stale-slot','query':q},'7351b2a',
          f'make_elements_positive() left the negative metric/volume slot in place: {q}() afterwards raised / returned the old values')
fixed({'after':'E:make_elements_positive','effect':'make_elements_positive','kind':'modifier-differs'},'7351b2a',
      'a second make_elements_positive() read the stale negative metric slot and re-inverted the repaired elements')
for q,on in (('calculate_element_metrics','child'),('calculate_element_volumes','child'),('calculate_element_volumes','parent')):
    fixed({'deriv':'to_polyhedron','kind':'share','on':on,'query':q},'527a75e',
          f'to_polyhedron() shared the elemental_data object: {q}() on the {on} returned the slot value computed for the other object')
# ---- open: one entry per root cause, pinned to the memo inventory it was triaged with
for e,site in (('remove_useless_nodes','femio/fem_data.py remove_useless_nodes: replaces self.nodes / nodal_data, clears no cache'),
               ('rotation','femio/geometry_processor.py rotation (after nodal_data.reset(), as in tests/test_geometry_processor.py): moves the nodes in place, clears no cache, and bypasses the FEMAttribute data setter so the attribute keeps its old data frame'),
               ('translation','femio/geometry_processor.py translation: same as rotation'),
               ('assign_connectivity','femio/fem_elemental_attribute.py data setter (fem_data.elements.data = v): FEMData caches unreachable from there')):
    opn({'kind':'stale-lru','effect':e,'memo_inventory':memo_pin}, site + '; functools.lru_cache on bound methods: ' + ', '.join(memo),
        f"q(); {e}; q() returns the value memoised before the in-place modification for the lru-cached queries that depend on what it changes (the replay of each run names the query; pinned to the present set of {len(memo)} memoised methods - a newly memoised method is not covered)")
opn({'kind':'stale-slot','effect':'assign_connectivity','slot_inventory':slot_pin},
    "fem_data.elements.data = v leaves elemental_data['area'|'volume'|'metric'] in place",
    "calculate_element_areas|volumes|metrics() after a connectivity assignment return the slot value of the old connectivity")
opn({'kind':'stale-slot','effect':'make_elements_positive','slot_inventory':slot_pin},
    "make_elements_positive: calculate_element_metrics(raise_negative_metric=False) fills the area/volume/metric slots; they are dropped only when an element was inverted",
    "make_elements_positive() on a mesh without inverted elements leaves default-option slots behind: calculate_element_areas(mode='linear') afterwards returns the centroid areas (the mode-blind slot, reached through the modifier)")
for q,slot in (('calculate_element_areas','area'),('calculate_element_volumes','volume'),('calculate_element_metrics','metric')):
    opn({'kind':'slot-key','query':q},
        f"{q}: `if '{slot}' in self.elemental_data: return ...` ignores mode / return_abs_* and who filled the slot; the stored value is the validated (abs) one",
        f"{q}(a) after a call that filled elemental_data['{slot}'] with other options (mode='linear' then 'centroid' on a non-affine element; return_abs then signed; a nested call from calculate_element_metrics) returns the first value")
opn({'kind':'modifier-differs','effect':'make_elements_positive','after':'Q:calculate_element_metrics'},
    "make_elements_positive trusts the metric slot, which stores validated (abs) values",
    "calculate_element_metrics(return_abs_metric=True, raise_negative_metric=False); make_elements_positive() sees only positive metrics and repairs nothing")
for e in ('rotation','translation'):
    opn({'kind':'stale-derive','effect':e,'memo_inventory':memo_pin},
        f"femio/geometry_processor.py {e}: self.nodes.data[:, i] = ... changes the array but not the data frame FEMAttribute keeps next to it (.loc)",
        f"{e}() then to_surface() / to_facets(): the derived mesh is built through nodes.loc and carries the coordinates from before the move (a freshly built equal mesh gives the moved ones)")
for e in ('rotation','translation'):
    opn({'kind':'modifier-differs','effect':e,'after':'D:to_surface'},
        f"femio/geometry_processor.py {e}: self.nodes.data[:, i] += / = ... in place; the nodes of a to_surface() child are a read-only array (DataFrame.values)",
        f"to_surface() then {e}() on the surface mesh raises ValueError (assignment destination is read-only); on a freshly built equal mesh it moves the nodes")
opn({'kind':'writer-mutates','effect':'write_ucd','mesh':'timeseries'},
    "FEMWriter.try_convert_to_2d: fem_attributes.update(self._generate_time_series(...)) writes '<name>_<step>' keys into the mesh's own table",
    "write('ucd') on a mesh with a time-series variable t and a user variable t_0 replaces the user's t_0 by the first time step of t (same code path in the polyvtk/vtu/vtp writers)")
for d,site in (('to_polyhedron','nodal_data=self.nodal_data'),('to_facets','nodal_data=self.nodal_data'),
               ('resolve_degeneracy','nodal_data=self.nodal_data'),('to_surface','nodal_data = self.nodal_data when remove_unnecessary_nodes=False; FEMData.__init__ stores NODE into the table it is handed'),
               ('to_first_order','elemental_data = self.elemental_data (and settings / materials / constraints)')):
    opn({'kind':'shared-table-modified','deriv':d},
        f"femio/fem_data.py {d}: {site}",
        f"{d}() hands the parent's variable table object (and the coordinate array) to the child: remove_useless_nodes() (or a writer that expands time series, or an in-place rotation / translation) on one of the two objects rewrites the other's data, whose queries then raise or answer for the wrong mesh")
# ---- round 3: further history dependences of the unchanged tree (de7d55f)
opn({'kind':'stale-lru','effect':'remove_useless_nodes','effect_raised':'KeyError','memo_inventory':memo_pin},
    "femio/fem_data.py remove_useless_nodes: self.nodes is replaced, then value.loc[self.nodes.ids] raises KeyError for a nodal variable that lacks some node ids - before _clear_query_caches()",
    "remove_useless_nodes() that raises midway leaves the mesh half updated (nodes replaced, later nodal variables not, caches not cleared): memoised queries keep answering for the old node set (proposed_fixes/C19_remove_useless_nodes_all_or_nothing.diff)")
opn({'kind':'slot-partial','query':'calculate_element_volumes'},
    "calculate_element_volumes(elements=<one type block>) / calculate_element_metrics(elements=...): `if update: _store_slot(elements.ids, 'volume', ...)` stores the partial result",
    "calculate_element_volumes(elements=fem_data.elements['tet']) on a mixed mesh stores a 'volume' for that block only; a later calculate_element_volumes() returns the partial array (proposed_fixes/C19_partial_results_are_not_stored.diff)")
for var, why in ((['elemental_data:volume'], "calculate_element_metrics (and everything that calls it: convert_elemental2nodal, integrate..., make_elements_positive) runs calculate_element_volumes(elements=..., update=True), which overwrites a user variable named 'volume' (proposed_fixes/C19_slots_do_not_overwrite_user_variables.diff)"),
                 (['elemental_data:area'], "same through calculate_element_areas for shells (same proposed fix)"),
                 (['elemental_data:degree'], "calculate_element_degree: update_data({'degree': ...}, allow_overwrite=True)"),
                 (['elemental_data:normal'], "calculate_element_normals (also through calculate_jacobians): update_data({'normal': ...}, allow_overwrite=True)"),
                 (['nodal_data:normal'], "calculate_surface_normals: nodal_data.update({'normal': ...})")):
    opn({'kind':'query-overwrites-user-variable','variables':var},
        "derived data is written under a fixed name with allow_overwrite / update",
        f"a variable the user stored under the name {var[0].split(':')[1]!r} before the query is replaced by the derived one: {why}")

# ---- entries repaired in /repo since they were triaged (fixed entries suppress nothing)
def fixed_by(m):
    k, e = m.get('kind'), m.get('effect')
    if m.get('effect_raised'):
        return 'a4c9c14' if e == 'remove_useless_nodes' else None
    if k == 'slot-partial':
        return 'f91ec7a'
    if k == 'query-overwrites-user-variable' and m.get('variables') in (['elemental_data:volume'], ['elemental_data:area']):
        return 'a8d6190'
    if k == 'query-overwrites-user-variable':
        return '5fc3edd'
    if k in ('stale-lru', 'stale-derive') and e in ('remove_useless_nodes', 'rotation', 'translation'):
        return '1693b7f'
    if k == 'modifier-differs' and e in ('rotation', 'translation'):
        return '1693b7f'
    if k == 'slot-key' or (k == 'stale-slot' and e == 'make_elements_positive') or \
            (k == 'modifier-differs' and e == 'make_elements_positive'):
        return 'fc34815'
    if k == 'writer-mutates':
        return '2e12e9d'
    if k == 'shared-table-modified':
        return 'cef010e'
    if e == 'assign_connectivity' and k in ('stale-lru', 'stale-slot'):
        return '843b883'
    return None
for ent in out:
    if ent['status'] == 'open':
        c = fixed_by(ent['match'])
        if c:
            ent['status'] = 'fixed'
            ent['commit'] = c
            ent['what'] = f"fixed: property=C19 {c} " + ent['what'][len('open: '):]
open('/verif/known_findings.d/C19.json','w').write(json.dumps(out,indent=1)+'\n')
print(len(out), sum(1 for e in out if e['status']=='open'))
