"""Child process: runs femio's graph-matrix methods on the meshes/queries read
from stdin (JSON) and writes, per query, shape + COO triples (exact integers)
or the exception class, to the file named in the spec.  A FRESH FEMData object
is built for every query; cases marked `shared` run their whole query sequence
on ONE object (no mesh modification in between: the answers must be the same)."""
import contextlib
import io
import json
import sys

import numpy as np
import scipy.sparse as sp


def build(mesh):
    import femio
    from femio.fem_attribute import FEMAttribute
    from femio.fem_elemental_attribute import FEMElementalAttribute
    ids = np.array([r[0] for r in mesh['nodes']], dtype=np.int64)
    xyz = np.array([r[1:4] for r in mesh['nodes']], dtype=float).reshape(-1, 3)
    blocks = {}
    for t, rows in mesh['blocks']:
        if len(set(len(c) for _, c in rows)) > 1:
            # ragged rows (polygon / polyhedron): an object array of int arrays
            conn = np.empty(len(rows), dtype=object)
            for k, (_, c) in enumerate(rows):
                conn[k] = np.array(c, dtype=np.int64)
        else:
            conn = np.array([c for _, c in rows], dtype=np.int64)
        blocks[t] = FEMAttribute(
            t, np.array([e for e, _ in rows], dtype=np.int64), conn)
    return femio.FEMData(nodes=FEMAttribute('NODE', ids, xyz),
                         elements=FEMElementalAttribute('ELEMENT', blocks))


def to_int(v):
    if isinstance(v, (bool, np.bool_)):
        return 1 if v else 0
    if isinstance(v, (int, np.integer)):
        return int(v)
    n, d = float(v).as_integer_ratio()
    if d != 1:
        raise ValueError(f'non-integral matrix entry {v!r}')
    return n


def triples(M):
    """summed, zero-free, sorted COO triples + facts about the storage"""
    stored = sp.coo_matrix(M)
    n_stored = len(stored.data)
    acc = {}
    for i, j, v in zip(stored.row.tolist(), stored.col.tolist(), stored.data.tolist()):
        acc[(i, j)] = acc.get((i, j), 0) + to_int(v)
    tr = sorted([i, j, v] for (i, j), v in acc.items() if v != 0)
    return {'shape': [int(M.shape[0]), int(M.shape[1])], 'triples': tr,
            'n_stored': n_stored, 'dtype': str(M.dtype), 'format': M.getformat()}


def styled(v, style):
    """the same truth value spelled as the callers do: bool / int / numpy bool /
    None for False"""
    if style == 'int':
        return int(bool(v))
    if style == 'numpy':
        return np.bool_(bool(v))
    if style == 'none' and not v:
        return None
    return bool(v)


def run_query(fd, q):
    q = dict(q)
    st = q.get('flag_style', 'bool')
    for key in ('order1', 'self_loop'):
        if key in q:
            q[key] = styled(q[key], st)
    k = q['kind']
    md = 'nodal' if q.get('nodal') else 'elemental'
    if k == 'inc':
        return fd.calculate_incidence_matrix(order1_only=q['order1'])
    if k == 'adj':
        if q.get('via') == 'dispatch':
            return fd.calculate_adjacency_matrix(mode=md, order1_only=q['order1'])
        if q.get('via') == 'noarg' and not q['order1']:
            return fd.calculate_adjacency_matrix_node() if q['nodal'] \
                else fd.calculate_adjacency_matrix_element()
        if q['nodal']:
            return fd.calculate_adjacency_matrix_node(order1_only=q['order1'])
        return fd.calculate_adjacency_matrix_element(order1_only=q['order1'])
    if k == 'hop':
        return fd.calculate_n_hop_adj(mode=md, n_hop=q['n'], include_self_loop=q['self_loop'],
                                      order1_only=q['order1'])
    if k == 'lap':
        return fd.calculate_laplacian_matrix(mode=md, order1_only=q['order1'])
    if k == 'grad':
        return fd.calculate_edge_gradient_matrix(mode=md, order1_only=q['order1'])
    if k == 'e2v':
        return fd.calculate_e2v_matrix(mode=md, include_self_loop=q['self_loop'])
    raise AssertionError(k)


def apply_mod(fd, q):
    """in-place modification of the mesh between two queries"""
    if q['op'] == 'set_conn':
        eids = [int(x) for x in fd.elements.ids]
        new = np.array([q['rows'][str(e)] for e in eids], dtype=np.int64)
        if q.get('inplace'):
            # the same array edited in place and assigned back
            conn = fd.elements.data
            conn[...] = new
            fd.elements.data = conn
        else:
            fd.elements.data = new
    elif q['op'] == 'remove_useless_nodes':
        fd.remove_useless_nodes()
    else:
        raise AssertionError(q['op'])


class _Sentinel:
    """a truthy, hashable stand-in for order1_only=True that can be recognised
    when it arrives at the adjacency method"""
    def __bool__(self):
        return True


def probe():
    """translator validation: the DECISIONS observed on the running code.
    dispatch: for every graph function and mode, which adjacency method is
    reached first and whether the caller's order1_only object arrives there;
    first_order: number of columns _to_first_order keeps for every type name"""
    from femio.graph_processor import GraphProcessorMixin as G
    from femio.fem_elemental_attribute import FEMElementalAttribute
    mesh = {'nodes': [[i + 1, i, 0, 0] for i in range(10)],
            'blocks': [['tet2', [[1, list(range(1, 11))]]]]}
    calls = []
    sent = _Sentinel()
    originals = {True: G.calculate_adjacency_matrix_node,
                 False: G.calculate_adjacency_matrix_element}

    def wrap(nodal):
        orig = originals[nodal]

        def w(self, *a, **k):
            o = k.get('order1_only', a[0] if a else False)
            calls.append([nodal, o is sent])
            return orig(self, order1_only=bool(o))
        return w
    out = {'dispatch': [], 'first_order': {}}
    G.calculate_adjacency_matrix_node = wrap(True)
    G.calculate_adjacency_matrix_element = wrap(False)
    try:
        for f, kw in [('calculate_adjacency_matrix', {'order1_only': sent}),
                      ('calculate_laplacian_matrix', {'order1_only': sent}),
                      ('calculate_edge_gradient_matrix', {'order1_only': sent}),
                      ('calculate_n_hop_adj', {'order1_only': sent, 'n_hop': 1}),
                      ('calculate_e2v_matrix', {})]:
            for mode, nodal in (('nodal', True), ('elemental', False)):
                del calls[:]
                fd = build(mesh)
                try:
                    getattr(fd, f)(mode=mode, **kw)
                except Exception:  # noqa  (what happens after the adjacency call is not probed)
                    pass
                out['dispatch'].append([f, nodal] + (calls[0] if calls else [None, None]))
    finally:
        G.calculate_adjacency_matrix_node = originals[True]
        G.calculate_adjacency_matrix_element = originals[False]
    fd = build(mesh)
    for t in FEMElementalAttribute.ELEMENT_TYPES:
        try:
            r = fd.elements._to_first_order(t, np.arange(25).reshape(1, 25))
            out['first_order'][t] = int(r.shape[1])
        except ValueError:
            out['first_order'][t] = 'raise'
        except Exception as e:  # noqa
            out['first_order'][t] = 'unavailable: ' + type(e).__name__
    return out


def main():
    spec = json.loads(sys.stdin.read())
    if spec.get('probe'):
        with contextlib.redirect_stdout(io.StringIO()):
            try:
                res = probe()
            except Exception as e:  # noqa
                res = {'unavailable': type(e).__name__ + ': ' + str(e)[:200]}
        with open(spec['out'], 'w') as f:
            json.dump(res, f)
        return
    out = []
    sink = io.StringIO()
    with contextlib.redirect_stdout(sink):
        from femio.fem_elemental_attribute import FEMElementalAttribute
        types = list(FEMElementalAttribute.ELEMENT_TYPES)
        for case in spec['cases']:
            res = []
            shared = None
            if case.get('shared'):
                # one object for the whole query sequence: the answers must not
                # depend on what was asked before
                try:
                    shared = build(case['mesh'])
                except Exception:  # noqa
                    shared = None
            for q in case['queries']:
                sink.seek(0)
                sink.truncate()
                try:
                    fd = shared if shared is not None else build(case['mesh'])
                    if q['kind'] == 'mod':
                        apply_mod(fd, q)
                        res.append({'mod': 'done'})
                        continue
                    M = run_query(fd, q)
                    r = triples(M)
                    # the element order the columns / elemental vertices refer to
                    r['elem_ids'] = [int(x) for x in fd.elements.ids]
                except Exception as e:  # noqa
                    r = {'exc': type(e).__name__, 'msg': str(e)[:200]}
                res.append(r)
            out.append({'id': case['id'], 'results': res})
    with open(spec['out'], 'w') as f:
        json.dump({'element_types': types, 'cases': out}, f)


if __name__ == '__main__':
    main()
