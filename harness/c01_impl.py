"""Child process of the C01 / C03 checks: runs femio on the jobs given on stdin
(JSON) and writes the results to the file named in the spec.

jobs:
  {"op": "write_read", "id", "dir", "mesh": {...}}   build FEMData, write('fistr'),
        return the text of the .msh (and .cnt) and the mesh read back from the .msh
  {"op": "read", "id", "dir", "files": {"name.msh": "text", ...}, "read": [names]}
        write the given texts, read_files('fistr', names)
  {"op": "volumes", "id", "cases": [{"type", "coords": [[x,y,z],...]}]}
        femio's calculate_element_volumes on single elements
Floats travel as float.hex() strings in both directions (exact).
"""
import contextlib
import io
import json
import os
import shutil
import sys
import traceback
from pathlib import Path

import numpy as np


def fx(h):
    return float.fromhex(h)


def build(mesh):
    import femio
    from femio import FEMData, FEMAttribute, FEMElementalAttribute, FEMAttributes
    idt = {'int32': np.int32}.get(mesh.get('id_dtype'), np.int64)
    nid = np.array(mesh['node_ids'], dtype=idt)
    cdt = {'float32': np.float32, 'int64': np.int64, 'int32': np.int32}.get(mesh.get('coord_dtype'), float)
    xyz = np.array([[fx(c) for c in row] for row in mesh['coords']], dtype=float).astype(cdt)
    els = {}
    for t, ids, conn in mesh['elems']:
        els[t] = FEMAttribute(t, np.array(ids, dtype=np.int64), np.array(conn, dtype=np.int64))
    fd = FEMData(nodes=FEMAttribute('NODE', nid, xyz),
                 elements=FEMElementalAttribute('ELEMENT', els))
    if mesh.get('egroups'):
        fd.element_groups.update({k: np.array(v, dtype=np.int64) for k, v in mesh['egroups']})
    if mesh.get('sections'):
        mats = np.array([s[0] for s in mesh['sections']])
        fd.sections = FEMAttributes(
            names=['TYPE', 'EGRP'], ids=mats,
            list_arrays=[np.array([s[1] for s in mesh['sections']]),
                         np.array([s[2] for s in mesh['sections']])])
    if mesh.get('temp') is not None:
        tid, tv = mesh['temp']
        fd.nodal_data.update({'INITIAL_TEMPERATURE': FEMAttribute(
            'INITIAL_TEMPERATURE', np.array(tid, dtype=np.int64),
            np.array([[fx(v)] for v in tv], dtype=float))})
    if mesh.get('materials'):
        names = np.array([m[0] for m in mesh['materials']])
        fd.materials = FEMAttributes(
            names=['Young_modulus', 'Poisson_ratio'], ids=names,
            list_arrays=[np.array([[fx(m[1])] for m in mesh['materials']]),
                         np.array([[fx(m[2])] for m in mesh['materials']])])
    if mesh.get('solution_type'):
        fd.settings['solution_type'] = mesh['solution_type']
    for kind, (cid, rows) in (mesh.get('constraints') or {}).items():
        data = np.array([[fx(v) for v in r] for r in rows], dtype=float)
        fd.constraints.update({kind: FEMAttribute(kind, np.array(cid, dtype=np.int64), data)})
    # modifications of the live object after construction (the arrays are edited in place)
    for e in mesh.get('inplace') or []:
        if e[0] == 'node':
            fd.nodes.data[e[1], e[2]] = fx(e[3])
        elif e[0] == 'temp':
            fd.nodal_data['INITIAL_TEMPERATURE'].data[e[1], 0] = fx(e[3])
        elif e[0] == 'conn':
            conn = fd.elements[e[4]].data
            conn[e[1], e[2]] = e[3]
        elif e[0] == 'constraint':
            fd.constraints[e[4]].data[e[1], e[2]] = fx(e[3])
    return fd


def hexrows(a):
    a = np.asarray(a, dtype=float)
    if a.ndim == 1:
        a = a[:, None]
    return [[float(v).hex() for v in row] for row in a]


def dump(fd):
    """canonical, order-preserving dump of what was read"""
    out = {}
    out['node_ids'] = [int(i) for i in fd.nodes.ids]
    out['coords'] = hexrows(fd.nodes.data)
    out['elems'] = [[t, [int(i) for i in a.ids], [[int(x) for x in row] for row in a.data]]
                    for t, a in fd.elements.items()]
    out['egroups'] = [[str(k), [int(i) for i in np.ravel(v)]] for k, v in fd.element_groups.items()]
    if len(fd.sections) > 0:
        mats = [str(x) for x in fd.sections['TYPE'].ids]
        ty = [str(x) for x in np.ravel(fd.sections['TYPE'].data)]
        eg = [str(x) for x in np.ravel(fd.sections['EGRP'].data)]
        out['sections'] = [[m, t, g] for m, t, g in zip(mats, ty, eg)]
    else:
        out['sections'] = []
    out['initial'] = [[k[len('INITIAL_'):], [int(i) for i in v.ids], hexrows(v.data)]
                      for k, v in fd.nodal_data.items() if k.startswith('INITIAL_')]
    out['materials'] = []
    out['elemental'] = []
    for prop in ('Young_modulus', 'Poisson_ratio'):
        if prop in fd.materials:
            a = fd.materials[prop]
            out['materials'].append([prop, [str(i) for i in a.ids], hexrows(a.data)])
        if prop in fd.elemental_data:
            out['elemental'].append([prop, [[t, [int(i) for i in a.ids], hexrows(a.data)]
                                            for t, a in fd.elemental_data[prop].items()]])
    out['solution_type'] = str(fd.settings.get('solution_type'))
    out['constraints'] = {k: [[int(i) for i in v.ids], hexrows(v.data)]
                          for k, v in fd.constraints.items()}
    out['node_groups'] = [[str(k), [int(i) for i in np.ravel(v)]] for k, v in fd.node_groups.items()]
    return out


def run(job):
    import femio
    from femio import FEMData
    op = job['op']
    res = {'id': job['id']}
    d = Path(job['dir']) if 'dir' in job else None
    if d is not None:
        shutil.rmtree(d, ignore_errors=True)
        d.mkdir(parents=True)
    if op == 'write_read':
        try:
            kw = {'write_msh_only': True} if job.get('msh_only') else {}
            if job.get('pre_mesh') is not None:
                # an earlier export of a different model under the same name
                build(job['pre_mesh']).write('fistr', d / 'mesh', overwrite=True, **kw)
                res['pre_written'] = sorted(p.name for p in d.iterdir())
            fd = build(job['mesh'])
            before = dump(fd)
            fd.write('fistr', d / 'mesh', overwrite=True, **kw)
            res['msh'] = (d / 'mesh.msh').read_text()
            if (d / 'mesh.cnt').exists():
                res['cnt'] = (d / 'mesh.cnt').read_text()
            # the caller's mesh after the write, and a second write of the same object
            after = dump(fd)
            res['mutated'] = [k for k in ('node_ids', 'coords', 'elems', 'egroups', 'sections',
                                          'initial', 'constraints')
                              if before.get(k) != after.get(k)]
            try:
                (d / 'second').mkdir()
                fd.write('fistr', d / 'second' / 'mesh', overwrite=True, **kw)
                res['msh2'] = (d / 'second' / 'mesh.msh').read_text()
                if (d / 'second' / 'mesh.cnt').exists():
                    res['cnt2'] = (d / 'second' / 'mesh.cnt').read_text()
            except Exception as e:  # noqa
                res['write2_error'] = repr(e)[:300]
        except Exception as e:  # noqa
            res['write_error'] = repr(e)[:300]
            res['write_tb'] = traceback.format_exc()[-1500:]
            return res
        try:
            names = [str(d / 'mesh.msh')]
            if job.get('read_cnt') and (d / 'mesh.cnt').exists():
                names.append(str(d / 'mesh.cnt'))
            if job.get('via_directory'):
                r = FEMData.read_directory('fistr', d, read_npy=False, save=False)
            else:
                r = FEMData.read_files('fistr', names)
            res['read'] = dump(r)
        except Exception as e:  # noqa
            res['read_error'] = repr(e)[:300]
            res['read_tb'] = traceback.format_exc()[-1500:]
        return res
    if op == 'read':
        try:
            for name, text in job['files'].items():
                (d / name).write_text(text)
            r = FEMData.read_files('fistr', [str(d / n) for n in job['read']])
            res['read'] = dump(r)
        except Exception as e:  # noqa
            res['read_error'] = repr(e)[:300]
            res['read_tb'] = traceback.format_exc()[-1500:]
        return res
    if op == 'volumes':
        from femio import FEMAttribute, FEMElementalAttribute
        vols = []
        for c in job['cases']:
            try:
                xyz = np.array([[fx(v) for v in p] for p in c['coords']], dtype=float)
                n = len(xyz)
                ids = np.array(c.get('node_ids') or list(range(1, n + 1)), dtype=np.int64)
                conn = np.array([c.get('conn') or list(ids)], dtype=np.int64)
                fd = FEMData(nodes=FEMAttribute('NODE', ids, xyz),
                             elements=FEMElementalAttribute(
                                 'ELEMENT', {c['type']: FEMAttribute(c['type'], np.array([1]), conn)}))
                v = fd.calculate_element_volumes(mode=job.get('mode', 'linear'),
                                                 raise_negative_volume=False,
                                                 return_abs_volume=False)
                vols.append(float(np.ravel(v)[0]).hex())
            except Exception as e:  # noqa
                vols.append('error:' + repr(e)[:200])
        res['volumes'] = vols
        return res
    if op == 'tables':
        # translator validation: the functions / constants the translator reads, run as they are
        from femio.formats.fistr.write_fistr import FistrWriter
        from femio.formats.fistr.fistr import FrontISTRData
        from femio.fem_elemental_attribute import FEMElementalAttribute
        w = object.__new__(FistrWriter)
        rd = object.__new__(FrontISTRData)

        def call(f, *a):
            try:
                v = f(*a)
                return ['ok', v if isinstance(v, str) else repr(v)]
            except Exception as e:  # noqa
                return ['raise', type(e).__name__]
        # a function that no longer exists under this name (moved / inlined by a refactor) is
        # reported as missing: nothing to validate, the text / read correspondence decides
        res['missing'] = []
        et = getattr(FEMElementalAttribute, 'ELEMENT_TYPES', None)
        if et is None:
            res['missing'].append('ELEMENT_TYPES')
        else:
            res['element_types'] = [str(t) for t in et]
        f = getattr(w, 'detect_fistr_element_type', None)
        if f is None:
            res['missing'].append('detect_fistr_element_type')
        else:
            res['detect'] = {t: call(f, t) for t in job['types']}
        f = getattr(rd, '_convert_fistr_element_type', None)
        table = getattr(FrontISTRData, 'DICT_FISTR_ELEMENTS', None)
        if f is None or not isinstance(table, dict):
            res['missing'].append('_convert_fistr_element_type / DICT_FISTR_ELEMENTS')
        else:
            codes = sorted(set(job['codes']) | set(str(k) for k in table))
            res['convert'] = {c: call(f, c) for c in codes}
        f = getattr(w, '_reorder_prism_data', None)
        if f is None:
            res['missing'].append('_reorder_prism_data')
        else:
            try:
                arg = np.arange(12, dtype=np.int64).reshape(2, 6) + 10
                keep = arg.copy()
                out = np.asarray(f(arg))
                res['reorder'] = {'rows': [[int(x) for x in r] for r in out],
                                  'argument_unchanged': bool(np.array_equal(arg, keep))}
            except Exception as e:  # noqa
                res['reorder'] = {'error': repr(e)[:200]}
        return res
    raise ValueError(op)


def main():
    spec = json.loads(sys.stdin.read())
    out = []
    sink = io.StringIO()
    for job in spec['jobs']:
        with contextlib.redirect_stdout(sink):
            try:
                out.append(run(job))
            except Exception as e:  # noqa
                out.append({'id': job['id'], 'fatal': repr(e), 'tb': traceback.format_exc()[-1500:]})
        sink.seek(0)
        sink.truncate()
    Path(spec['out']).write_text(json.dumps(out))


if __name__ == '__main__':
    main()
