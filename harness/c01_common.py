"""Helpers shared by the C01 and C03 checks: exact float -> %.NE decimal
conversion (Python's `decimal`, independent of printf), Coq literals, mesh
generator, child-process runner."""
import json
import math
import subprocess
import sys
from decimal import Context, Decimal, ROUND_HALF_EVEN
from pathlib import Path

sys.path.insert(0, str(Path(__file__).resolve().parent))
import lib  # noqa

ARITY = {'line': 2, 'tri': 3, 'quad': 4, 'tet': 4, 'tet2': 10, 'prism': 6, 'hex': 8, 'hex2': 20}
WRITER_TYPES = ['line', 'tri', 'quad', 'tet', 'tet2', 'prism', 'hex', 'hex2']
ELEMENT_TYPES_ORDER = ['line', 'line2', 'spring', 'tri', 'tri2', 'quad', 'quad2', 'polygon', 'tet',
                       'tet2', 'pyr', 'pyr2', 'prism', 'prism2', 'hex', 'hex2', 'hexprism',
                       'polyhedron', 'unknown']


def f2dec(x, frac=12):
    """binary64 -> the string C's printf('%.<frac>E') must produce, computed
    exactly (round-half-even on the exact binary value)."""
    if isinstance(x, str):
        x = float.fromhex(x)
    if math.isnan(x) or math.isinf(x):
        return 'nan' if math.isnan(x) else ('-inf' if x < 0 else 'inf')
    sign = '-' if math.copysign(1.0, x) < 0 else ''
    if x == 0:
        return sign + '0.' + '0' * frac + 'E+00'
    q = Context(prec=frac + 1, rounding=ROUND_HALF_EVEN).create_decimal(Decimal(abs(x)))
    digits = ''.join(str(d) for d in q.as_tuple().digits).ljust(frac + 1, '0')
    e = q.adjusted()
    return f"{sign}{digits[0]}.{digits[1:frac + 1]}E{'-' if e < 0 else '+'}{abs(e):02d}"


def dec_value(s):
    """exact rational value of a %.NE string"""
    return Decimal(s)


def coq_lines(lines):
    return lib.coq_list([lib.coq_str(l) for l in lines])


def coq_dec(s):
    return f'(dq {lib.coq_str(s)})'


def coq_mesh(mesh, frac=12):
    nodes = lib.coq_list(
        [f'({lib.coq_Z(i)}, {lib.coq_list([coq_dec(f2dec(c, frac)) for c in row])})'
         for i, row in zip(mesh['node_ids'], mesh['coords'])])
    elems = lib.coq_list(
        [f'({lib.coq_str(t)}, ' + lib.coq_list(
            [f'({lib.coq_Z(i)}, {lib.coq_list([lib.coq_Z(n) for n in row])})'
             for i, row in zip(ids, conn)]) + ')'
         for t, ids, conn in mesh['elems']])
    groups = lib.coq_list(
        [f'({lib.coq_str(k)}, {lib.coq_list([lib.coq_Z(i) for i in v])})'
         for k, v in mesh.get('egroups') or []])
    sects = lib.coq_list(
        [f'({lib.coq_str(m)}, ({lib.coq_str(t)}, {lib.coq_str(g)}))'
         for m, t, g in mesh.get('sections') or []])
    if mesh.get('temp') is not None:
        tid, tv = mesh['temp']
        init = '[("TEMPERATURE", ' + lib.coq_list(
            [f'({lib.coq_Z(i)}, [{coq_dec(f2dec(v, frac))}])' for i, v in zip(tid, tv)]) + ')]'
    else:
        init = '[]'
    return f'(mkmesh {nodes} {elems} {groups} {sects} {init})'


def show_read(r, frac=12):
    """femio's read result (c01_impl.dump) -> the canonical lines of Model.show_mesh"""
    out = ['NODES']
    for i, row in zip(r['node_ids'], r['coords']):
        out.append(','.join([str(i)] + [f2dec(c, frac) for c in row]))
    for t, ids, conn in r['elems']:
        out.append('ELEMENTS ' + t)
        for i, row in zip(ids, conn):
            out.append(','.join(str(x) for x in [i] + row))
    for k, v in r['egroups']:
        out.append('EGROUP ' + k)
        out.append(','.join(str(x) for x in v))
    for m, t, g in r['sections']:
        out.append(f'SECTION {m},{t},{g}')
    for k, ids, rows in r['initial']:
        out.append('INITIAL ' + k)
        for i, row in zip(ids, rows):
            out.append(','.join([str(i)] + [f2dec(c, frac) for c in row]))
    return out


def run_child(ctx, jobs, tag, timeout=1500):
    spec = {'out': str(ctx.scratch / f'impl_{tag}.json'), 'jobs': jobs}
    r = subprocess.run([lib.PY, str(lib.VERIF / 'harness' / 'c01_impl.py')],
                       input=json.dumps(spec), text=True, capture_output=True,
                       env=lib.impl_env(), timeout=timeout)
    if r.returncode != 0:
        raise RuntimeError('impl runner failed: ' + r.stderr[-3000:])
    res = json.loads(Path(spec['out']).read_text())
    return {x['id']: x for x in res}


# ------------------------------------------------------------------ generator
SPECIAL = [0.0, -0.0, 1.0, -1.0, 0.5, 1 / 3, -2 / 3, 1e-30, 3e20, 123456.789, 1e100, -7.25e-5,
           2.0 ** 40, 0.1, 9.9999999999995, 9.99999999999995, 1.0000000000005, 5e-324,
           1.7976931348623157e308, 99999.99999999999]


def rand_coord(rng):
    k = rng.random()
    if k < 0.35:
        return float(rng.randint(-20, 20))
    if k < 0.55:
        return rng.randint(-4000, 4000) / 64.0
    if k < 0.8:
        return rng.uniform(-1, 1) * 10.0 ** rng.randint(-6, 6)
    return rng.choice(SPECIAL)


def rand_ids(rng, n, mode):
    if mode == 'dense':
        ids = list(range(1, n + 1))
    elif mode == 'sparse':
        ids = rng.sample(range(1, 10 * n + 50), n)
    else:
        ids = rng.sample(range(2 ** 31, 2 ** 44), n)
    if mode != 'dense' or rng.random() < 0.7:
        rng.shuffle(ids)
    return ids


def gen_mesh(rng, size='small', types=None, features=None):
    """random mesh description (JSON-able); every choice comes from rng"""
    f = {} if features is None else dict(features)
    if types is None:
        k = rng.choice([1, 1, 2, 2, 3, 4]) if size == 'small' else rng.choice([2, 3, 5, 8])
        types = rng.sample(WRITER_TYPES, k)
    types = [t for t in ELEMENT_TYPES_ORDER if t in types]
    n_per = {t: rng.randint(1, 3 if size == 'small' else 6) for t in types}
    need = max(ARITY[t] for t in types)
    n_ref = rng.randint(need, need + (4 if size == 'small' else 12))
    n_unref = f.get('n_unref', rng.choice([0, 0, 1, 2, 3]))
    n = n_ref + n_unref
    nmode = f.get('node_ids', rng.choice(['dense', 'sparse', 'sparse', 'large']))
    node_ids = rand_ids(rng, n, nmode)
    unref = set(rng.sample(node_ids, n_unref))
    pool = [i for i in node_ids if i not in unref]
    emode = f.get('elem_ids', rng.choice(['dense', 'sparse', 'large']))
    n_el = sum(n_per.values())
    eids = rand_ids(rng, n_el, emode)
    elems = []
    used = set()
    k = 0
    for t in types:
        ids = eids[k:k + n_per[t]]
        k += n_per[t]
        conn = []
        for _ in ids:
            c = rng.sample(pool, ARITY[t])
            used.update(c)
            conn.append(c)
        elems.append([t, ids, conn])
    # make sure every node of the pool is referenced (append to last element rows is not
    # possible: arity is fixed) -> nodes of the pool not used become unreferenced too
    coords = [[float(rand_coord(rng)).hex() for _ in range(3)] for _ in node_ids]
    mesh = {'node_ids': node_ids, 'coords': coords, 'elems': elems}
    all_eids = [i for _, ids, _ in elems for i in ids]
    gk = f.get('groups', rng.choice(['none', 'some', 'some', 'with_all', 'singletons']))
    groups = []
    if gk in ('some', 'with_all'):
        if gk == 'with_all':
            groups.append(['ALL', sorted(all_eids)])
        for j in range(rng.randint(1, 3)):
            groups.append([rng.choice(['G', 'grp_', 'E', 'Part']) + str(j + 1),
                           rng.sample(all_eids, rng.randint(1, len(all_eids)))])
        if gk == 'with_all' and rng.random() < 0.5:
            rng.shuffle(groups)
    elif gk == 'singletons':
        groups.append(['ALL', sorted(all_eids)])
        order = list(all_eids)
        rng.shuffle(order)
        for j, e in enumerate(order):
            groups.append([f'E{j + 1}', [e]])
    if groups:
        mesh['egroups'] = groups
    sk = f.get('sections', rng.choice(['none', 'some', 'some']))
    if sk == 'some':
        names = [g[0] for g in groups if g[0] != 'ALL'] or ['ALL']
        ns = rng.randint(1, min(3, len(names)))
        chosen = rng.sample(names, ns)
        mesh['sections'] = [[rng.choice(['M', 'MAT_', 'steel']) + str(j + 1),
                             'SHELL' if rng.random() < 0.25 else 'SOLID', g]
                            for j, g in enumerate(chosen)]
    tk = f.get('temp', rng.choice(['none', 'node_order', 'permuted', 'permuted']))
    if tk != 'none':
        tid = list(node_ids)
        if tk == 'permuted':
            rng.shuffle(tid)
        mesh['temp'] = [tid, [float(rng.choice([rng.randint(0, 500) / 4.0,
                                                rng.uniform(-50, 900)])).hex() for _ in tid]]
    mesh['meta'] = {'types': types, 'node_ids': nmode, 'elem_ids': emode,
                    'n_unref': len(set(node_ids) - used), 'groups': gk, 'sections': sk,
                    'temp': tk}
    return mesh
