"""Helpers shared by the C01 and C03 checks: exact float -> %.NE decimal
conversion (Python's `decimal`, independent of printf), Coq literals, mesh
generator, child-process runner."""
import json
import math
import subprocess
import sys
from decimal import Context, Decimal, ROUND_HALF_EVEN
from pathlib import Path

sys.path.insert(0, str(Path(__file__).resolve().parent))
import lib  # noqa

ARITY = {'line': 2, 'tri': 3, 'quad': 4, 'tet': 4, 'tet2': 10, 'prism': 6, 'hex': 8, 'hex2': 20}
WRITER_TYPES = ['line', 'tri', 'quad', 'tet', 'tet2', 'prism', 'hex', 'hex2']
ELEMENT_TYPES_ORDER = ['line', 'line2', 'spring', 'tri', 'tri2', 'quad', 'quad2', 'polygon', 'tet',
                       'tet2', 'pyr', 'pyr2', 'prism', 'prism2', 'hex', 'hex2', 'hexprism',
                       'polyhedron', 'unknown']


def f2dec(x, frac=12):
    """binary64 -> the string C's printf('%.<frac>E') must produce, computed
    exactly (round-half-even on the exact binary value)."""
    if isinstance(x, str):
        x = float.fromhex(x)
    if math.isnan(x) or math.isinf(x):
        return 'nan' if math.isnan(x) else ('-inf' if x < 0 else 'inf')
    sign = '-' if math.copysign(1.0, x) < 0 else ''
    if x == 0:
        return sign + '0.' + '0' * frac + 'E+00'
    q = Context(prec=frac + 1, rounding=ROUND_HALF_EVEN).create_decimal(Decimal(abs(x)))
    digits = ''.join(str(d) for d in q.as_tuple().digits).ljust(frac + 1, '0')
    e = q.adjusted()
    return f"{sign}{digits[0]}.{digits[1:frac + 1]}E{'-' if e < 0 else '+'}{abs(e):02d}"


def dec_value(s):
    """exact rational value of a %.NE string"""
    return Decimal(s)


def coq_lines(lines):
    return lib.coq_list([lib.coq_str(l) for l in lines])


def coq_dec(s):
    return f'(dq {lib.coq_str(s)})'


def coq_mesh(mesh, frac=12):
    nodes = lib.coq_list(
        [f'({lib.coq_Z(i)}, {lib.coq_list([coq_dec(f2dec(c, frac)) for c in row])})'
         for i, row in zip(mesh['node_ids'], mesh['coords'])])
    elems = lib.coq_list(
        [f'({lib.coq_str(t)}, ' + lib.coq_list(
            [f'({lib.coq_Z(i)}, {lib.coq_list([lib.coq_Z(n) for n in row])})'
             for i, row in zip(ids, conn)]) + ')'
         for t, ids, conn in mesh['elems']])
    groups = lib.coq_list(
        [f'({lib.coq_str(k)}, {lib.coq_list([lib.coq_Z(i) for i in v])})'
         for k, v in mesh.get('egroups') or []])
    sects = lib.coq_list(
        [f'({lib.coq_str(m)}, ({lib.coq_str(t)}, {lib.coq_str(g)}))'
         for m, t, g in mesh.get('sections') or []])
    if mesh.get('temp') is not None:
        tid, tv = mesh['temp']
        init = '[("TEMPERATURE", ' + lib.coq_list(
            [f'({lib.coq_Z(i)}, [{coq_dec(f2dec(v, frac))}])' for i, v in zip(tid, tv)]) + ')]'
    else:
        init = '[]'
    return f'(mkmesh {nodes} {elems} {groups} {sects} {init})'


def coq_mats(mesh):
    return lib.coq_list([f'({lib.coq_str(n)}, [dqf {lib.coq_str(f2dec(e, 8))}; dqf {lib.coq_str(f2dec(nu, 8))}])'
                         for n, e, nu in mesh.get('materials') or []])


def child_mesh(rng, mesh):
    """the mesh handed to femio: some entries are first set to other values and then
    restored by editing the live arrays in place (nodes.data[i, j] = v, ...)"""
    import copy
    m = copy.deepcopy(mesh)
    edits = []
    if rng.random() < 0.5:
        for _ in range(rng.choice([1, 2])):
            i, j = rng.randrange(len(m['node_ids'])), rng.randrange(3)
            edits.append(['node', i, j, mesh['coords'][i][j]])
            m['coords'][i][j] = float(7.0 if m.get('coord_dtype', 'float64')[:3] == 'int' else 7.25).hex()
        if m.get('temp') is not None:
            i = rng.randrange(len(m['temp'][0]))
            edits.append(['temp', i, 0, mesh['temp'][1][i]])
            m['temp'][1][i] = float(-1.5).hex()
        t, ids, conn = m['elems'][rng.randrange(len(m['elems']))]
        r, c = rng.randrange(len(ids)), rng.randrange(len(conn[0]))
        other = [x for x in mesh['node_ids'] if x != conn[r][c]]
        if other:
            edits.append(['conn', r, c, conn[r][c], t])
            conn[r][c] = rng.choice(other)
    m['inplace'] = edits
    return m


def show_read(r, frac=12):
    """femio's read result (c01_impl.dump) -> the canonical lines of Model.show_mesh"""
    out = ['NODES']
    for i, row in zip(r['node_ids'], r['coords']):
        out.append(','.join([str(i)] + [f2dec(c, frac) for c in row]))
    for t, ids, conn in r['elems']:
        out.append('ELEMENTS ' + t)
        for i, row in zip(ids, conn):
            out.append(','.join(str(x) for x in [i] + row))
    for k, v in r['egroups']:
        out.append('EGROUP ' + k)
        out.append(','.join(str(x) for x in v))
    for m, t, g in r['sections']:
        out.append(f'SECTION {m},{t},{g}')
    for k, ids, rows in r['initial']:
        out.append('INITIAL ' + k)
        for i, row in zip(ids, rows):
            out.append(','.join([str(i)] + [f2dec(c, frac) for c in row]))
    mats = r.get('materials') or []
    if mats:
        names = mats[0][1]
        cols = [[f2dec(row[0], 8) for row in rows] for _, _, rows in mats]
        for k, nm in enumerate(names):
            out.append('MATERIAL ' + nm)
            out.append(','.join(c[k] for c in cols))
    el = r.get('elemental') or []
    if el:
        blocks = el[0][1]
        for bi, (t, ids, rows) in enumerate(blocks):
            out.append('ASSIGNED ' + t)
            for k, i in enumerate(ids):
                out.append(','.join([str(i)] + [f2dec(p[1][bi][2][k][0], 8) for p in el]))
    return out


def run_child(ctx, jobs, tag, timeout=1500):
    spec = {'out': str(ctx.scratch / f'impl_{tag}.json'), 'jobs': jobs}
    r = subprocess.run([lib.PY, str(lib.VERIF / 'harness' / 'c01_impl.py')],
                       input=json.dumps(spec), text=True, capture_output=True,
                       env=lib.impl_env(), timeout=timeout)
    if r.returncode != 0:
        raise RuntimeError('impl runner failed: ' + r.stderr[-3000:])
    res = json.loads(Path(spec['out']).read_text())
    return {x['id']: x for x in res}


# ------------------------------------------------------------------ generator
SPECIAL = [0.0, -0.0, 1.0, -1.0, 0.5, 1 / 3, -2 / 3, 1e-30, 3e20, 123456.789, 1e100, -7.25e-5,
           2.0 ** 40, 0.1, 9.9999999999995, 9.99999999999995, 1.0000000000005, 5e-324,
           1.7976931348623157e308, 99999.99999999999]


def rand_coord(rng):
    k = rng.random()
    if k < 0.35:
        return float(rng.randint(-20, 20))
    if k < 0.55:
        return rng.randint(-4000, 4000) / 64.0
    if k < 0.8:
        return rng.uniform(-1, 1) * 10.0 ** rng.randint(-6, 6)
    return rng.choice(SPECIAL)


def rand_ids(rng, n, mode):
    if mode == 'dense':
        ids = list(range(1, n + 1))
    elif mode == 'sparse':
        ids = rng.sample(range(1, 10 * n + 50), n)
    elif mode in ('almost_sorted', 'reversed', 'offset_dense'):
        a = 1 if mode != 'offset_dense' else rng.choice([0, 1000, 2 ** 31 - n // 2])
        ids = list(range(a + (1 if a == 0 else 0), a + (1 if a == 0 else 0) + n))
        if mode == 'reversed':
            ids.reverse()
        elif mode == 'almost_sorted' and n >= 3:
            k = rng.randrange(n - 1)
            ids[k], ids[k + 1] = ids[k + 1], ids[k]          # two neighbours swapped
            if rng.random() < 0.5:
                ids.insert(rng.randrange(n), ids.pop(rng.randrange(n)))   # one id moved
        elif n >= 4:
            mid = ids[1:-1]
            rng.shuffle(mid)                                   # ends in place, interior shuffled
            ids = [ids[0]] + mid + [ids[-1]]
        return ids
    elif mode == 'near_2p53':
        ids = rng.sample(range(2 ** 53 - 10 * n - 10, 2 ** 53), n)
    else:
        ids = rng.sample(range(2 ** 31, 2 ** 44), n)
    if mode != 'dense' or rng.random() < 0.7:
        rng.shuffle(ids)
    return ids


def f32(x):
    import struct
    return struct.unpack('f', struct.pack('f', x))[0]


GROUP_NAMES = ['G', 'G1', 'G10', 'g1', 'grp_', 'E', 'Part', 'PART', 'part']
MAT_NAMES = ['STEEL', 'ALUMINIUM', 'RUBBER', 'steel', 'STEEL2', 'M', 'M1', 'MAT_', 'Cu']


def gen_mesh(rng, size='small', types=None, features=None):
    """random mesh description (JSON-able); every choice comes from rng"""
    f = {} if features is None else dict(features)
    if types is None:
        k = rng.choice([1, 1, 2, 2, 3, 4]) if size == 'small' else rng.choice([2, 3, 5, 8])
        types = rng.sample(WRITER_TYPES, k)
    types = [t for t in ELEMENT_TYPES_ORDER if t in types]
    n_per = {t: rng.randint(1, 3 if size == 'small' else 6) for t in types}
    need = max(ARITY[t] for t in types)
    n_ref = rng.randint(need, need + (4 if size == 'small' else 12))
    n_unref = f.get('n_unref', rng.choice([0, 0, 1, 2, 3]))
    n = n_ref + n_unref
    nmode = f.get('node_ids', rng.choice(['dense', 'sparse', 'sparse', 'large', 'almost_sorted',
                                          'reversed', 'offset_dense', 'near_2p53']))
    node_ids = rand_ids(rng, n, nmode)
    unref = set(rng.sample(node_ids, n_unref))
    place = rng.choice(['random', 'random', 'first', 'last', 'middle'])
    if place != 'random' and n_unref and nmode in ('sparse', 'large', 'near_2p53'):
        keep = [i for i in node_ids if i not in unref]
        ul = [i for i in node_ids if i in unref]
        k = {'first': 0, 'last': len(keep), 'middle': len(keep) // 2}[place]
        node_ids = keep[:k] + ul + keep[k:]
    pool = [i for i in node_ids if i not in unref]
    emode = f.get('elem_ids', rng.choice(['dense', 'sparse', 'large', 'almost_sorted', 'reversed',
                                          'offset_dense']))
    n_el = sum(n_per.values())
    eids = rand_ids(rng, n_el, emode)
    elems = []
    used_nodes = set()
    k = 0
    for t in types:
        ids = eids[k:k + n_per[t]]
        k += n_per[t]
        conn = []
        for _ in ids:
            c = rng.sample(pool, ARITY[t])
            used_nodes.update(c)
            conn.append(c)
        elems.append([t, ids, conn])
    # make sure every node of the pool is referenced (append to last element rows is not
    # possible: arity is fixed) -> nodes of the pool not used become unreferenced too
    # scale / position / dtype of the coordinates
    cdt = f.get('coord_dtype', rng.choice(['float64'] * 6 + ['float32', 'int64', 'int32']))
    scale = rng.choice([1.0] * 4 + [1e-4, 1e-3, 0.1, 1e3, 2.0 ** -10, 2.0 ** 7])
    offset = rng.choice([0.0] * 4 + [1e5, 1.234567e6, 1e7, -3.3e5])
    raw = [[rand_coord(rng) for _ in range(3)] for _ in node_ids]
    if cdt in ('int64', 'int32'):
        vals = [[float(rng.randint(-10 ** 6, 10 ** 6)) for _ in range(3)] for _ in node_ids]
    else:
        vals = [[(x * scale + offset) if abs(x) < 1e50 else x for x in row] for row in raw]
        if cdt == 'float32':
            vals = [[f32(x) if abs(x) < 3e38 and (x == 0 or abs(x) > 1e-37) else 1.5 for x in row]
                    for row in vals]
    coords = [[float(x).hex() for x in row] for row in vals]
    mesh = {'node_ids': node_ids, 'coords': coords, 'elems': elems}
    if cdt != 'float64':
        mesh['coord_dtype'] = cdt
    if max(node_ids) < 2 ** 31 and rng.random() < 0.2:
        mesh['id_dtype'] = 'int32'
    all_eids = [i for _, ids, _ in elems for i in ids]
    gk = f.get('groups', rng.choice(['none', 'some', 'some', 'with_all', 'singletons']))
    groups = []
    if gk in ('some', 'with_all'):
        if gk == 'with_all':
            groups.append(['ALL', sorted(all_eids)])
        for j in range(rng.randint(1, 3)):
            groups.append([rng.choice(GROUP_NAMES) + str(j + 1),
                           rng.sample(all_eids, rng.randint(1, len(all_eids)))])
        if gk == 'with_all' and rng.random() < 0.5:
            rng.shuffle(groups)
    elif gk == 'singletons':
        groups.append(['ALL', sorted(all_eids)])
        order = list(all_eids)
        rng.shuffle(order)
        for j, e in enumerate(order):
            groups.append([f'E{j + 1}', [e]])
    eg = f.get('empty_group')
    if eg == 'plain':
        # an element group without members, among other groups
        if not [g for g in groups if g[0] != 'ALL']:
            groups.append(['G1', rng.sample(all_eids, rng.randint(1, len(all_eids)))])
        groups.insert(rng.randint(0, len(groups)), ['EMPTY', []])
    elif eg == 'fastpath' and len(all_eids) >= 2:
        # as many groups as elements and as many members as elements, one group empty:
        # the configuration in which write_msh takes the one-group-per-element path
        order = list(all_eids)
        rng.shuffle(order)
        groups = [['PAIR', order[:2]]] + [[f'E{j + 1}', [e]] for j, e in enumerate(order[2:])]
        rng.shuffle(groups)
        groups.insert(rng.randint(0, len(groups)), ['EMPTY', []])
        groups.insert(rng.choice([0, len(groups)]), ['ALL', sorted(all_eids)])
    if groups:
        mesh['egroups'] = groups
    sk = f.get('sections', rng.choice(['none', 'some', 'some']))
    if sk == 'some':
        names = [g[0] for g in groups if g[0] != 'ALL'] or ['ALL']
        ns = rng.randint(1, min(3, len(names)))
        chosen = rng.sample(names, ns)
        mesh['sections'] = [[rng.choice(['M', 'MAT_', 'steel']) + str(j + 1),
                             'SHELL' if rng.random() < 0.25 else 'SOLID', g]
                            for j, g in enumerate(chosen)]
    # materials: a table in its own order (shared, unused materials), sections on disjoint groups
    mk = f.get('materials', rng.choice(['none', 'none', 'table', 'table']))
    if mk == 'table' and gk != 'singletons':
        order = list(all_eids)
        rng.shuffle(order)
        nsec = rng.randint(1, min(4, len(order)))
        cuts = sorted(rng.sample(range(1, len(order)), nsec - 1)) if nsec > 1 else []
        parts = [order[a:b] for a, b in zip([0] + cuts, cuts + [len(order)])]
        if rng.random() < 0.4 and len(parts) > 1:
            parts = parts[:-1]                       # some elements in no section
        sgroups = [[f'SEC{j}_{rng.choice(["a", "B", "frame"])}', p] for j, p in enumerate(parts)]
        groups = [g for g in groups if g[0] != 'ALL'] + sgroups
        if rng.random() < 0.5:
            rng.shuffle(groups)
        if gk == 'with_all':
            groups.insert(rng.randint(0, len(groups)), ['ALL', sorted(all_eids)])
        mesh['egroups'] = groups
        names = rng.sample(MAT_NAMES, min(len(MAT_NAMES), nsec + rng.randint(0, 2)))
        used = [rng.choice(names[:nsec]) if rng.random() < 0.3 else names[j] for j in range(nsec)]
        if rng.random() < 0.3:                       # as many materials as elements
            while len(names) < len(all_eids) and len(names) < len(MAT_NAMES):
                names.append([x for x in MAT_NAMES if x not in names][0])
        table = list(names)
        rng.shuffle(table)
        mesh['materials'] = [[nm, float(rng.choice([210000.0, 7e4, 1 / 3, rng.uniform(1, 1e6)])).hex(),
                              float(rng.choice([0.3, 0.33, 0.49, rng.uniform(0, 0.5)])).hex()]
                             for nm in table]
        secs = [[used[j], 'SHELL' if rng.random() < 0.2 else 'SOLID', sgroups[j][0]]
                for j in range(len(sgroups))]
        rng.shuffle(secs)
        mesh['sections'] = secs
        sk = 'with_materials'
    tk = f.get('temp', rng.choice(['none', 'node_order', 'permuted', 'permuted']))
    if tk != 'none':
        tid = list(node_ids)
        if tk == 'permuted':
            rng.shuffle(tid)
        mesh['temp'] = [tid, [float(rng.choice([rng.randint(0, 500) / 4.0,
                                                rng.uniform(-50, 900)])).hex() for _ in tid]]
    mesh['meta'] = {'types': types, 'node_ids': nmode, 'elem_ids': emode,
                    'n_unref': len(set(node_ids) - used_nodes), 'groups': gk, 'sections': sk,
                    'temp': tk, 'coord_dtype': cdt, 'scale': scale, 'offset': offset,
                    'unref_place': place, 'materials': 'table' if mesh.get('materials') else 'none'}
    return mesh
