"""Runs FEMData.write on the implementation for the cases on stdin (JSON) and
reports, per case: raised?, the ordered file events (guards = Path.exists on a
would-be target, creates/appends = open for writing), and the directory diff.
Stubs stand in for the absent `stl` and `tvtk` packages: their writers create
the file they are handed (that is the only behaviour C07 needs from them)."""
import builtins
import hashlib
import io
import json
import os
import shutil
import sys
import types
from pathlib import Path

EVENTS = []
ROOT = None
FILE_TYPE = {'<other>': 'no-such-format'}


def rel(p):
    p = os.path.abspath(str(p))
    if ROOT and p.startswith(ROOT + os.sep):
        return p[len(ROOT) + 1:]
    return None


def note_open(file, mode):
    r = rel(file) if isinstance(file, (str, os.PathLike)) else None
    if r is None:
        return
    if any(c in mode for c in 'wx'):
        EVENTS.append('C ' + r)
    elif 'a' in mode or '+' in mode:
        EVENTS.append('A ' + r)


_open = builtins.open


def traced_open(file, mode='r', *a, **k):
    note_open(file, mode)
    return _open(file, mode, *a, **k)


builtins.open = traced_open
io.open = traced_open
_os_open = os.open


def traced_os_open(path, flags, *a, **k):
    if flags & (os.O_WRONLY | os.O_RDWR):
        r = rel(path) if isinstance(path, (str, os.PathLike)) else None
        if r is not None:
            EVENTS.append(('A ' if flags & os.O_APPEND else 'C ') + r)
    return _os_open(path, flags, *a, **k)


os.open = traced_os_open
_exists = Path.exists


def traced_exists(self, *a, **k):
    r = rel(self)
    res = _exists(self, *a, **k)
    if r is not None and not os.path.isdir(str(self)):
        EVENTS.append('G ' + r)
    return res


Path.exists = traced_exists
_os_path_exists = os.path.exists


def traced_os_path_exists(path):
    res = _os_path_exists(path)
    r = rel(path) if isinstance(path, (str, os.PathLike)) else None
    if r is not None and not os.path.isdir(str(path)):
        EVENTS.append('G ' + r)
    return res


os.path.exists = traced_os_path_exists


# removing / moving files (Path.unlink, Path.replace, Path.rename and
# shutil.move go through these)
def _traced_remove(orig):
    def f(path, *a, **k):
        r = rel(path) if isinstance(path, (str, os.PathLike)) else None
        if r is not None:
            EVENTS.append('D ' + r)
        return orig(path, *a, **k)
    return f


def _traced_move(orig):
    def f(src, dst, *a, **k):
        rs = rel(src) if isinstance(src, (str, os.PathLike)) else None
        rd = rel(dst) if isinstance(dst, (str, os.PathLike)) else None
        if rs is not None or rd is not None:
            EVENTS.append(f'M {rs} -> {rd}')
        return orig(src, dst, *a, **k)
    return f


os.unlink = _traced_remove(os.unlink)
os.remove = _traced_remove(os.remove)
os.rename = _traced_move(os.rename)
os.replace = _traced_move(os.replace)


# ---- stubs for absent third-party writers -------------------------------
def install_stubs():
    import numpy as np
    try:
        import stl  # noqa
    except ImportError:
        stl = types.ModuleType('stl')
        base = types.ModuleType('stl.base')
        mesh = types.ModuleType('stl.mesh')
        base.BaseMesh = np.dtype([('normals', 'f4', (3,)), ('vectors', 'f4', (3, 3)),
                                  ('attr', 'u2', (1,))])

        class Mesh:
            def __init__(self, data, remove_empty_areas=False):
                self.data = data

            def save(self, file_name, *a, **k):
                with open(file_name, 'wb') as f:
                    f.write(b'stub stl\n')
        mesh.Mesh = Mesh
        stl.base, stl.mesh = base, mesh
        sys.modules.update({'stl': stl, 'stl.base': base, 'stl.mesh': mesh})
    try:
        import tvtk  # noqa
    except ImportError:
        tv = types.ModuleType('tvtk')
        api = types.ModuleType('tvtk.api')

        class Anything:
            def __init__(self, *a, **k):
                self.__dict__.update(k)

            def __getattr__(self, n):
                return Anything()

            def __call__(self, *a, **k):
                return Anything()

        class XMLWriter(Anything):
            def write(self):
                with open(self.file_name, 'w') as f:
                    f.write('<VTKFile type="Int64">stub</VTKFile>\n')

        class TV:
            UnstructuredGrid = Anything
            PolyData = Anything
            CellArray = Anything
            XMLUnstructuredGridWriter = XMLWriter
            XMLPolyDataWriter = XMLWriter
        api.tvtk = TV
        tv.api = api
        sys.modules.update({'tvtk': tv, 'tvtk.api': api})


def snapshot(root):
    out = {}
    for p in sorted(Path(root).rglob('*')):
        if p.is_file():
            out[str(p.relative_to(root))] = hashlib.sha256(p.read_bytes()).hexdigest()
    return out


def build_mesh(kind):
    import numpy as np
    import femio
    from femio import FEMData, FEMAttribute, FEMElementalAttribute, FEMAttributes
    if kind == 'shell':
        nodes = FEMAttribute('NODE', np.array([3, 5, 9]), np.array(
            [[0., 0, 0], [1, 0, 0], [0, 1, 0]]))
        elements = FEMElementalAttribute('ELEMENT', {
            'tri': FEMAttribute('tri', np.array([7]), np.array([[3, 5, 9]]))})
    elif kind == 'mixed_shell':
        nodes = FEMAttribute('NODE', np.array([3, 5, 9, 12, 20]), np.array(
            [[0., 0, 0], [1, 0, 0], [1, 1, 0], [0, 1, 0], [2, 0.5, 0]]))
        elements = FEMElementalAttribute('ELEMENT', {
            'quad': FEMAttribute('quad', np.array([7]), np.array([[3, 5, 9, 12]])),
            'tri': FEMAttribute('tri', np.array([4]), np.array([[5, 20, 9]]))})
    elif kind == 'hexprism':
        # a unit hex with a prism glued on its x = 1 face: the surface mixes tri and quad
        nodes = FEMAttribute('NODE', np.arange(11, 21), np.array([
            [0., 0., 0.], [1., 0., 0.], [1., 1., 0.], [0., 1., 0.],
            [0., 0., 1.], [1., 0., 1.], [1., 1., 1.], [0., 1., 1.],
            [2., 0., .5], [2., 1., .5]]))
        elements = FEMElementalAttribute('ELEMENT', {
            'hex': FEMAttribute('hex', np.array([5]),
                                np.array([[11, 12, 13, 14, 15, 16, 17, 18]])),
            'prism': FEMAttribute('prism', np.array([7]),
                                  np.array([[12, 16, 19, 13, 17, 20]]))})
    else:
        nodes = FEMAttribute('NODE', np.array([3, 5, 9, 12]), np.array(
            [[0., 0, 0], [1, 0, 0], [0, 1, 0], [0, 0, 1]]))
        elements = FEMElementalAttribute('ELEMENT', {
            'tet': FEMAttribute('tet', np.array([7]), np.array([[3, 5, 9, 12]]))})
    fd = FEMData(nodes, elements)
    fd.nodal_data.update_data(nodes.ids, {'t': np.arange(len(nodes.ids), dtype=float)[:, None]})
    fd.materials.update_data('M1', {'Young_modulus': np.array([[1.0]]),
                                    'Poisson_ratio': np.array([[0.3]])})
    fd.sections.update_data('M1', {'TYPE': 'SOLID', 'EGRP': 'ALL'})
    return fd


def main():
    global ROOT
    cases = json.load(sys.stdin)
    install_stubs()
    work = Path(cases['work'])
    results = []
    devnull = _open(os.devnull, 'w')
    for c in cases['cases']:
        root = work / f"case{c['id']}"
        if root.exists():
            shutil.rmtree(root)
        root.mkdir(parents=True)
        content = c.get('content', 'marker')
        same = {}
        if content in ('same', 'same-crlf') and c['pre']:
            # what a write of this very object into an empty directory produces
            ref = work / f"ref{c['id']}"
            if ref.exists():
                shutil.rmtree(ref)
            ref.mkdir(parents=True)
            cwd0 = os.getcwd()
            so0 = sys.stdout
            sys.stdout = devnull
            os.chdir(ref)
            try:
                build_mesh(c.get('mesh', 'solid')).write(c['format'], c['name'],
                                                         **dict(c.get('kwargs', {})))
            except Exception:  # noqa
                pass
            finally:
                os.chdir(cwd0)
                sys.stdout = so0
            for q in c['pre']:
                if (ref / q).is_file():
                    b = (ref / q).read_bytes()
                    same[q] = b.replace(b'\n', b'\r\n') if content == 'same-crlf' else b
            shutil.rmtree(ref)
        for q in c['pre']:
            (root / q).parent.mkdir(parents=True, exist_ok=True)
            if content == 'empty':
                (root / q).write_bytes(b'')
            elif q in same:
                (root / q).write_bytes(same[q])
            else:
                (root / q).write_bytes(b'PRE-EXISTING ' + q.encode())
        fd = build_mesh(c.get('mesh', 'solid'))
        before = snapshot(root)
        ROOT = os.path.abspath(str(root))
        EVENTS.clear()
        raised, exc = 0, ''
        second = None
        so = sys.stdout
        sys.stdout = devnull
        cwd = os.getcwd()
        os.chdir(root)
        try:
            kw = dict(c.get('kwargs', {}))
            fd.write(FILE_TYPE.get(c['format'], c['format']), c['name'], **kw)
            if c.get('second_call'):
                # same object, same name again: must raise or at least change nothing
                first_events = list(EVENTS)
                mid = snapshot(root)
                try:
                    fd.write(FILE_TYPE.get(c['format'], c['format']), c['name'], **kw)
                    r2 = 0
                except Exception:  # noqa
                    r2 = 1
                after2 = snapshot(root)
                second = {'raised': r2,
                          'changed': sorted(q for q in mid if after2.get(q) != mid[q])}
                EVENTS[:] = first_events
        except Exception as e:  # noqa
            raised, exc = 1, f'{type(e).__name__}: {e}'
        finally:
            os.chdir(cwd)
            sys.stdout = so
        events = list(EVENTS)
        ROOT = None
        after = snapshot(root)
        changed = sorted(q for q in before if after.get(q) != before[q])
        new = sorted(q for q in after if q not in before)
        results.append({'id': c['id'], 'raised': raised, 'exc': exc, 'events': events,
                        'changed': changed, 'new': new, 'second': second})
        shutil.rmtree(root)
    pathfun = []
    if cases.get('pathfun'):
        import femio
        fd = build_mesh('solid')
        for name, ext, suf, sib in cases['pathfun']:
            row = {}
            try:
                row['addext'] = str(fd.add_extension_if_needed(Path(name), ext))
            except Exception as e:  # noqa
                row['addext'] = None
            try:
                row['with_suffix'] = str(Path(name).with_suffix(suf))
            except Exception:  # noqa
                row['with_suffix'] = None
            row['sibling'] = str(Path(name).parent / sib)
            row['suffix'] = str(Path(str(Path(name)) + suf))
            pathfun.append(row)
    with _open(cases['out'], 'w') as f:
        json.dump({'results': results, 'pathfun': pathfun}, f)


if __name__ == '__main__':
    main()
