"""Child process for C02: for each case builds the mesh with femio, writes it
with femio's own FrontISTR writer, drops the given result files (text rendered
by the parent and checked against the Coq model's render_res) next to it, reads
the directory with femio and reports nodal_data / elemental_data.  Floats travel
as canonical E-format text (shortest of %.0E..%.16E that reads back bit-exactly)."""
import json
import shutil
import sys
import traceback
from pathlib import Path

import numpy as np


def tok(x):
    """canonical token of a float64 (same function as in harness/c02.py)"""
    x = float(x)
    for p in (0, 1, 2, 3, 5, 8, 12, 16):
        s = '%.*E' % (p, x)
        if float(s) == x:
            return s
    return '%.16E' % x


def run_case(case, work):
    import femio
    from femio import FEMData, FEMAttribute, FEMElementalAttribute
    out = {'id': case['id']}
    # same-process history stream: cases with a path_key reuse ONE directory (same file names
    # rewritten with other content and read again in this process)
    d = Path(work) / (f"shared_{case['path_key']}" if case.get('path_key') else f"c{case['id']}")
    shutil.rmtree(d, ignore_errors=True)
    d.mkdir(parents=True)
    try:
        m = case['mesh']
        nodes = FEMAttribute('NODE', np.array(m['node_ids'], dtype=np.int64),
                             np.array(m['xyz'], dtype=np.float64), silent=True)
        blocks = {b['type']: FEMAttribute(b['type'], np.array(b['ids'], dtype=np.int64),
                                          np.array(b['conn'], dtype=np.int64), silent=True)
                  for b in m['elems']}
        fd = FEMData(nodes=nodes, elements=FEMElementalAttribute('ELEMENT', blocks))
        fd.write('fistr', str(d / 'mesh'), overwrite=True)
        for f in case['files']:
            (d / f"mesh.res.0.{f['step']}").write_text('\n'.join(f['lines']) + '\n')
    except Exception as e:
        out['build_error'] = f'{type(e).__name__}: {e}'
        out['tb'] = traceback.format_exc()[-500:]
        return out
    ts_arg = case.get('ts_arg', 'True' if case['time_series'] else 'False')
    kw = {} if ts_arg == 'omitted' else {'time_series': eval(ts_arg, {'np': np})}

    def read_and_dump():
        o = {}
        if case.get('entry', 'read_directory') == 'read_files':
            # FEMData.read_files handed the mesh / control files and then the result files in
            # the order of case['files'] (not sorted by anything)
            names = sorted(str(p) for p in d.iterdir() if '.res.' not in p.name) \
                + [str(d / f"mesh.res.0.{f['step']}") for f in case['files']]
            r = femio.FEMData.read_files('fistr', names, **kw)
        else:
            r = femio.FEMData.read_directory('fistr', str(d), read_npy=False, save=False, **kw)
        o['node_ids'] = [int(i) for i in r.nodes.ids]
        o['types'] = [[t, [int(i) for i in ids]] for t, ids in r.elements.dict_type_ids.items()]
        o['time_steps'] = r.settings.get('time_steps')
        nd, ed = [], []
        if case['time_series']:
            for k, v in r.nodal_data.items():
                if k == 'NODE':
                    continue
                a = np.asarray(v.data)
                nd.append([k, [int(i) for i in v.ids],
                           [[[tok(x) for x in np.atleast_1d(row)] for row in fr] for fr in a]])
            for k, v in r.elemental_data.items():
                a = v.data
                ed.append([k, list(v.keys()), [int(i) for i in v.ids],
                           [[[tok(x) for x in np.atleast_1d(np.asarray(row, dtype=float))] for row in fr]
                            for fr in a]])
        else:
            for k, v in r.nodal_data.items():
                if k == 'NODE':
                    continue
                nd.append([k, [[int(i), [tok(x) for x in np.atleast_1d(row)]]
                               for i, row in zip(v.ids, v.data)]])
            for k, v in r.elemental_data.items():
                ed.append([k, [[t, [[int(i), [tok(x) for x in np.atleast_1d(row)]]
                                    for i, row in zip(a.ids, a.data)]] for t, a in v.items()]])
        o['nodal'] = nd
        o['elemental'] = ed
        return o

    try:
        out.update(read_and_dump())
        if case.get('read_twice'):
            # the same query twice: the second answer must be the first
            again = read_and_dump()
            out['second_read_differs'] = any(again[k] != out[k] for k in again)
    except Exception as e:
        out['read_error'] = f'{type(e).__name__}: {e}'
        out['tb'] = traceback.format_exc()[-700:]
        return out
    if not case.get('path_key'):
        shutil.rmtree(d, ignore_errors=True)
    return out


def main():
    spec = json.loads(sys.stdin.read())
    sys.stdout = open('/dev/null', 'w')
    res = [run_case(c, spec['work']) for c in spec['cases']]
    Path(spec['out']).write_text(json.dumps(res))


if __name__ == '__main__':
    main()
