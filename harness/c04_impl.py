"""Child process for C04: builds each mesh described on stdin (JSON) with femio,
writes it as AVS UCD, reads the file back with femio and reports, per case,
the file's lines and the read-back structure.  Floats travel as float.hex()
strings (bit exact; every NaN is 'nan'), integers as Python ints."""
import json
import math
import shutil
import sys
import traceback
from pathlib import Path

import numpy as np


def fl(h):
    return float('nan') if h == 'nan' else float.fromhex(h)


def hx(x):
    x = float(x)
    return 'nan' if math.isnan(x) else x.hex()


def arr(rows, width, dtype=None):
    a = np.array([[fl(h) for h in r] for r in rows], dtype=np.float64)
    a = a.reshape(len(rows), width)
    return a.astype(dtype) if dtype and dtype != 'float64' else a


PLACEHOLDER = 7.25


def build(case, edits=None):
    """edits: None -> every table is built with its final values; a list -> tables that can be edited in
    place are built with placeholder values and (array-returning thunk, final array) pairs are appended"""
    import femio
    from femio import FEMData, FEMAttribute, FEMElementalAttribute
    from femio.fem_attributes import FEMAttributes
    nd = case['nodes']
    def staged(final, get):
        if edits is None:
            return final
        edits.append((get, final))
        return np.full(final.shape, PLACEHOLDER).astype(final.dtype)

    nodes = FEMAttribute('NODE', np.array(nd['ids'], dtype=np.int64),
                         staged(arr(nd['rows'], nd['width'], nd.get('dtype')), lambda: fd.nodes.data),
                         silent=True)
    blocks = {}
    for b in case['elems']:
        blocks[b['type']] = FEMAttribute(
            b['type'], np.array(b['ids'], dtype=np.int64), np.array(b['rows'], dtype=np.int64),
            silent=True)
    elements = FEMElementalAttribute('ELEMENT', blocks)
    fd = FEMData(nodes=nodes, elements=elements)
    if case.get('drop_NODE'):
        fd.nodal_data.pop('NODE')
    for v in case['nodal']:
        ids = np.array(v['ids'], dtype=np.int64)
        if v['kind'] == '2d':
            data = staged(arr(v['rows'], v['width'], v.get('dtype')),
                          lambda name=v['name']: fd.nodal_data[name].data)
        elif v['kind'] == '1d':
            data = np.array([fl(r[0]) for r in v['rows']], dtype=np.float64)
        else:  # '3d': (n, w, 2), not a time series of the node count
            data = np.stack([arr(v['rows'], v['width'])] * 2, axis=2)
        fd.nodal_data.update({v['name']: FEMAttribute(v['name'], ids, data, silent=True)})
    for v in case['elemental']:
        eb = {}
        for b in v['blocks']:
            ids = np.array(b['ids'], dtype=np.int64)
            if v['kind'] == '2d':
                data = arr(b['rows'], v['width'], v.get('dtype'))
                if len(v['blocks']) == 1:
                    # a single block shares its array with the variable's .data (a mixed-type
                    # variable holds a sorted object-array copy made at construction: not edited)
                    data = staged(data, lambda name=v['name'], t=b['type']:
                                  fd.elemental_data[name][t if t in fd.elemental_data[name] else 'unknown'].data)
            elif v['kind'] == '1d':
                data = np.array([fl(r[0]) for r in b['rows']], dtype=np.float64)
            else:
                data = np.stack([arr(b['rows'], v['width'])] * 2, axis=2)
            eb[b['type']] = FEMAttribute(v['name'], ids, data, silent=True)
        fd.elemental_data.update({v['name']: FEMElementalAttribute(v['name'], eb)})
    return fd


def table(ids, data):
    data = np.asarray(data)
    return [[int(i), [hx(x) for x in np.atleast_1d(r)]] for i, r in zip(ids, data)]


def itable(ids, data):
    return [[int(i), [int(x) for x in r]] for i, r in zip(ids, np.asarray(data))]


def run_case(case, work):
    import femio
    out = {'id': case['id']}
    # the file lives alone in its directory so that it can also be read with read_directory
    if case.get('path_key'):
        # same-process history stream: successive cases write and read the SAME path
        # (the file of the previous case is still there and is overwritten)
        d = Path(work) / f"shared_{case['path_key']}"
        d.mkdir(exist_ok=True)
        p = d / 'mesh.inp'
        overwrite = True
    else:
        d = Path(work) / f"c{case['id']}"
        shutil.rmtree(d, ignore_errors=True)
        d.mkdir()
        p = d / 'mesh.inp'
        overwrite = bool(case.get('overwrite', True))
    try:
        edits = [] if case.get('inplace') else None
        fd = build(case, edits)
        out['mesh_elem_ids'] = [int(i) for i in fd.elements.ids]
    except Exception as e:  # the generator produced something femio cannot hold
        out['build_error'] = f'{type(e).__name__}: {e}'
        return out
    try:
        if edits is not None:
            if case['inplace'] == 'write-edit-write':
                fd.write('ucd', str(p), overwrite=overwrite)
                overwrite = True
            for get, final in edits:
                a = get()
                assert a.shape == final.shape and a.dtype == final.dtype, (a.shape, final.shape, a.dtype, final.dtype)
                a[...] = final
        fd.write('ucd', str(p), overwrite=overwrite)
        out['lines'] = p.read_text().split('\n')
        if out['lines'] and out['lines'][-1] == '':
            out['lines'].pop()
    except Exception as e:
        out['write_error'] = f'{type(e).__name__}: {e}'
        out['write_tb'] = traceback.format_exc()[-600:]
        return out

    def read_and_dump():
        if case.get('reader') == 'directory':
            r = femio.FEMData.read_directory('ucd', str(d), read_npy=False, save=False)
        else:
            r = femio.FEMData.read_files('ucd', [str(p)])
        return {
            'nodes': table(r.nodes.ids, r.nodes.data),
            'elems': [[t, itable(v.ids, v.data)] for t, v in r.elements.items()],
            'nodal': [[k, table(v.ids, v.data)] for k, v in r.nodal_data.items()],
            'elemental': [[k, table(v.ids, v.data)] for k, v in r.elemental_data.items()],
            'elemental_types': [[k, list(v.keys())] for k, v in r.elemental_data.items()],
        }
    try:
        out['read'] = read_and_dump()
        if case.get('read_twice'):
            out['second_read_differs'] = read_and_dump() != out['read']
    except Exception as e:
        out['read_error'] = f'{type(e).__name__}: {e}'
        out['read_tb'] = traceback.format_exc()[-600:]
    return out


def main():
    spec = json.loads(sys.stdin.read())
    sys.stdout = open('/dev/null', 'w')   # femio prints a lot
    res = [run_case(c, spec['work']) for c in spec['cases']]
    Path(spec['out']).write_text(json.dumps(res))


if __name__ == '__main__':
    main()
