"""Mesh generators for C11/C18 (independent of femio's own generators).

Lattice cells decomposed into positively oriented (femio convention) hex / 2
prisms / 3 pyramids / 6 tets, shells of tri/quad/polygon cells, hexagonal
prisms; integer affine images; sparse / unsorted / large ids; shuffled storage;
unreferenced nodes.  Every random choice comes from the rng passed in."""
from fractions import Fraction
from itertools import permutations

# corners of the unit cube in femio/FrontISTR hex order
HEXV = [(0, 0, 0), (1, 0, 0), (1, 1, 0), (0, 1, 0), (0, 0, 1), (1, 0, 1), (1, 1, 1), (0, 1, 1)]
REF_VOL = {'hex': Fraction(1), 'prism': Fraction(1, 2), 'pyr': Fraction(1, 3),
           'tet': Fraction(1, 6), 'hexprism': Fraction(3)}


def _perm_sign(p):
    s = 1
    p = list(p)
    for i in range(len(p)):
        for j in range(i + 1, len(p)):
            if p[i] > p[j]:
                s = -s
    return s


def cell_elements(kind):
    """list of (type, [corner triples]) for one unit cube, positive orientation"""
    v = HEXV
    if kind == 'hex':
        return [('hex', list(v))]
    if kind == 'prism':
        return [('prism', [v[0], v[3], v[1], v[4], v[7], v[5]]),
                ('prism', [v[1], v[3], v[2], v[5], v[7], v[6]])]
    if kind == 'pyr':
        return [('pyr', [v[1], v[5], v[6], v[2], v[0]]),
                ('pyr', [v[3], v[2], v[6], v[7], v[0]]),
                ('pyr', [v[4], v[7], v[6], v[5], v[0]])]
    if kind == 'tet':
        out = []
        for p in permutations(range(3)):
            a = [0, 0, 0]
            a[p[0]] = 1
            b = list(a)
            b[p[1]] = 1
            a, b = tuple(a), tuple(b)
            if _perm_sign(p) > 0:
                out.append(('tet', [(0, 0, 0), a, b, (1, 1, 1)]))
            else:
                out.append(('tet', [(0, 0, 0), b, a, (1, 1, 1)]))
        return out
    raise AssertionError(kind)


MATRICES = [
    ('identity', [[1, 0, 0], [0, 1, 0], [0, 0, 1]]),
    ('rot90z', [[0, -1, 0], [1, 0, 0], [0, 0, 1]]),
    ('rotscale3', [[1, 2, 2], [2, 1, -2], [-2, 2, -1]]),
    ('cyclic', [[0, 0, 1], [1, 0, 0], [0, 1, 0]]),
    ('shear', [[1, 1, 0], [0, 1, 0], [0, 0, 1]]),
    ('shear2', [[1, 0, 2], [0, 1, 1], [0, 0, 1]]),
    ('reflect_z', [[1, 0, 0], [0, 1, 0], [0, 0, -1]]),
    ('reflect_swap', [[0, 1, 0], [1, 0, 0], [0, 0, 1]]),
    ('scale2', [[2, 0, 0], [0, 2, 0], [0, 0, 2]]),
    ('aniso', [[2, 0, 0], [0, 1, 0], [0, 0, 1]]),
    ('general', [[1, 1, 0], [-1, 1, 1], [0, 1, 2]]),
]


def det3(m):
    return (m[0][0] * (m[1][1] * m[2][2] - m[1][2] * m[2][1])
            - m[0][1] * (m[1][0] * m[2][2] - m[1][2] * m[2][0])
            + m[0][2] * (m[1][0] * m[2][1] - m[1][1] * m[2][0]))


def apply_aff(m, t, p):
    return [sum(m[i][j] * p[j] for j in range(3)) + t[i] for i in range(3)]


def similarity_scale2(m):
    """s^2 if M M^T = s^2 I else None"""
    g = [[sum(m[i][k] * m[j][k] for k in range(3)) for j in range(3)] for i in range(3)]
    s2 = g[0][0]
    for i in range(3):
        for j in range(3):
            if g[i][j] != (s2 if i == j else 0):
                return None
    return s2


def label(rng, n, mode):
    """n distinct ids"""
    if mode == 'seq':
        return list(range(1, n + 1))
    if mode == 'sparse':
        return sorted(rng.sample(range(1, 12 * n + 10), n))
    if mode == 'unsorted':
        ids = rng.sample(range(1, 12 * n + 10), n)
        return ids
    if mode == 'huge':         # just below 2**53: ids that do not survive a trip through binary32/int32
        base = 2 ** 53 - 10 ** 6 + rng.randrange(10 ** 5)
        return rng.sample(range(base, base + 5 * n + 10), n)
    if mode == 'large':
        base = 2 ** 31 + rng.randrange(10 ** 6)
        ids = rng.sample(range(base, base + 5 * n + 10), n)
        return ids
    if mode in PATTERN_MODES:
        base = 1 if mode.startswith('dense1') or mode in ('adjacent_swap', 'reversed') else \
            rng.randrange(2, 500)
        ids = list(range(base, base + n))
        if mode in ('dense1_ends', 'denseA_ends'):
            mid = ids[1:-1]
            rng.shuffle(mid)
            if n > 3 and mid == ids[1:-1]:
                mid[0], mid[-1] = mid[-1], mid[0]
            ids = ids[:1] + mid + ids[-1:]
        elif mode == 'adjacent_swap' and n >= 2:
            k = rng.randrange(0, n - 1) if n < 4 else rng.randrange(1, n - 2)
            ids[k], ids[k + 1] = ids[k + 1], ids[k]
        elif mode == 'reversed':
            ids.reverse()
        elif mode == 'one_moved' and n >= 3:
            x = ids.pop(rng.randrange(1, n - 1))
            ids.insert(rng.randrange(1, n - 1), x)
        return ids
    raise AssertionError(mode)


# ids given directly in STORAGE order (no further shuffling): dense ranges that are
# almost sorted -- ends in place + interior shuffled, two neighbours swapped,
# reversed, one id moved
PATTERN_MODES = ('dense1_ends', 'denseA_ends', 'adjacent_swap', 'reversed', 'one_moved')


def finalize(rng, pts, elems, opts):
    """pts: list of lattice points (tuples) in creation order; elems: list of
    (type, [point index], expected_metric or None).  Returns the mesh dict."""
    name, m = opts['matrix']
    t = opts['t']
    jit = opts.get('jitter')
    coords = []
    for p in pts:
        q = apply_aff(m, t, p)
        if jit:
            q = [q[i] + rng.choice([-1, 0, 0, 1]) for i in range(3)]
        coords.append(q)
    n = len(pts)
    # unreferenced nodes
    n_extra = opts.get('extra_nodes', 0)
    for _ in range(n_extra):
        coords.append([rng.randrange(-5, 6) for _ in range(3)])
    nid = label(rng, n + n_extra, opts['node_ids'])
    order = list(range(n + n_extra))
    # unreferenced nodes stored last (default), first or in the middle
    place = opts.get('extra_place', 'last')
    if n_extra and place != 'last':
        ex = order[n:]
        order = ex + order[:n] if place == 'first' else order[:n // 2] + ex + order[n // 2:n]
    if opts.get('shuffle_nodes') and opts['node_ids'] not in PATTERN_MODES:
        rng.shuffle(order)
    node_ids = [nid[i] for i in order]
    node_coords = [coords[i] for i in order]
    # elements
    eid = label(rng, len(elems), opts['elem_ids'])
    pattern_elems = opts['elem_ids'] in PATTERN_MODES
    if opts.get('interleave', True) and opts['elem_ids'] != 'seq' and not pattern_elems:
        rng.shuffle(eid)
    blocks = {}
    expected = {}
    geom = {}
    for k, (ty, conn, exp) in enumerate(elems):
        blocks.setdefault(ty, []).append((eid[k], [nid[i] for i in conn]))
        expected[eid[k]] = exp
        geom[eid[k]] = (ty, [coords[i] for i in conn])
    out_blocks = []
    unsorted_block = False
    for ty, rows in blocks.items():
        if pattern_elems:
            pass                       # keep the pattern as the storage order
        elif opts.get('shuffle_elems'):
            rng.shuffle(rows)
        else:
            rows.sort()
        if [r[0] for r in rows] != sorted(r[0] for r in rows):
            unsorted_block = True
        out_blocks.append([ty, [r[0] for r in rows], [r[1] for r in rows]])
    return {'node_ids': node_ids, 'coords': node_coords, 'blocks': out_blocks,
            'meta': {'matrix': name, 'M': m, 't': t, 'det': det3(m), 'jitter': bool(jit),
                     'sim2': similarity_scale2(m),
                     'node_ids': opts['node_ids'], 'elem_ids': opts['elem_ids'],
                     'shuffle_nodes': bool(opts.get('shuffle_nodes')),
                     'shuffle_elems': bool(opts.get('shuffle_elems')),
                     'unsorted_block': unsorted_block, 'mixed': len(out_blocks) > 1,
                     'extra_nodes': n_extra,
                     'expected': {str(k): (None if v is None else [v.numerator, v.denominator])
                                  for k, v in expected.items()},
                     'geom': {str(k): v for k, v in geom.items()}}}


def solid_mesh(rng, kinds, opts, dims=None):
    nx, ny, nz = dims or (rng.randint(1, 3), rng.randint(1, 2), rng.randint(1, 2))
    scale = 3 if opts.get('jitter') else 1
    pts, index, elems = [], {}, []

    def pid(p):
        if p not in index:
            index[p] = len(pts)
            pts.append(p)
        return index[p]
    d = Fraction(det3(opts['matrix'][1])) * scale ** 3
    for i in range(nx):
        for j in range(ny):
            for k in range(nz):
                kind = rng.choice(kinds)
                for ty, corners in cell_elements(kind):
                    conn = [pid(((i + c[0]) * scale, (j + c[1]) * scale, (k + c[2]) * scale))
                            for c in corners]
                    exp = None if opts.get('jitter') else d * REF_VOL[ty]
                    elems.append((ty, conn, exp))
    mesh = finalize(rng, pts, elems, opts)
    mesh['meta']['box_volume'] = None if opts.get('jitter') else \
        [int(d * nx * ny * nz), 1]
    mesh['meta']['dim'] = 3
    mesh['meta']['kinds'] = kinds
    return mesh


def hexprism_mesh(rng, opts):
    """stack of affine-regular hexagonal prisms: hexagon u, v, v-u, -u, -v, u-v"""
    hexagon = [(1, 0), (0, 1), (-1, 1), (-1, 0), (0, -1), (1, -1)]
    pts, index, elems = [], {}, []

    def pid(p):
        if p not in index:
            index[p] = len(pts)
            pts.append(p)
        return index[p]
    d = Fraction(det3(opts['matrix'][1]))
    for layer in range(rng.randint(1, 3)):
        for cx in range(rng.randint(1, 2)):
            ox = 3 * cx
            conn = [pid((ox + h[0], h[1], layer)) for h in hexagon] + \
                   [pid((ox + h[0], h[1], layer + 1)) for h in hexagon]
            elems.append(('hexprism', conn, None if opts.get('jitter') else d * 3))
    mesh = finalize(rng, pts, elems, opts)
    mesh['meta']['dim'] = 3
    mesh['meta']['kinds'] = ['hexprism']
    mesh['meta']['box_volume'] = None
    return mesh


FRUSTA = {   # planar-faced, NOT affine images of the reference element; exact volumes
    'hex': ([(0, 0, 0), (2, 0, 0), (2, 2, 0), (0, 2, 0), (0, 0, 1), (1, 0, 1), (1, 1, 1), (0, 1, 1)],
            Fraction(7, 3)),
    'prism': ([(0, 0, 0), (0, 2, 0), (2, 0, 0), (0, 0, 1), (0, 1, 1), (1, 0, 1)], Fraction(7, 6)),
    'pyr': ([(0, 0, 0), (2, 0, 0), (1, 1, 0), (0, 1, 0), (0, 0, 1)], Fraction(1, 2)),
}


def frustum_mesh(rng, kinds, opts):
    pts, index, elems = [], {}, []

    def pid(p):
        if p not in index:
            index[p] = len(pts)
            pts.append(p)
        return index[p]
    d = Fraction(det3(opts['matrix'][1]))
    for k in range(rng.randint(1, 3)):
        ty = rng.choice(kinds)
        corners, vol = FRUSTA[ty]
        conn = [pid((c[0] + 3 * k, c[1], c[2])) for c in corners]
        elems.append((ty, conn, d * vol))
    opts = dict(opts, jitter=False)
    mesh = finalize(rng, pts, elems, opts)
    mesh['meta']['dim'] = 3
    mesh['meta']['kinds'] = sorted(set(e[0] for e in elems))
    mesh['meta']['box_volume'] = None
    mesh['meta']['frustum'] = True
    return mesh


def shoelace(poly):
    return Fraction(sum(poly[k - 1][0] * poly[k][1] - poly[k][0] * poly[k - 1][1]
                        for k in range(len(poly))), 2)


_POLYS = [   # planar lattice polygons (counter-clockwise)
    [(0, 0), (1, 0), (2, 0), (2, 1), (1, 1), (0, 1)],          # hexagon with collinear points
    [(0, 0), (2, 0), (2, 1), (1, 1), (1, 2), (0, 2)],          # L-shape (non-convex)
    [(0, 0), (2, 0), (3, 1), (2, 2), (0, 2), (-1, 1)],         # convex hexagon
    [(0, 0), (2, 0), (2, 1), (1, 2), (0, 1)],                  # pentagon
    [(0, 0), (1, 0), (1, 1), (0, 1)],                          # 4-gon
    [(0, 0), (2, 0), (1, 2)],                                  # 3-gon
]
POLYGONS = [(p, shoelace(p)) for p in _POLYS]


def shell_mesh(rng, kinds, opts, dims=None):
    """kinds subset of tri, quad, polygon; cells in the z = 0 lattice plane"""
    nx, ny = dims or (rng.randint(1, 3), rng.randint(1, 3))
    scale = 3 if opts.get('jitter') else 1
    pts, index, elems = [], {}, []

    def pid(p):
        if p not in index:
            index[p] = len(pts)
            pts.append(p)
        return index[p]
    m = opts['matrix'][1]
    # area scale for the plane z = 0: |M e_x x M e_y|^2 (exact), sqrt only if square
    ex = [m[0][0], m[1][0], m[2][0]]
    ey = [m[0][1], m[1][1], m[2][1]]
    cr = [ex[1] * ey[2] - ex[2] * ey[1], ex[2] * ey[0] - ex[0] * ey[2], ex[0] * ey[1] - ex[1] * ey[0]]
    a2 = sum(c * c for c in cr) * scale ** 4
    polys = None
    if 'polygon' in kinds:
        if opts.get('ragged'):
            polys = list(POLYGONS)
        else:
            nv = rng.choice([6, 6, 5, 4])
            polys = [p for p in POLYGONS if len(p[0]) == nv]
    for i in range(nx):
        for j in range(ny):
            kind = rng.choice(kinds)
            ox, oy = 4 * i, 4 * j
            if kind == 'quad':
                cs = [([(0, 0), (1, 0), (1, 1), (0, 1)], Fraction(1))]
                ty = 'quad'
            elif kind == 'tri':
                cs = [([(0, 0), (1, 0), (1, 1)], Fraction(1, 2)), ([(0, 0), (1, 1), (0, 1)], Fraction(1, 2))]
                ty = 'tri'
            else:
                cs = [rng.choice(polys)]
                ty = 'polygon'
            for poly, area in cs:
                conn = [pid(((ox + x) * scale, (oy + y) * scale, 0)) for x, y in poly]
                # expected area^2 (exact) for planar un-jittered cells
                exp = None if opts.get('jitter') else area * area * a2
                elems.append((ty, conn, exp))
    mesh = finalize(rng, pts, elems, opts)
    mesh['meta']['dim'] = 2
    mesh['meta']['kinds'] = kinds
    mesh['meta']['expected_is_area_squared'] = True
    mesh['meta']['normal'] = cr
    return mesh


def random_opts(rng, jitter_ok=True):
    jitter = jitter_ok and rng.random() < 0.3
    if jitter:
        mats = [x for x in MATRICES if x[0] in ('identity', 'rot90z', 'cyclic', 'reflect_z', 'reflect_swap')]
    else:
        mats = MATRICES
    return {
        'matrix': rng.choice(mats),
        't': [rng.randrange(-2, 3) for _ in range(3)],
        'jitter': jitter,
        'node_ids': rng.choice(['seq', 'sparse', 'unsorted', 'unsorted', 'large'] + list(PATTERN_MODES)),
        'elem_ids': rng.choice(['seq', 'sparse', 'unsorted', 'large'] + list(PATTERN_MODES)),
        'shuffle_nodes': rng.random() < 0.6,
        'shuffle_elems': rng.random() < 0.5,
        'extra_nodes': rng.choice([0, 0, 1, 3]),
        'extra_place': rng.choice(['last', 'first', 'middle']),
    }
