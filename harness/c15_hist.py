"""C15 — same-object stream.

The property's third clause (convenience functions = explicit matrices applied
by hand, for every option combination) and the second (affine exactness) are
statements about each CALL, whatever was called on the object before.  The
model is a pure function of (mesh, options, data); this stream checks that the
implementation is one too: on ONE FEMData object the convenience functions
(and the explicit builder) are called several times in sequence with option
VALUES that change while the option NAMES stay the same (moment_matrix,
consider_volume, use_effective_volume, n_hop, kernel, alpha), and every step
is compared with
  * the explicit matrices built on a fresh equal object, applied by hand
    (exact, on the returned floats; all kernels)            -> oracle
  * the true gradient of the affine column (moment steps)   -> oracle
  * the Coq model of the convenience function (kernel=None) -> correspondence
"""
from fractions import Fraction as Fr

import c15_gen as G

JSON_KEYS = ('etype', 'node_ids', 'xyz', 'elem_ids', 'conn')


OTHER_CALLS = ['volumes', 'metrics', 'adj_node', 'adj_elem', 'n_hop_self', 'incidence', 'grad_incidence',
               'n2e', 'e2n', 'laplacian', 'edge_gradient', 'surface_normals', 'bad_kernel']


def kw_tuple(kw):
    return tuple(sorted((k, repr(v)) for k, v in kw.items()))


def make_sequence(rng, mesh, mode, length, well_fn, alpha_scales, second_order=False):
    """random walk over option values; `well_fn(kw)` says whether the moment
    matrix may be used with these options.  On second-order meshes the walk
    also toggles order1_only and starts with True, False, True (both orders)."""
    kw = dict(mode=mode, n_hop=1, consider_volume=rng.random() < 0.5, use_effective_volume=True,
              moment_matrix=rng.random() < 0.5)
    if second_order:
        kw['order1_only'] = True
        kw['moment_matrix'] = True
    if kw['moment_matrix'] and not well_fn(kw):
        kw['moment_matrix'] = False
    seen = []
    steps = []
    for k in range(length):
        if k > 0 and second_order and k < 3:
            kw = dict(kw, order1_only=not kw['order1_only'], moment_matrix=True)
            if not well_fn(kw):
                kw['moment_matrix'] = False
        elif k > 0:
            moves = ['moment'] * 4 + ['volume'] * 3 + ['hop'] * 2 + ['kernel'] * 2 + ['revisit'] * 2
            if kw.get('kernel'):
                moves += ['alpha'] * 4
            if mode == 'nodal' and kw['consider_volume'] and not second_order:
                moves += ['effective'] * 2
            if second_order:
                moves += ['order1'] * 5
            mv = rng.choice(moves)
            kw = dict(kw)
            if mv == 'moment':
                kw['moment_matrix'] = not kw['moment_matrix']
            elif mv == 'order1':
                kw['order1_only'] = not kw['order1_only']
            elif mv == 'volume':
                kw['consider_volume'] = not kw['consider_volume']
            elif mv == 'effective':
                kw['use_effective_volume'] = not kw['use_effective_volume']
            elif mv == 'hop':
                kw['n_hop'] = rng.choice([h for h in (1, 2, 3) if h != kw['n_hop']])
            elif mv == 'kernel':
                if kw.get('kernel'):
                    kw.pop('kernel')
                    kw.pop('alpha')
                else:
                    kw['kernel'] = rng.choice(['exp', 'gauss'])
                    kw['alpha'] = alpha_scales[kw['kernel']] * rng.choice([0.5, 1.0])
            elif mv == 'alpha':
                # stay within [1/8, 8] x the mesh-adapted scale (beyond that the
                # weights underflow and the moment matrix becomes singular)
                base = alpha_scales[kw['kernel']]
                f = kw['alpha'] / base * rng.choice([0.25, 4.0, 8.0])
                if not (0.124 <= f <= 8.01):
                    f = rng.choice([0.125, 0.5, 2.0, 8.0])
                if abs(f * base - kw['alpha']) < 1e-12 * kw['alpha']:
                    f = f / 2
                kw['alpha'] = f * base
            elif mv == 'revisit' and seen:
                kw = dict(rng.choice(seen))
            if kw['moment_matrix'] and not well_fn(kw):
                kw['moment_matrix'] = False
        seen.append(dict(kw))
        if k > 0 and rng.random() < 0.35:
            # another public query between two operator builds (rotating subset)
            steps.append({'kind': 'call', 'name': rng.choice(OTHER_CALLS), 'mode': mode})
        kind = 'conv' if (k == 0 or rng.random() < 0.8) else 'matrices'
        st = {'kind': kind, 'kw': dict(kw)}
        if kind == 'conv':
            st['g'] = [rng.randint(-5, 5) for _ in range(3)]
            if not any(st['g']):
                st['g'][0] = 1
            st['c'] = rng.randint(-20, 20)
        steps.append(st)
    return steps


def attach_data(rng, st, P_all):
    """column 0 = the affine field g.x + c at the positions of ALL vertices the
    convenience function expects data for, column 1 = random integers"""
    st['data'] = [[sum(Fr(gg) * p for gg, p in zip(st['g'], P_all[j])) + st['c'],
                   Fr(rng.randint(-9, 9))] for j in range(len(P_all))]


def json_steps(steps):
    out = []
    for st in steps:
        if st['kind'] == 'call':
            out.append({k: st[k] for k in ('kind', 'name', 'mode', 'obj') if k in st})
            continue
        d = {'kind': st['kind'], 'kw': st['kw']}
        if 'obj' in st:
            d['obj'] = st['obj']
        if st['kind'] == 'conv':
            d['data'] = [[float(x) for x in r] for r in st['data']]     # exact (dyadic)
            d['g'], d['c'] = st['g'], st['c']
        out.append(d)
    return out


def check_step(st, out, ref, P, well_step, rows_from_coo, fr_hex):
    """-> list of (check, detail) for one step of a sequence.
    out = implementation output of the step (same object);
    ref = matrices of a FRESH object built with the same options"""
    n = len(P)
    if st['kind'] == 'call':
        return []
    if 'error' in ref:
        return []            # a fresh object raises as well: nothing to compare (the main stream reports)
    if 'error' in out:
        return [('raised-history', {'error': out['error']})]
    rows3 = [rows_from_coo(A, n) for A in ref['matrices']]
    bad = []
    if st['kind'] == 'matrices':
        got3 = [rows_from_coo(A, n) for A in out['matrices']]
        for a in range(3):
            for i in range(n):
                d1, d2 = dict(rows3[a][i]), dict(got3[a][i])
                sc = max([abs(x) for x in d1.values()] + [Fr(1)])
                for j in set(d1) | set(d2):
                    if abs(d1.get(j, 0) - d2.get(j, 0)) > Fr(1, 2 ** 40) * sc:
                        return [('matrices-history', {'axis': a, 'row': i, 'col': j,
                                                      'fresh_object': float(d1.get(j, 0)),
                                                      'same_object': float(d2.get(j, 0))})]
        return bad
    data = st.get('data_eff', st['data'])
    nfeat = len(data[0])
    if out['shape'] != [n, 3, nfeat]:
        return [('convenience-history', {'shape': out['shape'], 'expected_shape': [n, 3, nfeat]})]
    gr = [fr_hex(h) for h in out['grad']]
    dmax = max(abs(x) for r in data for x in r)
    for i in range(n):
        for a in range(3):
            row = rows3[a][i]
            an = sum(abs(x) for _, x in row)
            for k in range(nfeat):
                val = sum(x * data[j][k] for j, x in row)
                ret = gr[(i * 3 + a) * nfeat + k]
                if abs(val - ret) > Fr(1, 2 ** 40) * (an * dmax + Fr(1, 2 ** 20)):
                    bad.append(('convenience-history',
                                {'vertex': i, 'axis': a, 'feature': k,
                                 'fresh_matrices_by_hand': float(val), 'returned': float(ret)}))
                    break
            if bad:
                break
        if bad:
            break
    if st['kw']['moment_matrix'] and well_step:
        fmax = max(abs(r[0]) for r in data)
        gmax = max(abs(x) for x in st['g'])
        for i in range(n):
            for a in range(3):
                an = sum(abs(x) for _, x in rows3[a][i])
                ret = gr[(i * 3 + a) * nfeat + 0]
                if abs(ret - st['g'][a]) > Fr(1, 10 ** 9) * (gmax + an * fmax):
                    bad.append(('affine-exact-history',
                                {'vertex': i, 'axis': a, 'g': st['g'], 'c': st['c'],
                                 'returned': float(ret), 'true': st['g'][a]}))
                    return bad
    return bad
