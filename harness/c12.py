"""C12 — signed cell-facet incidence obeys the discrete divergence theorem.

run:  python harness/c12.py quick|thorough     |   python harness/c12.py replay <file>
"""
import json
import re
import subprocess
import sys
import time
from fractions import Fraction
from pathlib import Path

sys.path.insert(0, str(Path(__file__).resolve().parent))
sys.path.insert(0, str(Path(__file__).resolve().parent.parent / 'translate'))
import lib  # noqa
import c10  # noqa  (literals, impl runner, face cycles)
import c10_gen  # noqa
import c10_tables  # noqa

PID = 'C12'
CHECKS = ['facet_mesh', 'incidence_triples', 'shape', 'row_order', 'normals', 'areas', 'cell_volumes',
          'wf_mesh', 'oriented_conforming', 'cells_meet_in_faces', 'cells_outward',
          'model_structure', 'model_opposite_signs', 'model_div_area', 'model_div_volume']
# baseline face tables (last successful translation of the registered tree): C10's committed copy, else ours
BASELINES = [lib.COQ / 'C10' / 'gen_baseline' / 'FaceTables.v', lib.COQ / 'C12' / 'baseline' / 'FaceTables.v.txt']
HEADER = ['From Coq Require Import List ZArith Bool Arith.', 'Import ListNotations.',
          'From FV.C10 Require Import Model Corr.', 'From FV.C12 Require Import Model Corr.',
          'Open Scope Z_scope.', 'Set Printing Width 100000.', 'Set Printing Depth 100000.']


SPEC_KEYS = ('id', 'nodes', 'blocks', 'want', 'scale', 'offset', 'move', 'moved_blocks', 'dtype', 'prelude',
             'mid_prelude')


def run_impl(ctx, cases, tag='impl'):
    """femio in a child process (harness/c12_impl.py = c10_impl's case runner + queries on the same object
    before the query under test)"""
    spec = {'work': str(ctx.scratch / 'work'), 'out': str(ctx.scratch / f'{tag}_out.json'), 'probes': [],
            'cases': [{k: c[k] for k in SPEC_KEYS if k in c} for c in cases]}
    sp = ctx.scratch / f'{tag}_spec.json'
    sp.write_text(json.dumps(spec))
    r = subprocess.run([lib.PY, str(lib.VERIF / 'harness' / 'c12_impl.py'), str(sp)],
                       text=True, capture_output=True, env=lib.impl_env(), timeout=2400)
    if r.returncode != 0:
        raise RuntimeError('impl runner failed: ' + r.stderr[-2000:])
    return {x['id']: x for x in json.loads(Path(spec['out']).read_text())}


def case_checks(case, r):
    i = case['id']
    defs = [f'Definition m{i} : mesh := {c10.mesh_literal(case)}.',
            f'Definition nd{i} : list (Z * C3) := {c10.nodes_literal(case)}.',
            f'Definition pos{i} := pos_of nd{i}.']
    inc = r.get('incidence')
    valid = case.get('valid', True)
    out = []
    if inc is None or c10.is_err(inc):
        out += ['false'] * 7 if valid else ['true'] * 7
    else:
        fe = inc['facets']
        if set(fe) - {'tri', 'quad'}:
            out.append('false')
        else:
            t_ = fe.get('tri', {'ids': [], 'data': []})
            q_ = fe.get('quad', {'ids': [], 'data': []})
            out.append(f'check_facets m{i} {c10.numbered(t_["ids"], t_["data"])} '
                       f'{c10.numbered(q_["ids"], q_["data"])}')
        tr = lib.coq_list(['(%d%%nat, %d%%nat, %s)' % (a, b, lib.coq_Z(v)) for a, b, v in inc['triples']])
        defs.append(f'Definition tr{i} : list (nat * nat * Z) := {tr}.')
        out.append(f'check_incidence pos{i} m{i} tr{i}')
        out.append(f'check_shape m{i} {inc["shape"][0]}%nat {inc["shape"][1]}%nat')
        out.append(f'check_rows m{i} {c10.zl(inc["cell_ids"])}')
        ns = lib.coq_list([lib.coq_list(['(%s, %s)' % (lib.coq_Z(a), lib.coq_Z(b)) for a, b in row])
                           for row in inc['normals']])
        defs.append(f'Definition ns{i} : list (list (Z * Z)) := {ns}.')
        # float32 coordinates: the kernels then work in float32 (unit / direction to ~1e-7 only): judged by
        # the oracle with a float32 tolerance, not by the 2^-40 check
        f32 = case.get('dtype') == 'float32'
        out.append('true' if f32 else f'check_normals pos{i} m{i} ns{i}')
        if inc.get('areas') is not None and not f32:
            ar = lib.coq_list(['(%s, %s)' % (lib.coq_Z(a), lib.coq_Z(b))
                               for a, b in (c10.unscale(x, case, 2) for x in inc['areas'])])
            out.append(f'check_areas pos{i} m{i} {ar}')
        else:
            out.append('true')
        vs = inc.get('volumes')
        if vs is None or case.get('offset') or not valid:
            out.append('true')      # far from the origin femio's float32 volume kernels are not accurate
        elif c10.is_err(vs):
            out.append('false')
        else:
            vl = lib.coq_list(['(%s, %s)' % (lib.coq_Z(a), lib.coq_Z(b))
                               for a, b in (c10.unscale(x, case, 3) for x in vs)])
            out.append(f'check_cell_volumes pos{i} m{i} {vl}')
    if valid:
        out += [f'wf_mesh m{i}', f'oriented_conforming m{i}', f'cells_meet_in_faces m{i}',
                f'model_cells_outward pos{i} m{i}', f'model_structure m{i}',
                f'model_opposite pos{i} m{i}', f'model_div_area pos{i} m{i}',
                f'model_div_volume pos{i} m{i}']
    else:
        out += ['true'] * 8
    assert len(out) == len(CHECKS)
    return defs, out


def run_coq_cases(ctx, cases, res, name, chunk=20):
    failing = {}
    procs = []
    chunks = [cases[k:k + chunk] for k in range(0, len(cases), chunk)]
    for ci, ch in enumerate(chunks):
        txt = list(HEADER)
        items = []
        for c in ch:
            defs, checks = case_checks(c, res[c['id']])
            txt += defs
            txt.append(f'Definition r{c["id"]} : list bool := {lib.coq_list(checks)}.')
            items.append(f'({c["id"]}%nat, r{c["id"]})')
        txt.append(f'Definition allr : list (nat * list bool) := {lib.coq_list(items)}.')
        txt.append('Goal True. idtac "@@ failing". Abort.')
        txt.append('Eval vm_compute in report allr.')
        f = ctx.scratch / f'{name}_{ci}.v'
        f.write_text('\n'.join(txt) + '\n')
        procs.append((ch, f, subprocess.Popen(
            ['timeout', '900', 'coqc', '-Q', str(lib.COQ), 'FV', '-Q', str(f.parent), 'Scratch', str(f)],
            cwd=f.parent, stdout=subprocess.PIPE, stderr=subprocess.PIPE, text=True)))
        if len(procs) >= 8:
            _collect(procs, failing, ctx)
            procs = []
    _collect(procs, failing, ctx)
    return failing


def _collect(procs, failing, ctx):
    for ch, f, p in procs:
        out, err = p.communicate()
        if p.returncode != 0:
            ctx.log('scratch file failed:', f.name, err[-400:])
            for c in ch:
                failing[c['id']] = None
            continue
        t = lib.parse_marked(out).get('failing', '').split(': list')[0]
        for a, b in re.findall(r'\((\d+)(?:%nat)?,\s*(\d+)(?:%nat)?\)', t):
            failing.setdefault(int(a), []).append(CHECKS[int(b)])


# ------------------------------------------------- property oracle (exact)
def varea2(pts):
    a = [0, 0, 0]
    for p, q in zip(pts, pts[1:] + pts[:1]):
        a[0] += p[1] * q[2] - p[2] * q[1]
        a[1] += p[2] * q[0] - p[0] * q[2]
        a[2] += p[0] * q[1] - p[1] * q[0]
    return a


def oracle(case, r):
    bad = []
    inc = r.get('incidence')
    if inc is None:
        return bad
    if c10.is_err(inc):
        return [('raises', inc.get('msg'))]
    xyz = {n[0]: n[1] for n in case['nodes']}
    conn_of, typ_of = {}, {}
    for typ, es in case['blocks'].items():
        for eid, conn in es:
            conn_of[eid] = conn
            typ_of[eid] = typ
    cell_ids = inc['cell_ids']
    facets = []
    for k in ('tri', 'quad'):
        e = inc['facets'].get(k)
        if e:
            facets += [tuple(d) for d in e['data']]
    if len(facets) != inc['shape'][1] or len(cell_ids) != inc['shape'][0]:
        return [('shape', inc['shape'])]
    fkeys = [tuple(sorted(f)) for f in facets]
    if len(set(fkeys)) != len(fkeys):
        bad.append(('duplicate_facets', None))
    rows = {}
    cols = {}
    for a, b, v in inc['triples']:
        rows.setdefault(a, []).append((b, v))
        cols.setdefault(b, []).append((a, v))
        if v not in (1, -1):
            bad.append(('value_not_pm1', [a, b, v]))
    all_face_keys = set()
    for ci, eid in enumerate(cell_ids):
        conn, typ = conn_of[eid], typ_of[eid]
        nc = c10.N_CORNER[typ]
        own = {tuple(sorted(conn[k] for k in cyc)): tuple(conn[k] for k in cyc)
               for cyc in c10.FACE_CYCLES[typ]}
        all_face_keys |= set(own)
        got = {fkeys[j] for j, _ in rows.get(ci, [])}
        if got != set(own) or len(rows.get(ci, [])) != len(own):
            bad.append(('cell_not_incident_to_exactly_its_faces',
                        {'element': eid, 'n_incident': len(rows.get(ci, [])), 'n_faces': len(own)}))
            continue
        cc = [Fraction(sum(xyz[i][k] for i in conn[:nc]), nc) for k in range(3)]
        sA = [Fraction(0)] * 3
        sV = Fraction(0)
        for j, v in rows[ci]:
            f = facets[j]
            pts = [xyz[i] for i in f]
            A2 = varea2(pts)
            fc = [Fraction(sum(p[k] for p in pts), len(pts)) for k in range(3)]
            d = sum((fc[k] - cc[k]) * A2[k] for k in range(3))
            if d == 0 or (d > 0) != (v > 0):
                bad.append(('sign_is_not_the_outward_orientation',
                            {'element': eid, 'facet': list(f), 'sign': v, 'dot_sign': (d > 0) - (d < 0)}))
            for k in range(3):
                sA[k] += v * Fraction(A2[k], 2)
            sV += v * sum(Fraction(A2[k], 2) * fc[k] for k in range(3))
        if any(x != 0 for x in sA):
            bad.append(('signed_areas_do_not_sum_to_zero', {'element': eid, 'sum': [str(x) for x in sA]}))
        vol = Fraction(c10_gen.vol6(typ, [xyz[i] for i in conn]), 6)
        planar = case['meta'].get('warp') != 'twist'
        if planar and sV / 3 != vol:
            bad.append(('divergence_volume', {'element': eid, 'third_of_sum': str(sV / 3), 'volume': str(vol)}))
    # closure and volume identity with the implementation's OWN areas, normals and cell volumes
    areas = inc.get('areas')
    if areas is not None and len(areas) == len(facets) and len(inc['normals']) == len(facets):
        ar = [Fraction(*c10.unscale(x, case, 2)) for x in areas]
        nr = [[Fraction(*x) for x in row] for row in inc['normals']]
        vols = inc.get('volumes')
        for ci, eid in enumerate(cell_ids):
            if ci not in rows:
                continue
            tot = [Fraction(0)] * 3
            sa = Fraction(0)
            sv = Fraction(0)
            for j, v in rows[ci]:
                pts = [xyz[i] for i in facets[j]]
                fc = [Fraction(sum(p[k] for p in pts), len(pts)) for k in range(3)]
                for k in range(3):
                    tot[k] += v * ar[j] * nr[j][k]
                sa += ar[j]
                sv += v * ar[j] * sum(nr[j][k] * fc[k] for k in range(3))
            if sa > 0 and max(abs(x) for x in tot) > sa / 10 ** 6:
                bad.append(('own_area_vectors_do_not_sum_to_zero',
                            {'element': eid, 'relative': float(max(abs(x) for x in tot) / sa)}))
                break
            if isinstance(vols, list) and len(vols) == len(cell_ids) and not case.get('offset'):
                vi = Fraction(*c10.unscale(vols[ci], case, 3))
                if abs(sv / 3 - vi) > abs(vi) / 10 ** 4 + Fraction(1, 10 ** 9):
                    bad.append(('own_volume_identity', {'element': eid, 'third_of_sum': float(sv / 3),
                                                        'implementation_volume': float(vi)}))
                    break
    if set(fkeys) != all_face_keys:
        bad.append(('facets_are_not_the_cell_faces', {'n_facets': len(fkeys), 'n_faces': len(all_face_keys)}))
    for j in range(len(facets)):
        c = cols.get(j, [])
        if len(c) == 1:
            pass
        elif len(c) == 2:
            if c[0][1] + c[1][1] != 0:
                bad.append(('interior_facet_signs_not_opposite', {'facet': list(facets[j])}))
        else:
            bad.append(('facet_with_%d_cells' % len(c), {'facet': list(facets[j])}))
    # normals are unit and along the stored orientation
    for j, n in enumerate(inc['normals']):
        nv = [Fraction(a, b) for a, b in n]
        A2 = varea2([xyz[i] for i in facets[j]])
        nn = sum(x * x for x in nv)
        aa = sum(x * x for x in A2)
        na = sum(nv[k] * A2[k] for k in range(3))
        # unit length, along the exact area vector of the stored orientation (sin^2 <= 2^-40: relative
        # to the facet, not to the distance from the origin)
        f32 = case.get('dtype') == 'float32'
        if na <= 0 or abs(nn - 1) > Fraction(1, 2 ** (18 if f32 else 30)) or \
                (nn * aa - na * na) * 2 ** (30 if f32 else 40) > nn * aa:
            bad.append(('normal', {'facet': list(facets[j])}))
            break
    return bad[:6]


# other public queries on the same object BEFORE the query under test (checklist 5, option-varying preludes):
# everything that internally asks for facets / surface / normals / incidence / metrics, with the option values
# calculate_normal_incidence_matrix does not use as well as the ones it uses (keys of c12_impl.QUERIES)
PRELUDES = ['to_surface', 'to_surface_keep_nodes', 'extract_surface', 'extract_surface_fistr',
            'surface_normals_mean', 'surface_normals_effective', 'all_element_normals',
            'to_facets_keep_duplicates', 'to_facets_unique', 'to_facets_default', 'to_facets_dict',
            'extract_facets_default', 'extract_facets_keep_duplicates', 'extract_facets_unique',
            'extract_facets_stack', 'extract_facets_falsy_flag', 'incidence_matrix', 'incidence_matrix_order1',
            'adjacency_element', 'adjacency_node', 'adjacency_nodal_mode', 'element_degree',
            'relative_incidence_min1', 'relative_incidence_min3', 'relative_incidence_self',
            'volumes_default', 'volumes_linear', 'volumes_abs', 'volumes_no_update', 'metrics', 'metrics_abs',
            'areas_on_solid', 'element_normals_on_solid', 'edge_lengths', 'nodal2elemental_sum',
            'nodal2elemental_mean', 'first_order_nodes', 'normal_incidence_itself',
            'facet_normals_of_duplicated_facets', 'surface_areas']

SCALES = [(1, 1), (1, 2 ** 11), (1, 2 ** 13), (1, 2 ** 15), (1, 1000), (1, 10000), (128, 1), (1000, 1)]
# in-place moves through the API whose exact effect on integer coordinates is known
API_MOVES = [
    ((0, 0, 1), (1, 4), lambda p: (-p[1], p[0], p[2])),     # quarter turn about z
    ((1, 1, 1), (1, 3), lambda p: (p[2], p[0], p[1])),      # third of a turn about (1,1,1)
    ((1, 0, 0), (1, 2), lambda p: (p[0], -p[1], -p[2])),    # half turn about x
]


def gen_cases(ctx, widened=False):
    """widened: the face tables could not be re-translated from the tree under test, the committed baseline
    tables are the hand model of that region -> thorough-style case count in the quick tier and a stream of
    single cells (every face of the table is then a facet in table orientation, compared exactly)"""
    rng = ctx.rng
    n = 60 if ctx.tier == 'quick' else 1200
    if widened and ctx.tier == 'quick':
        n = 150
    cases = []
    # mixed tet+hex collections are outside the quantifier (no conforming tet-hex interface exists) and
    # calculate_normal_incidence_matrix raises on them with numpy >= 1.24 (ragged np.array in
    # convert_nodal2elemental): noted in notes/C12.md, not generated
    kinds = ['hex', 'tet']
    warps = [None, None, 'frustum', 'frustum2', 'twist']
    for k in range(n):
        kind = kinds[k % len(kinds)]
        m = c10_gen.gen_mesh(rng, kind=kind, warp=rng.choice(warps),
                             max_elems=24 if ctx.tier == 'quick' else 40)
        c = {'nodes': m['nodes'], 'blocks': m['blocks'], 'meta': m['meta'], 'valid': True}
        # length scale: the same mesh scaled by an exact power of two / by a power of ten; facets,
        # signs and unit normals are scale-invariant (C12_scale_covariant), so the model runs on the
        # unscaled integer mesh
        if k % 2 == 1:
            sc = SCALES[1 + (k // 2) % (len(SCALES) - 1)]
            c['scale'] = list(sc)
            c['meta'] = dict(c['meta'], scale='%d/%d' % sc)
        # far from the origin: exact integer offsets of 1e6..1e7 cell sizes (also combined with the small
        # scales). Facets, signs and normals are translation-invariant (C12_translation_invariant), so the
        # model runs on the mesh at the origin; the normal tolerance stays 2^-40 (sin^2 of the angle),
        # i.e. relative to the local scale — the centroid-shifted kernels deliver ~1e-16 there
        if k % 10 == 0 and 'scale' not in c:
            c['dtype'] = ['float32', 'int64', 'int32'][(k // 10) % 3]
            c['meta'] = dict(c['meta'], dtype=c['dtype'])
        if (k // 2) % 3 == 2 and 'dtype' not in c:
            c['offset'] = [rng.choice([-1, 1]) * rng.randint(2 * 10 ** 6, 2 * 10 ** 7) for _ in range(3)]
            c['meta'] = dict(c['meta'], offset='1e6..1e7')
            # integer / dyadic coordinates of this size still multiply exactly in binary64; realistic
            # far-away coordinates (UTM metres with centimetre cells) do not: use a decimal scale on
            # most of the offset cases (each coordinate is then rounded once, |p| * 2^-53, far inside
            # the tolerance relative to the cell size)
            if k % 4 != 0:
                sc = [(1, 20), (1, 1000), (1, 10000), (1, 10)][(k // 6) % 4]
                c['scale'] = list(sc)
                c['meta'] = dict(c['meta'], scale='%d/%d' % sc)
        cases.append(c)
    # single cells = translator validation / face-table probes through the public API (all 8 affine maps): the facet mesh of one cell is the table
    # applied to its row (np.unique row order), node order and orientation compared exactly by check_facets
    for kind in ['hex', 'tet']:
        for aff in c10_gen.AFFINE:
            for rep in range(3 if widened else 1):
                kw = {'id_mode': ['sparse', 'large', 'huge'][rep]} if widened else {}
                m = c10_gen.gen_mesh(rng, kind=kind, dims=(1, 1, 1), affine=aff, **kw)
                m['meta']['single_cell'] = True
                cases.append({'nodes': m['nodes'], 'blocks': m['blocks'], 'meta': m['meta'], 'valid': True})
    # same-object stream: compute, move the mesh in place, compute again on the SAME object
    for k in range((40 if widened else 20) if ctx.tier == 'quick' else 200):
        m = c10_gen.gen_mesh(rng, kind=kinds[k % 2], dims=rng.choice([(2, 1, 1), (2, 2, 1), (2, 2, 2)]),
                             warp=rng.choice([None, 'frustum']), max_elems=16)
        c = {'nodes': m['nodes'], 'blocks': m['blocks'], 'meta': m['meta'], 'valid': True}
        if k % 5 == 3:
            # remove_useless_nodes() directly on a mesh with unreferenced nodes stored first / middle /
            # last: the node table is re-sorted by id, everything keyed by storage position must follow
            m = c10_gen.gen_mesh(rng, kind=kinds[(k // 5) % 2], dims=rng.choice([(2, 1, 1), (2, 2, 1)]),
                                 extra_nodes=rng.choice([2, 5]), extra_pos=['last', 'first', 'middle'][(k // 5) % 3],
                                 id_mode=rng.choice(['sparse', 'dense_ends', 'large']), max_elems=16)
            c = {'nodes': m['nodes'], 'blocks': m['blocks'], 'meta': m['meta'], 'valid': True}
            used = {i for es in m['blocks'].values() for _, cc in es for i in cc}
            c['move'] = {'kind': 'useless'}
            c['moved_nodes'] = sorted([[i, list(p)] for i, p in m['nodes'] if i in used], key=lambda n: n[0])
        elif k % 5 == 4:
            c['move'] = {'kind': 'repeat'}
            c['moved_nodes'] = [[i, list(p)] for i, p in m['nodes']]
        elif k % 3 == 2:
            # query the plain incidence / adjacency first, then re-order the connectivity rows in place
            # (fem_data.elements.data = data[perm]); ids keep their storage slots
            while True:
                m = c10_gen.gen_mesh(rng, kind=['hex', 'hex', 'tet'][(k // 3) % 3],
                                     dims=rng.choice([(2, 2, 1), (2, 2, 2), (3, 2, 1)]), max_elems=16)
                if sum(len(v) for v in m['blocks'].values()) >= 3:
                    break
            c = {'nodes': m['nodes'], 'blocks': m['blocks'], 'meta': m['meta'], 'valid': True}
            typ = next(iter(m['blocks']))
            es = m['blocks'][typ]
            perm = list(range(len(es)))
            while perm == list(range(len(es))):
                rng.shuffle(perm)
            c['move'] = {'kind': 'permute', 'perm': perm, 'adjacency': bool(k % 2)}
            c['moved_nodes'] = [[i, list(p)] for i, p in m['nodes']]
            c['moved_blocks'] = {typ: [[es[j][0], es[perm[j]][1]] for j in range(len(es))]}
        elif k % 2 == 0:
            ax, turn, fn = API_MOVES[(k // 2) % len(API_MOVES)]
            t = (rng.randint(-6, 6), rng.randint(-6, 6), rng.randint(-6, 6))
            c['move'] = {'kind': 'api', 'axis': list(ax), 'turn': list(turn), 'translate': list(t)}
            c['moved_nodes'] = [[i, [a + b for a, b in zip(fn(p), t)]] for i, p in m['nodes']]
        else:
            name, M = rng.choice([a for a in c10_gen.AFFINE if c10_gen.det3(*a[1]) > 0 and a[0] != 'id'])
            t = (rng.randint(-6, 6), rng.randint(-6, 6), rng.randint(-6, 6))
            mv = [[i, list(c10_gen.mat_apply(M, t, p))] for i, p in m['nodes']]
            c['move'] = {'kind': 'assign', 'coords': [p for _, p in mv], 'map': name}
            c['moved_nodes'] = mv
        c['meta'] = dict(c['meta'], same_object=c['move']['kind'])
        cases.append(c)
    # prelude stream: ONE object, other public queries first (singly: every query of PRELUDES in every run,
    # on a tet and a hex mesh alternately; ordered pairs: a rotating subset in quick, many in thorough), then
    # the query under test; the result must be that of a fresh object = the model.  In same-object histories
    # the queries are also put between the first and the second call (mid_prelude).
    def small(k):
        while True:
            m = c10_gen.gen_mesh(rng, kind=kinds[k % 2], dims=rng.choice([(2, 1, 1), (2, 2, 1), (2, 2, 2)]),
                                 warp=rng.choice([None, 'frustum']), max_elems=12)
            if sum(len(v) for v in m['blocks'].values()) >= 2:
                return m
    plist = []
    for k, q in enumerate(PRELUDES):
        plist.append(([q], None))
    n_pairs = 24 if ctx.tier == 'quick' else 240
    for k in range(n_pairs):
        plist.append(([rng.choice(PRELUDES), rng.choice(PRELUDES)], None))
    for k in range(12 if ctx.tier == 'quick' else 120):
        plist.append((rng.sample(PRELUDES, rng.choice([0, 1])), rng.sample(PRELUDES, rng.choice([1, 2]))))
    for k, (pre, mid) in enumerate(plist):
        m = small(k + (k // len(PRELUDES)))
        c = {'nodes': m['nodes'], 'blocks': m['blocks'], 'valid': True, 'prelude': pre,
             'meta': dict(m['meta'], prelude='+'.join(pre) or '-')}
        if mid:
            c['mid_prelude'] = mid
            c['move'] = {'kind': 'repeat'}
            c['moved_nodes'] = [[i, list(p)] for i, p in m['nodes']]
            c['meta'] = dict(c['meta'], same_object='repeat', mid_prelude='+'.join(mid))
        cases.append(c)
    # size stream (checklist 4): meshes far larger than what is evaluated inside Coq — hundreds of cells in
    # quick, > 8 192 listed faces in thorough — judged by the exact property oracle on the implementation only
    # (a size-dependent fast path in the id look-ups / duplicate removal / sparse products shows up here)
    big = [('hex', (9, 9, 9)), ('tet', (6, 5, 5))] if ctx.tier == 'quick' else \
        [('hex', (14, 14, 14)), ('tet', (10, 10, 10)), ('hex', (9, 8, 8)), ('tet', (6, 5, 5))]
    for j, (kind, dims) in enumerate(big):
        m = c10_gen.gen_mesh(rng, kind=kind, dims=dims, max_elems=10 ** 6, warp=[None, 'frustum'][j % 2])
        c = {'nodes': m['nodes'], 'blocks': m['blocks'], 'meta': dict(m['meta'], size='large'), 'valid': True,
             'skip_coq': True}
        if j % 2 == 1:
            c['scale'] = [1, 1000]
            c['meta']['scale'] = '1/1000'
        cases.append(c)
    # second stream: one inverted element — model and implementation must still agree
    for k in range((12 if widened else 6) if ctx.tier == 'quick' else 60):
        m = c10_gen.gen_mesh(rng, kind=kinds[k % 2], dims=(2, 2, 1), invert_one=True)
        m['meta']['malformed'] = 'inverted_element'
        cases.append({'nodes': m['nodes'], 'blocks': m['blocks'], 'meta': m['meta'], 'valid': False})
    for i, c in enumerate(cases):
        c['id'] = i
        c['want'] = ['incidence_moved'] if 'move' in c else ['incidence']
    return cases


def expand_moved(cases, res):
    """a same-object case becomes two model comparisons: the first call against the
    original coordinates, the second call (same object, moved in place) against
    the moved coordinates; plus: second call == fresh object on the moved mesh.
    -> list of (case id, check, detail) history failures"""
    hist = []
    extra = []
    for c in cases:
        if 'move' not in c:
            continue
        r = res[c['id']]
        im = r.get('incidence_moved')
        if im is None or c10.is_err(im):
            r['incidence'] = im
            continue
        r['incidence'] = im['first']
        # the in-place move produced the coordinates the model is evaluated on
        exp = [p for _, p in c['moved_nodes']]
        got = [[Fraction(*x) for x in row] for row in im['moved_xyz']]
        if any(abs(g - e) > Fraction(1, 10 ** 9) for gr, er in zip(got, exp) for g, e in zip(gr, er)):
            hist.append((c['id'], 'moved_coordinates', None))
        c2 = {'id': len(cases) + len(extra), 'nodes': c['moved_nodes'],
              'blocks': c.get('moved_blocks', c['blocks']), 'orig_blocks': c['blocks'],
              'meta': dict(c['meta'], stage='second_call_after_in_place_move', first_case=c['id']),
              'valid': True, 'want': c['want'], 'move': c['move'], 'orig_nodes': c['nodes'],
              'derived': True}
        res[c2['id']] = {'id': c2['id'], 'incidence': im['second']}
        extra.append(c2)
        s2, fr = im['second'], im['fresh']
        if s2['triples'] != fr['triples'] or s2['facets'] != fr['facets'] or s2['shape'] != fr['shape']:
            hist.append((c2['id'], 'second_call_differs_from_fresh_object', 'incidence / facets'))
        else:
            for a, b in zip(s2['normals'], fr['normals']):
                if any(abs(Fraction(*x) - Fraction(*y)) > Fraction(1, 10 ** 12) for x, y in zip(a, b)):
                    hist.append((c2['id'], 'second_call_differs_from_fresh_object', 'normals'))
                    break
    return extra, hist


def judge(case, r):
    """the property on everything the implementation returned for this case
    (single call, or the call / move in place / call history on one object)"""
    if 'move' not in case:
        return oracle(case, r)
    im = r.get('incidence_moved')
    if im is None:
        return []
    if c10.is_err(im):
        return [('raises', im.get('msg'))]
    bad = oracle(case, {'incidence': im['first']})
    moved = dict(case, nodes=case['moved_nodes'], blocks=case.get('moved_blocks', case['blocks']))
    exp = [p for _, p in case['moved_nodes']]
    got = [[Fraction(*x) for x in row] for row in im['moved_xyz']]
    if any(abs(g - e) > Fraction(1, 10 ** 9) for gr, er in zip(got, exp) for g, e in zip(gr, er)):
        bad.append(('moved_coordinates', None))
    st = im['second'].get('state')
    if st is not None:
        if st['nodes'] != [n[0] for n in case['moved_nodes']] or \
                {t: [[e, list(d)] for e, d in zip(v['ids'], v['data'])] for t, v in st['blocks'].items()} != \
                {t: [[e, list(cc)] for e, cc in es] for t, es in moved['blocks'].items()}:
            bad.append(('state_after_modification_unexpected', None))
    bad += [('after_in_place_move:' + a, b) for a, b in oracle(moved, {'incidence': im['second']})]
    s2, fr = im['second'], im['fresh']
    if s2['triples'] != fr['triples'] or s2['facets'] != fr['facets'] or s2['shape'] != fr['shape']:
        bad.append(('second_call_differs_from_fresh_object', 'incidence / facets'))
    else:
        for a, b in zip(s2['normals'], fr['normals']):
            if any(abs(Fraction(*x) - Fraction(*y)) > Fraction(1, 10 ** 12) for x, y in zip(a, b)):
                bad.append(('second_call_differs_from_fresh_object', 'normals'))
                break
    return bad[:6]


def signature(case, check):
    return {'check': check, 'kind': case['meta'].get('kind'), 'warp': case['meta'].get('warp'),
            'types': sorted(case['blocks']), 'scale': case['meta'].get('scale', '1'),
            'offset': case['meta'].get('offset', '0'), 'dtype': case['meta'].get('dtype'),
            'size': case['meta'].get('size', 'small'),
            'prelude': case['meta'].get('prelude', '-'), 'mid_prelude': case['meta'].get('mid_prelude', '-'),
            'history': case['meta'].get('same_object', 'single_call')}


def shrink(ctx, case, still_fails, budget=8):
    cur = case
    if (case.get('move') or {}).get('kind') in ('permute', 'useless'):
        return cur          # the permutation refers to the element rows: reported unshrunk
    for _ in range(budget):
        cands = []
        for typ, es in cur['blocks'].items():
            for k in range(len(es)):
                nb = {t: [e for j, e in enumerate(v) if not (t == typ and j == k)]
                      for t, v in cur['blocks'].items()}
                nb = {t: v for t, v in nb.items() if v}
                if nb:
                    cands.append(dict(cur, blocks=nb))
        cands = cands[:40]
        if not cands:
            break
        for i, c in enumerate(cands):
            c['id'] = i
        try:
            res = run_impl(ctx, cands, tag='shrink')
        except Exception:
            break
        nxt = next((c for c in cands if still_fails(c, res[c['id']])), None)
        if nxt is None:
            break
        cur = nxt
    return cur


def tie_rule(ctx):
    """T tie for the decisions of calculate_normal_incidence_matrix (call flags, sign clamp): translate ->
    coq/C12/gen/IncidenceRule.v -> theorems of C12/PropsRule.v re-checked -> translator validation (generated
    rule evaluated in Coq vs the extracted clamp applied in Python).  Never by itself a violation: when the
    region cannot be read, or the translated decisions are not the model's for every integer (e.g. at a dot
    product of exactly 0, which convex cells never produce), the committed baseline rule is used and the
    correspondence check / oracle decide (BUILDERS_R5 policy)."""
    import c12_incidence
    gen = lib.COQ / 'C12' / 'gen' / 'IncidenceRule.v'
    base = lib.COQ / 'C12' / 'baseline' / 'IncidenceRule.v.txt'
    tr, mode, reason = None, 'T', ''
    try:
        tr, consumed = c12_incidence.translate(str(lib.REPO))
        ctx.sources.update(consumed)
        text = c12_incidence.emit(tr)
    except (c12_incidence.TranslateError, SyntaxError, OSError, RecursionError, ValueError, KeyError, TypeError,
            AttributeError, IndexError) as e:
        mode, reason = 'H', 'translator could not read the region: %s: %s' % (type(e).__name__, e)
        text = base.read_text()
    keep, cmd = ctx.obligations[:], getattr(ctx, 'checker_cmd', None)
    new, ok = [], False
    for attempt in range(2):
        lib.write_if_changed(gen, text)
        del ctx.obligations[:]
        ok, log = ctx.build_props('C12/PropsRule.v', scan_dirs=[lib.COQ / 'C12'])
        ok = c10.fix_obligations(ctx) and bool(ctx.obligations)
        new = ctx.obligations[:]
        if ok and mode == 'T':
            # translator validation: the generated definition evaluated in Coq vs the extracted clamp in Python
            ds = [-10 ** 12, -7, -2, -1, 0, 1, 2, 5, 10 ** 12] + [ctx.rng.randint(-50, 50) for _ in range(12)]
            rc, out, err = ctx.coq_eval('RuleProbe', '\n'.join([
                'From Coq Require Import List ZArith.', 'Import ListNotations.',
                'From FV.C12.gen Require Import IncidenceRule.', 'Open Scope Z_scope.',
                'Goal True. idtac "@@ vals". Abort.',
                'Eval vm_compute in map sgn_rule %s.' % lib.coq_list([lib.coq_Z(d) for d in ds])]) + '\n')
            got = [int(x.replace('(', '').replace(')', '')) for x in
                   re.findall(r'\(?-?\d+\)?', lib.parse_marked(out).get('vals', '').split(': list')[0].split('=', 1)[-1])] \
                if rc == 0 else None
            exp = [c12_incidence.apply_python(tr, d) for d in ds]
            ctx.notes['rule_translator_validation'] = {'values': len(ds), 'agree': got == exp}
            if got != exp:
                ok, reason = False, 'translator validation failed (Coq %s, Python %s)' % (got, exp)
        if ok or mode == 'H':
            break
        mode = 'H'
        reason = reason or ('the translated decisions %s are not the model\'s for every integer dot product' % (tr,))
        text = base.read_text()
    ctx.obligations[:] = keep
    if cmd is not None:
        ctx.checker_cmd = cmd + '; the same for C12/PropsRule.v'
    if not ok:
        ctx.notes['tie_rule'] = 'unavailable (%s; the baseline rule did not build either)' % reason
        ctx.log('rule tie unavailable:', reason)
        return
    if mode == 'H':
        for o in new:
            o['note'] = ((o.get('note') or '') + ' [about the baseline rule: ' + reason + ']').strip()
        ctx.trusted.append('baseline rule coq/C12/baseline/IncidenceRule.v.txt (call flags, sign clamp) as a hand model: '
                           + reason + '; tied by the correspondence only')
    ctx.obligations.extend(new)
    ctx.notes['tie_rule'] = ('T (call flags and sign clamp of calculate_normal_incidence_matrix re-translated from the '
                             'tree under test)' if mode == 'T' else
                             'H (%s; baseline rule + correspondence on the signs)' % reason)
    ctx.log('rule tie:', ctx.notes['tie_rule'][:160])


def extra_props(ctx, props_rel):
    """a further props file (additive theorems): its obligations are appended; a file that does not build is
    recorded as undischarged obligations, never as a violation of its own"""
    keep, cmd = ctx.obligations[:], getattr(ctx, 'checker_cmd', None)
    del ctx.obligations[:]
    try:
        ctx.build_props(props_rel, scan_dirs=[lib.COQ / 'C12'])
        c10.fix_obligations(ctx)
    finally:
        new = ctx.obligations[:]
        ctx.obligations[:] = keep + new
        if cmd is not None:
            ctx.checker_cmd = cmd + '; the same for ' + props_rel


def tet_hypotheses(ctx, cases):
    """the primitive hypotheses of C12_tet_mesh_cells_meet_in_faces (all_tets, conn_nodup) and its conclusion
    evaluated inside Coq on the generated tet meshes"""
    tets = [c for c in cases if c['valid'] and not c.get('skip_coq') and set(c['blocks']) == {'tet'}][:60]
    if not tets:
        return
    txt = list(HEADER) + ['From FV.C12 Require Import ProofsConform.']
    items = []
    for c in tets:
        txt.append(f'Definition m{c["id"]} : mesh := {c10.mesh_literal(c)}.')
        items.append(f'({c["id"]}%nat, all_tets m{c["id"]} && conn_nodup m{c["id"]} && cells_meet_in_faces m{c["id"]})')
    txt.append(f'Definition allr : list (nat * bool) := {lib.coq_list(items)}.')
    txt.append('Goal True. idtac "@@ failing". Abort.')
    txt.append('Eval vm_compute in map fst (filter (fun c => negb (snd c)) allr).')
    rc, out, err = ctx.coq_eval('TetHyp', '\n'.join(txt) + '\n')
    bad = None if rc != 0 else [int(x) for x in re.findall(r'\d+', lib.parse_marked(out).get('failing', '').split(': list')[0])]
    ctx.notes['tet_conformity_hypotheses'] = {'tet_meshes': len(tets), 'hypotheses_false_on': bad}


def main(ctx):
    ctx.rule = ('lattice assemblies (<=3x3x3 cells) of hexahedra and/or Kuhn tetrahedra (partial cells, random '
                'occupancy = L-shapes, voids, several components), optionally warped (frustum maps keep faces '
                'planar, twist makes z-faces non-planar), under 8 integer affine maps, ids seq|sparse|~2^31|>2^40, '
                'storage order shuffled, unreferenced nodes; plus an inverted-element stream; non-trivial = has an '
                'interior facet; distinct = distinct (nodes, blocks)')
    ctx.trusted += [
        'translator translate/c10_tables.py (face tables, shared with C10)',
        'translator translate/c12_incidence.py (call flags and sign clamp of calculate_normal_incidence_matrix)',
        'hand model coq/C12/Model.v of to_facets/remove_duplicates/relative incidence/sign, pinned by the '
        'correspondence check (np.unique first-occurrence order, scipy.sparse products modelled)',
        'harness glue: COO triples sorted, floats converted with float.as_integer_ratio',
        'S-definitions: outward2 (sign of (facet centre - cell centre).normal up to a positive factor), '
        'varea2, face24 / elem_vol24 (femio default volume kernels)',
    ]
    ctx.assumptions += [
        'real arithmetic exact; the implementation evaluates the sign in binary64 with a normalised normal — '
        'on the generated integer meshes the exact dot product is bounded away from zero',
        'normals compared as unit vectors along the exact area vector within 2^-40',
        'cells are tet or hex (first order)',
    ]
    # translate (T).  A region the translator cannot read is not by itself a violation (BUILDERS_R5 policy):
    # the committed baseline tables become the hand model of that region (tie H), the theorems are checked
    # about them, and the correspondence is widened; only a disagreement / a failing input is a violation.
    known_q = set(re.findall(r"^    '(\w+)': lambda", (lib.VERIF / 'harness' / 'c12_impl.py').read_text(), re.M))
    assert known_q == set(PRELUDES), sorted(known_q ^ set(PRELUDES))
    tie_ok = True
    gen_file = lib.COQ / 'C10' / 'gen' / 'FaceTables.v'
    tables_text = None
    try:
        tr, consumed = c10_tables.translate(str(lib.REPO))
        ctx.sources = consumed
        tables_text = c10_tables.emit(tr)
        ctx.notes['tie_tables'] = 'T (face tables re-translated from the tree under test)'
    except (c10_tables.TranslateError, SyntaxError, OSError, RecursionError, ValueError, KeyError, TypeError,
            AttributeError, IndexError) as e:
        tie_ok = False
        ctx.notes['translator_error'] = '%s: %s' % (type(e).__name__, e)
        ctx.log('translator could not read the face tables:', e, '-> baseline tables + widened correspondence')
        try:
            ctx.sources = c10_tables.region_hashes(str(lib.REPO))
        except Exception:          # noqa
            pass
    fallback = False
    if not tie_ok:
        for baseline in BASELINES:
            if baseline.exists():
                tables_text = baseline.read_text()
                ctx.notes['baseline_tables'] = str(baseline.relative_to(lib.VERIF))
                fallback = True
                break
    proof_ok = False
    model_ok = False
    if tie_ok or fallback:
        # coq/C10/gen/FaceTables.v is shared with the check of C10: a run of either check on ANOTHER tree
        # (seed / benign tests run concurrently) may overwrite it between our write and our build.  That is
        # not a property of the tree under test: when the file no longer holds what we wrote, write and
        # build again.
        for attempt in range(4):
            lib.write_if_changed(gen_file, tables_text)
            ctx.obligations.clear()
            proof_ok, log = ctx.build_props('C12/Props.v', extra_targets=['C12/Corr.vo'],
                                            scan_dirs=[lib.COQ / 'C12', lib.COQ / 'C10'])
            proof_ok = c10.fix_obligations(ctx) and bool(ctx.obligations)
            model_ok, _, _ = lib.coq_make(['C12/Corr.vo'])
            disturbed = gen_file.read_text() != tables_text or 'inconsistent assumptions' in log
            if (proof_ok and model_ok) or not disturbed:
                break
            ctx.log('generated tables were overwritten by a concurrent run on another tree: building again')
            time.sleep(5 + 10 * attempt)
        if not proof_ok:
            ctx.notes['build_log_tail'] = log[-1500:]
        if fallback:
            for o in ctx.obligations:
                o['note'] = ((o.get('note') or '') + ' [about the baseline face tables: the translator could not '
                             'read the tree under test]').strip()
    else:
        for n in lib.theorem_names(lib.COQ / 'C12' / 'Props.v'):
            ctx.obligations.append({'name': n, 'discharged': False, 'assumptions': [],
                                    'note': 'translator failed closed, no baseline'})
    if model_ok:
        try:
            tie_rule(ctx)
        except Exception as e:          # noqa  (additive tie: never turns a green run red)
            ctx.notes['tie_rule'] = 'unavailable (%s: %s)' % (type(e).__name__, e)
        try:
            extra_props(ctx, 'C12/PropsConform.v')
        except Exception as e:          # noqa
            ctx.notes['props_conform'] = 'unavailable (%s: %s)' % (type(e).__name__, e)

    cases = []
    cdir = lib.VERIF / 'corpus' / PID
    for p in (sorted(cdir.glob('*.json')) if cdir.exists() else []):
        c = json.loads(p.read_text())
        c['meta'] = dict(c.get('meta', {}), corpus=p.name)
        cases.append(c)
    cases += gen_cases(ctx, widened=fallback)
    for i, c in enumerate(cases):
        c['id'] = i
        c.setdefault('valid', True)
        c['want'] = ['incidence_moved'] if 'move' in c else ['incidence']
    res = run_impl(ctx, cases)
    ctx.log(f'implementation ran on {len(cases)} meshes')
    extra, hist = expand_moved(cases, res)
    cases += extra
    for c in cases:
        meta = c['meta']
        ctx.count('scale:' + str(meta.get('scale', '1')))
        ctx.count('offset:' + str(meta.get('offset', '0')))
        ctx.count('history:' + str(meta.get('stage', meta.get('same_object', 'single_call'))))
        ctx.count('kind:' + str(meta.get('kind')))
        ctx.count('warp:' + str(meta.get('warp')))
        ctx.count('ids:' + str(meta.get('id_mode')))
        ctx.count('affine:' + str(meta.get('affine')))
        ctx.count('stream:' + ('valid' if c['valid'] else meta.get('malformed', 'invalid')))
        ctx.count('size:' + str(meta.get('size', 'small')))
        for q in (meta.get('prelude', '-').split('+') + (meta.get('mid_prelude') or '-').split('+')):
            ctx.count('prelude:' + q)
        if meta.get('single_cell'):
            ctx.count('single_cell_table_probe:' + str(meta.get('kind')))
        inc = res[c['id']].get('incidence')
        ok = inc is not None and not c10.is_err(inc)
        n_int = 0
        if ok:
            cnt = {}
            for a, b, v in inc['triples']:
                cnt[b] = cnt.get(b, 0) + 1
            n_int = sum(1 for v in cnt.values() if v == 2)
        ctx.case([c['nodes'], c['blocks']], nontrivial=n_int > 0,
                 sample={'meta': meta, 'shape': inc['shape'] if ok else None, 'interior_facets': n_int})

    oracle_bad = {}
    n_or = 0
    for c in cases:
        if c['valid'] and not c.get('derived'):
            n_or += 1
            b = judge(c, res[c['id']])
            if b:
                oracle_bad[c['id']] = b
    ctx.notes['search_evaluations'] = n_or
    ctx.notes['impl_property_failures'] = len(oracle_bad)

    failing = {}
    if model_ok:
        coq_cases = [c for c in cases if not c.get('skip_coq')]
        failing = run_coq_cases(ctx, coq_cases, res, 'Corr')
        try:
            tet_hypotheses(ctx, cases)
        except Exception as e:          # noqa
            ctx.notes['tet_conformity_hypotheses'] = 'unavailable (%s: %s)' % (type(e).__name__, e)
        for attempt in range(3):
            broken = [c for c in coq_cases if c['id'] in failing and failing[c['id']] is None]
            if not broken:
                break
            # a scratch file that does not compile: either a malformed literal (stays broken) or the .vo files
            # were rebuilt under us by a concurrent run on another tree (see above): rebuild ours and retry
            lib.write_if_changed(gen_file, tables_text)
            ok2, _, _ = lib.coq_make(['C12/Corr.vo'])
            if not ok2:
                break
            ctx.log(f'{len(broken)} cases in scratch files that did not compile: rebuilt, evaluating them again')
            for c in broken:
                del failing[c['id']]
            failing.update(run_coq_cases(ctx, broken, res, 'CorrRetry%d' % attempt))
        ctx.corr = {'cases': len(coq_cases), 'checks_per_case': CHECKS, 'disagreements': len(failing),
                    'oracle_only_large_meshes': len(cases) - len(coq_cases)}
        ctx.log(f'correspondence: {len(coq_cases)} cases, {len(failing)} with a failing check')
    else:
        ctx.corr = {'cases': 0, 'disagreements': 0, 'note': 'model did not build'}

    for cid, bads in sorted(oracle_bad.items())[:3]:
        c = cases[cid]
        chk = bads[0][0]

        def still(cc, rr, chk=chk):
            return any(b[0] == chk for b in judge(cc, rr))
        small = shrink(ctx, c, still)
        rr = run_impl(ctx, [dict(small, id=0)], tag='shrunk')[0]
        ob = judge(dict(small, id=0), rr)
        ctx.violation('impl-violation',
                      {'nodes': small['nodes'], 'blocks': small['blocks'], 'meta': c['meta'],
                       'scale': small.get('scale'), 'offset': small.get('offset'), 'dtype': small.get('dtype'),
                       'move': small.get('move'), 'prelude': small.get('prelude'), 'mid_prelude': small.get('mid_prelude'),
                       'moved_nodes': small.get('moved_nodes'), 'moved_blocks': small.get('moved_blocks'),
                       'shrunk_from_elements': sum(len(v) for v in c['blocks'].values())},
                      'each cell incident to exactly its faces; interior facets two cells with opposite signs; '
                      'sign = outward orientation; sum sign*A = 0; (1/3) sum sign*A.centre = volume',
                      {'failed_checks': [[a, b] for a, b in (ob or bads)][:4]},
                      'C12 property oracle on the implementation', found_input=True,
                      signature=signature(c, chk), what=f'{chk} on a {c["meta"].get("kind")} mesh')
    for cid, chks in sorted(failing.items())[:6]:
        c = cases[cid]
        if cid in oracle_bad or c['meta'].get('first_case') in oracle_bad:
            continue
        what = 'scratch file did not compile' if chks is None else ','.join(chks)
        inc = res[cid].get('incidence')
        ctx.violation('correspondence',
                      {'nodes': c.get('orig_nodes', c['nodes']), 'blocks': c.get('orig_blocks', c['blocks']),
                       'meta': c['meta'], 'scale': c.get('scale'), 'offset': c.get('offset'),
                       'prelude': c.get('prelude'), 'mid_prelude': c.get('mid_prelude'),
                       'move': c.get('move'), 'moved_blocks': c['blocks'] if c.get('derived') else c.get('moved_blocks'),
                       'moved_nodes': c['nodes'] if c.get('derived') else c.get('moved_nodes')},
                      'model = implementation on ' + what,
                      {'failing_checks': chks, 'impl_error': inc if c10.is_err(inc) else None},
                      'correspondence C12 (Corr.v checks ' + what + ')', found_input=False,
                      signature=signature(c, what), what='model and implementation disagree: ' + what)
    if fallback:
        n_corr = ctx.corr.get('cases', 0)
        n_single = sum(1 for c in cases if c['meta'].get('single_cell'))
        agree = not oracle_bad and not failing and proof_ok and model_ok
        ctx.notes['tie_tables'] = ('H (translator could not read femio/graph_processor.py face tables: %s; baseline '
                                   'model %s + widened correspondence, %d cases of which %d single-cell table probes: '
                                   '%s)' % (ctx.notes.get('translator_error'), ctx.notes.get('baseline_tables'),
                                            n_corr, n_single, 'all agree' if agree else 'DISAGREEMENT'))
        ctx.trusted.append('baseline face tables (%s) as the hand model of _generate_all_faces: the translator could '
                           'not read that region of the tree under test; tied by the widened correspondence only'
                           % ctx.notes.get('baseline_tables'))
        if not model_ok and not oracle_bad:
            ctx.violation('tie-broken', {'translator_error': ctx.notes.get('translator_error')},
                          'baseline model builds so that the widened correspondence can run', 'it does not build',
                          'translator c10_tables + baseline tables', found_input=False,
                          signature={'kind': 'tie-broken'})
    if not tie_ok and not fallback and not oracle_bad:
        ctx.violation('tie-broken', {'translator_error': ctx.notes.get('translator_error')},
                      'translator accepts _generate_all_faces', 'fail-closed, no baseline tables',
                      'translator c10_tables', found_input=False, signature={'kind': 'tie-broken'})
    if (tie_ok or (fallback and model_ok)) and not proof_ok and not oracle_bad:
        badn = [o['name'] for o in ctx.obligations if not o['discharged']]
        ctx.violation('proof-broken', {'undischarged': badn, 'log': ctx.notes.get('build_log_tail', '')[-600:]},
                      'all theorems of C12/Props.v check against the regenerated tables', 'do not check',
                      ', '.join(badn), found_input=False, signature={'kind': 'proof-broken'})
    return ctx.finish()


def replay(path):
    rp = json.loads(Path(path).read_text())
    c = rp['case']
    if 'nodes' not in c:
        print('nothing to replay on the implementation:', json.dumps(rp, indent=1)[:2000])
        return 1
    ctx = lib.Ctx(PID, 'quick')
    case = {'id': 0, 'nodes': c['nodes'], 'blocks': c['blocks'], 'meta': c.get('meta', {}),
            'want': ['incidence'], 'valid': True}
    for k in ('scale', 'offset', 'dtype', 'prelude', 'mid_prelude'):
        if c.get(k):
            case[k] = c[k]
    if c.get('move'):
        case.update(move=c['move'], moved_nodes=c['moved_nodes'], want=['incidence_moved'])
        if c.get('moved_blocks'):
            case['moved_blocks'] = c['moved_blocks']
    r = run_impl(ctx, [case], tag='replay')[0]
    bad = judge(case, r)
    print('implementation:', json.dumps(r.get('incidence') or r.get('incidence_moved'))[:1500])
    print('oracle:', bad)
    ok, _, _ = lib.coq_make(['C12/Corr.vo'])
    if ok:
        cs = [case]
        res = {0: r}
        extra, _ = expand_moved(cs, res)
        f = run_coq_cases(ctx, cs + extra, res, 'Replay')
        print('model vs implementation, failing checks:', f)
        bad = bad or [x for v in f.values() for x in (v or ['compile'])]
    print('property', 'VIOLATED' if bad else 'holds', 'on this input')
    return 1 if bad else 0


if __name__ == '__main__':
    if len(sys.argv) > 2 and sys.argv[1] == 'replay':
        sys.exit(replay(sys.argv[2]))
    tier = sys.argv[1] if len(sys.argv) > 1 else 'quick'
    sys.exit(main(lib.Ctx(PID, tier)))
