"""C15 — in-place modification stream.

On ONE FEMData object operators are built, the mesh is modified in place
through femio's public interface, and operators are built again:
  set_nodes            fem_data.nodes.data = new array
  edit_nodes           arr = fem_data.nodes.data; arr[k] = ... (same array)
  set_conn_new         fem_data.elements.data = new array
  set_conn_same        conn = fem_data.elements.data; conn[k] = ...; fem_data.elements.data = conn
  remove_useless_nodes (the generated meshes carry unreferenced nodes)
  update_NODE          nodal_data.update_data(ids, {'NODE': new}, allow_overwrite=True)
  make_elements_positive (twice)
(translation()/rotation() raise NotImplementedError as soon as nodal_data holds
'NODE', i.e. always for an object the gradient code can work on; not generated.)

After every modification the object reports its mesh (ids, coordinates,
connectivity in storage order); every later operator is compared with the
MODEL EVALUATED ON THAT MESH.  The model is a pure function of the mesh, so a
result that still depends on the mesh before the modification is a
disagreement.  Each operator step calls the explicit builder and the
convenience function with the same options:
  * matrices, consider_volume=False: entrywise against a fresh object built
    from the reported mesh, and against the Coq model (kernel=None)
  * matrices, consider_volume=True: against the Coq model whose volume input is
    what the object itself holds as element volumes at that moment
    (elemental_data['volume']; whether that slot is refreshed by a node move
    is property C19, not C15 — differences to a fresh object are counted in
    the evidence, not reported)
  * always (weight-free, all kernels): rows sum to zero; every plain row's
    coefficient vector is a positive multiple of x_j - x_i at the CURRENT
    positions; moment rows are exact on an affine field sampled at the
    current positions; convenience output = the same-state matrices by hand.
"""
from fractions import Fraction as Fr

import c15_gen as G

OPS = ['set_nodes', 'edit_nodes', 'set_conn_new', 'set_conn_same', 'update_NODE', 'make_elements_positive']


def cross(a, b):
    return (a[1] * b[2] - a[2] * b[1], a[2] * b[0] - a[0] * b[2], a[0] * b[1] - a[1] * b[0])


def volumes_ok(etype, xyz_by_id, conn):
    """every element positively oriented (tets: exact volume; hexes: all eight
    corner Jacobians)"""
    for e in conn:
        p = [xyz_by_id[i] for i in e]
        if etype == 'tet':
            if G.det3(G.sub(p[1], p[0]), G.sub(p[2], p[0]), G.sub(p[3], p[0])) <= 0:
                return False
        else:
            corners = [(0, 1, 3, 4), (1, 2, 0, 5), (2, 3, 1, 6), (3, 0, 2, 7),
                       (4, 7, 5, 0), (5, 4, 6, 1), (6, 5, 7, 2), (7, 6, 4, 3)]
            for a, b, c, d in corners:
                if G.det3(G.sub(p[b], p[a]), G.sub(p[c], p[a]), G.sub(p[d], p[a])) <= 0:
                    return False
    return True


def add_unreferenced_nodes(rng, mesh, n_extra=2):
    used = set(mesh['node_ids'])
    lo = [min(c[a] for c in mesh['xyz']) for a in range(3)]
    hi = [max(c[a] for c in mesh['xyz']) for a in range(3)]
    for k in range(n_extra):
        new = rng.randrange(1, max(used) + 50)
        while new in used:
            new += 1
        used.add(new)
        pos = rng.randrange(0, len(mesh['node_ids']) + 1)       # first / middle / last
        mesh['node_ids'].insert(pos, new)
        mesh['xyz'].insert(pos, [hi[a] + (hi[a] - lo[a]) * (k + 1) for a in range(3)])
    mesh['unreferenced'] = n_extra
    return mesh


def plan_sequence(rng, mesh, mode, n_ops, kw_pool):
    """-> steps; the harness keeps its own mirror (by id) only to plan valid
    moves and the data; checks use the mesh the object reports"""
    xyz = {i: tuple(Fr(c) for c in p) for i, p in zip(mesh['node_ids'], mesh['xyz'])}
    conn = {i: list(e) for i, e in zip(mesh['elem_ids'], mesh['conn'])}
    used_nodes = {i for e in mesh['conn'] for i in e}
    unit = Fr(2) ** mesh.get('scale_exp', 0)
    steps = []
    removed = not mesh.get('unreferenced')
    mods = [rng.choice(OPS) for _ in range(n_ops - 1)]
    if not removed:
        mods[rng.randrange(len(mods))] = 'remove_useless_nodes'
    # make sure a node move and a connectivity assignment occur in the longer sequences
    for k in range(n_ops):
        kw = dict(rng.choice(kw_pool), mode=mode)
        if mode == 'nodal' and not removed:
            kw['moment_matrix'] = False           # isolated vertices: M_i = 0
        steps.append({'kind': 'op', 'kw': kw, 'g': [rng.randint(-5, 5) or 1 for _ in range(3)],
                      'c': rng.randint(-20, 20), 'seed': rng.randrange(10 ** 9)})
        if k == n_ops - 1:
            break
        op = mods[k]
        st = {'kind': 'modify', 'op': op}
        if op in ('set_nodes', 'edit_nodes', 'update_NODE'):
            for attempt in range(20):
                frac = 0.5 if attempt < 10 else 0.15
                moved = {}
                for i in xyz:
                    if i in used_nodes and rng.random() < frac:
                        d = [rng.choice([-1, 0, 1]) * unit for _ in range(3)]
                        if any(d):
                            moved[i] = tuple(a + b for a, b in zip(xyz[i], d))
                trial = dict(xyz)
                trial.update(moved)
                if moved and volumes_ok(mesh['etype'], trial, conn.values()):
                    break
            else:
                moved = {}
                trial = dict(xyz)
            if op in ('set_nodes', 'update_NODE'):
                # every node also translated: nothing stays where it was
                t = [rng.choice([-3, 2, 5]) * unit for _ in range(3)]
                trial = {i: tuple(a + b for a, b in zip(p, t)) for i, p in trial.items()}
                st['by_id'] = {str(i): [float(c) for c in p] for i, p in trial.items()}
            else:
                st['by_id'] = {str(i): [float(c) for c in p] for i, p in moved.items()}
            xyz = trial
        elif op in ('set_conn_new', 'set_conn_same'):
            # the connectivity rows are redistributed over the element ids
            eids = list(conn)
            rows = [conn[i] for i in eids]
            rows = rows[1:] + rows[:1] if rng.random() < 0.5 else rows[::-1]
            conn = dict(zip(eids, rows))
            st['by_eid'] = {str(i): r for i, r in conn.items()}
        elif op == 'remove_useless_nodes':
            xyz = {i: p for i, p in xyz.items() if i in used_nodes}
            removed = True
        steps.append(st)
    return steps


def impl_steps(steps, cur_positions_by_id_fn=None):
    """JSON for the child process: an 'op' step becomes a 'matrices' call
    followed by a 'conv' call with the same options"""
    out = []
    for st in steps:
        if st['kind'] == 'modify':
            out.append({k: v for k, v in st.items() if k in ('kind', 'op', 'by_id', 'by_eid')})
        else:
            out.append({'kind': 'matrices', 'kw': st['kw']})
            out.append({'kind': 'conv', 'kw': st['kw'], 'data_by_id': st['data_by_id']})
    return out


def attach_data(rng_cls, mesh, mode, steps):
    """data keyed by vertex id for every op step: column 0 = affine field at the
    positions the mesh has AT THAT STEP (harness mirror), column 1 = integers"""
    xyz = {i: tuple(Fr(c) for c in p) for i, p in zip(mesh['node_ids'], mesh['xyz'])}
    conn = {i: list(e) for i, e in zip(mesh['elem_ids'], mesh['conn'])}
    for st in steps:
        if st['kind'] == 'modify':
            if st['op'] in ('set_nodes', 'update_NODE'):
                xyz = {int(i): tuple(Fr(c) for c in p) for i, p in st['by_id'].items()}
            elif st['op'] == 'edit_nodes':
                xyz.update({int(i): tuple(Fr(c) for c in p) for i, p in st['by_id'].items()})
            elif st['op'] in ('set_conn_new', 'set_conn_same'):
                conn = {int(i): list(r) for i, r in st['by_eid'].items()}
            continue
        r = rng_cls(st['seed'])
        if st['kw']['mode'] == 'nodal':
            pos = xyz
        else:
            pos = {i: tuple(sum(xyz[k][a] for k in e) / len(e) for a in range(3)) for i, e in conn.items()}
        st['data_by_id'] = {str(i): [float(sum(Fr(g) * c for g, c in zip(st['g'], p)) + st['c']),
                                     float(r.randint(-9, 9))] for i, p in pos.items()}


def check_op(K, cur, st, mats_out, conv_out, fresh):
    """weight-free checks + fresh-object comparison of one op step.
    cur = mesh reported by the object; returns (list of (check, detail), info)"""
    kw = st['kw']
    mode = kw['mode']
    inc, nb, P = G.neighbourhoods(cur, mode, kw['n_hop'])
    n = len(P)
    info = {'n': n, 'P': P, 'well': all(nb) and K.well_conditioned(nb, P)}
    if 'error' in mats_out or 'error' in conv_out:
        if fresh is not None and 'error' in fresh:
            return [], info               # a fresh object raises too
        return [('raised-after-modification', {'error': mats_out.get('error') or conv_out.get('error')})], info
    rows3 = [K.rows_from_coo(A, n) for A in mats_out['matrices']]
    bad = []
    # rows sum to zero
    for a in range(3):
        for i in range(n):
            s = sum(x for _, x in rows3[a][i])
            sa = sum(abs(x) for _, x in rows3[a][i])
            if abs(s) > Fr(1, 2 ** 40) * sa:
                bad.append(('const-zero-after-modification', {'axis': a, 'row': i, 'row_sum': float(s)}))
                break
        if bad:
            break
    ids = cur['node_ids'] if mode == 'nodal' else cur['elem_ids']
    # plain rows: coefficient vector of neighbour j is a positive multiple of x_j - x_i (current)
    if not kw['moment_matrix'] and not bad:
        for i in range(n):
            d = [dict(rows3[a][i]) for a in range(3)]
            cols = (set(d[0]) | set(d[1]) | set(d[2])) - {i}
            sc = max([abs(x) for a in range(3) for x in d[a].values()] + [Fr(0)])
            if sc == 0 and not nb[i]:
                continue
            if {j for j in cols if any(abs(d[a].get(j, 0)) > Fr(1, 2 ** 30) * sc for a in range(3))} - set(nb[i]):
                bad.append(('neighbour-set-after-modification', {'row': i, 'vertex_id': ids[i]}))
                break
            for j in nb[i]:
                c = tuple(d[a].get(j, Fr(0)) for a in range(3))
                v = G.sub(P[j], P[i])
                vn = max(abs(x) for x in v)
                cn = max(abs(x) for x in c)
                x = cross(c, v)
                if cn == 0 or max(abs(t) for t in x) > Fr(1, 2 ** 30) * cn * vn or \
                        sum(a * b for a, b in zip(c, v)) <= 0:
                    bad.append(('offsets-after-modification',
                                {'row': i, 'col': j, 'vertex_ids': [ids[i], ids[j]],
                                 'coefficient': [float(t) for t in c],
                                 'current_offset': [float(t) for t in v]}))
                    break
            if bad:
                break
    # moment rows: exact on the affine field at the current positions
    if kw['moment_matrix'] and info['well'] and not bad:
        f = [sum(Fr(g) * c for g, c in zip(st['g'], P[j])) + st['c'] for j in range(n)]
        fmax = max(abs(x) for x in f)
        gmax = max(abs(Fr(x)) for x in st['g'])
        for a in range(3):
            for i in range(n):
                row = rows3[a][i]
                val = sum(x * f[j] for j, x in row)
                if abs(val - st['g'][a]) > Fr(1, 10 ** 9) * (gmax + sum(abs(x) for _, x in row) * fmax):
                    bad.append(('affine-exact-after-modification',
                                {'axis': a, 'row': i, 'vertex_id': ids[i], 'computed': float(val),
                                 'true': st['g'][a]}))
                    break
            if bad:
                break
    # convenience output = the same-state matrices applied by hand
    data = [[Fr(x) for x in st['data_by_id'][str(i)]] for i in ids]
    info['data'] = data
    nfeat = 2
    if conv_out['shape'] != [n, 3, nfeat]:
        bad.append(('convenience-after-modification', {'shape': conv_out['shape']}))
    elif not bad:
        gr = [K.fr_hex(h) for h in conv_out['grad']]
        dmax = max(abs(x) for r in data for x in r)
        for i in range(n):
            for a in range(3):
                row = rows3[a][i]
                an = sum(abs(x) for _, x in row)
                for k in range(nfeat):
                    val = sum(x * data[j][k] for j, x in row)
                    if abs(val - gr[(i * 3 + a) * nfeat + k]) > Fr(1, 2 ** 40) * (an * dmax + Fr(1, 2 ** 60)):
                        bad.append(('convenience-after-modification',
                                    {'vertex': i, 'axis': a, 'feature': k, 'by_hand': float(val),
                                     'returned': float(gr[(i * 3 + a) * nfeat + k])}))
                        break
                if bad:
                    break
            if bad:
                break
    # fresh object built from the reported mesh (entrywise)
    info['differs_from_fresh'] = False
    if fresh is not None and 'error' not in fresh:
        fr3 = [K.rows_from_coo(A, n) for A in fresh['matrices']]
        diff = None
        for a in range(3):
            for i in range(n):
                d1, d2 = dict(fr3[a][i]), dict(rows3[a][i])
                sc = max([abs(x) for x in d1.values()] + [K.floor_of(cur)])
                for j in set(d1) | set(d2):
                    if abs(d1.get(j, 0) - d2.get(j, 0)) > Fr(1, 2 ** 36) * sc:
                        diff = {'axis': a, 'row': i, 'col': j, 'fresh_object': float(d1.get(j, 0)),
                                'modified_object': float(d2.get(j, 0))}
                        break
                if diff:
                    break
            if diff:
                break
        if diff:
            info['differs_from_fresh'] = True
            if not kw['consider_volume'] and not bad:
                bad.append(('matrices-after-modification', diff))
    return bad, info
