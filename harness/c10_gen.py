"""Mesh generator for C10 / C12 (independent of femio's own generators).

A lattice of unit cells (coordinates doubled so that cell centres are
integer) with a random occupancy mask (L-shapes, voids, several components).
Every occupied cell is filled with one of
    hex    one hexahedron                          faces: Q Q Q  (x, y, z)
    pyr    a subset of the 6 pyramids about the centre   Q / nothing
    tet    a subset of the 6 Kuhn tetrahedra             T (Kuhn diagonals)
    prismA 2 prisms with axis A in {x,y,z}               T on A-faces, Q else
so that a quadrilateral never meets two triangles (cells are assigned
greedily; a cell with no compatible type becomes a void).  The lattice is
mapped by an integer affine map (rotation x scale, shear, reflection,
translation); elements are re-oriented to be femio-positive.  Ids: 1..n,
sparse, large; storage order of nodes and of each element block shuffled;
optional unreferenced nodes.
"""
from fractions import Fraction
from itertools import permutations

TYPE_ORDER = ['tet', 'tet2', 'pyr', 'prism', 'hex']      # FEMElementalAttribute.items()

# orientation-reversing renumbering per type (keeps the element the same solid)
FLIP = {
    'tet': [0, 2, 1, 3],
    'pyr': [0, 3, 2, 1, 4],
    'prism': [3, 4, 5, 0, 1, 2],
    'hex': [4, 5, 6, 7, 0, 1, 2, 3],
}

AFFINE = [
    ('id', [[1, 0, 0], [0, 1, 0], [0, 0, 1]]),
    ('rot3', [[1, 2, 2], [2, 1, -2], [2, -2, 1]]),          # M^T M = 9 I, det = -27
    ('rot3p', [[2, 1, -2], [1, 2, 2], [2, -2, 1]]),         # det = +27
    ('shear', [[1, 1, 0], [0, 1, 2], [0, 0, 1]]),
    ('reflect', [[1, 0, 0], [0, -1, 0], [0, 0, 1]]),
    ('scale', [[2, 0, 0], [0, 3, 0], [0, 0, 1]]),
    ('perm', [[0, 1, 0], [0, 0, 1], [1, 0, 0]]),
    ('skew', [[2, 1, 0], [-1, 1, 1], [0, 1, 3]]),
    ('thin', [[64, 0, 0], [0, 1, 0], [0, 0, 1]]),              # high-aspect cells
]


def det3(a, b, c):
    return (a[0] * (b[1] * c[2] - b[2] * c[1]) - a[1] * (b[0] * c[2] - b[2] * c[0])
            + a[2] * (b[0] * c[1] - b[1] * c[0]))


def vsub(a, b):
    return (a[0] - b[0], a[1] - b[1], a[2] - b[2])


def mat_apply(M, t, p):
    return tuple(sum(M[i][j] * p[j] for j in range(3)) + t[i] for i in range(3))


# ---- independent exact volumes (6 x volume), used for orientation + oracle
def vol6(typ, p):
    def tet(a, b, c, d):
        return det3(vsub(b, a), vsub(c, a), vsub(d, a))
    if typ in ('tet', 'tet2'):
        return tet(p[0], p[1], p[2], p[3])
    if typ == 'pyr':      # exact for planar base
        return tet(p[0], p[1], p[2], p[4]) + tet(p[0], p[2], p[3], p[4])
    if typ == 'prism':    # femio-positive prisms have the 0-1-2 triangle seen counter-clockwise from outside
        return tet(p[0], p[2], p[1], p[3]) + tet(p[1], p[3], p[2], p[4]) + tet(p[2], p[4], p[3], p[5])
    if typ == 'hex':
        c = tuple(Fraction(sum(q[i] for q in p), 8) for i in range(3))
        faces = [(0, 3, 2, 1), (4, 5, 6, 7), (0, 1, 5, 4), (1, 2, 6, 5), (2, 3, 7, 6), (3, 0, 4, 7)]
        s = 0
        for f in faces:       # fan about the cell centre, two triangles per (planar) face
            a, b, cc, d = (p[i] for i in f)
            s += tet(c, a, b, cc) + tet(c, a, cc, d)
        return s
    raise ValueError(typ)


# ---- cell templates in doubled lattice coordinates (cell = [0,2]^3) -------
CORNER = {k: ((k & 1) * 2, ((k >> 1) & 1) * 2, ((k >> 2) & 1) * 2) for k in range(8)}
# natural hex numbering: 0..3 bottom counter-clockwise, 4..7 top
HEXC = [(0, 0, 0), (2, 0, 0), (2, 2, 0), (0, 2, 0), (0, 0, 2), (2, 0, 2), (2, 2, 2), (0, 2, 2)]
CENTRE = (1, 1, 1)
# the six faces of the cell as outward quads (natural hex) -> pyramids
PYR_BASES = {
    ('z', 0): [(0, 0, 0), (0, 2, 0), (2, 2, 0), (2, 0, 0)],
    ('z', 1): [(0, 0, 2), (2, 0, 2), (2, 2, 2), (0, 2, 2)],
    ('y', 0): [(0, 0, 0), (2, 0, 0), (2, 0, 2), (0, 0, 2)],
    ('y', 1): [(0, 2, 0), (0, 2, 2), (2, 2, 2), (2, 2, 0)],
    ('x', 0): [(0, 0, 0), (0, 0, 2), (0, 2, 2), (0, 2, 0)],
    ('x', 1): [(2, 0, 0), (2, 2, 0), (2, 2, 2), (2, 0, 2)],
}


def kuhn_tets():
    """6 tets: 0 -> e_a -> e_a+e_b -> (1,1,1) for every permutation (a,b,c)"""
    out = []
    for perm in permutations(range(3)):
        p = [0, 0, 0]
        pts = [tuple(p)]
        for a in perm:
            p[a] = 2
            pts.append(tuple(p))
        out.append(pts)
    return out


def prisms(axis):
    """2 prisms with axis `axis`; the cross-section square is split along its
    (0,0)-(1,1) diagonal (the Kuhn diagonal of that face)"""
    u, v = [a for a in range(3) if a != axis]

    def P(cu, cv, ca):
        q = [0, 0, 0]
        q[u], q[v], q[axis] = cu, cv, ca
        return tuple(q)
    t1 = [(0, 0), (2, 0), (2, 2)]
    t2 = [(0, 0), (2, 2), (0, 2)]
    out = []
    for t in (t1, t2):
        out.append([P(a, b, 0) for a, b in t] + [P(a, b, 2) for a, b in t])
    return out


CELL_TYPES = ['hex', 'pyr', 'tet', 'prismx', 'prismy', 'prismz']


def face_label(ctype, axis):
    if ctype in ('hex', 'pyr'):
        return 'Q'
    if ctype == 'tet':
        return 'T'
    return 'T' if ctype[-1] == 'xyz'[axis] else 'Q'


def gen_lattice(rng, dims, allowed, p_occ=0.8, partial=True):
    """returns list of (type, [lattice points])"""
    nx, ny, nz = dims
    cells = [(i, j, k) for i in range(nx) for j in range(ny) for k in range(nz)]
    occ = {c for c in cells if rng.random() < p_occ}
    if not occ:
        occ = {rng.choice(cells)}
    order = sorted(occ)
    rng.shuffle(order)
    assigned = {}
    for c in order:
        cands = []
        for ct in allowed:
            ok = True
            for axis in range(3):
                for d in (-1, 1):
                    n = list(c)
                    n[axis] += d
                    n = tuple(n)
                    if n in assigned and face_label(assigned[n], axis) != face_label(ct, axis):
                        ok = False
            if ok:
                cands.append(ct)
        if cands:
            assigned[c] = rng.choice(cands)
    elems = []
    for c, ct in sorted(assigned.items()):
        off = (2 * c[0], 2 * c[1], 2 * c[2])

        def sh(p):
            return (p[0] + off[0], p[1] + off[1], p[2] + off[2])
        if ct == 'hex':
            elems.append(('hex', [sh(p) for p in HEXC]))
        elif ct == 'pyr':
            keys = sorted(PYR_BASES)
            if partial and rng.random() < 0.5:
                keys = [k for k in keys if rng.random() < 0.6] or [rng.choice(keys)]
            for k in keys:
                elems.append(('pyr', [sh(p) for p in PYR_BASES[k]] + [sh(CENTRE)]))
        elif ct == 'tet':
            ts = kuhn_tets()
            if partial and rng.random() < 0.3:
                ts = [t for t in ts if rng.random() < 0.7] or [rng.choice(ts)]
            for t in ts:
                elems.append(('tet', [sh(p) for p in t]))
        else:
            for pr in prisms('xyz'.index(ct[-1])):
                elems.append(('prism', [sh(p) for p in pr]))
    return elems


def make_ids(rng, n, mode):
    if mode == 'seq':
        return list(range(1, n + 1))
    if mode == 'sparse':
        return rng.sample(range(1, 20 * n + 50), n)
    if mode == 'large':
        return rng.sample(range(2 ** 31 - 10 ** 6, 2 ** 31 - 1), n)
    if mode == 'huge':
        return rng.sample(range(2 ** 40, 2 ** 40 + 10 ** 6), n)
    if mode == 'radix':
        # ids on the lattice r + q*B with B near the node count and r small: different sorted id tuples
        # collide under every mixed-radix packing sum(id_i * B^i) of a face key (e.g. (a, b, c+B) and
        # (a, b+1, c)) — the class of "one integer key per face" rewrites (seeds r2-packed-facet-key-
        # node-count, r5-facet-key-base)
        B = n + rng.choice([0, 1, 1, 2])
        R = rng.choice([2, 3, 4])
        Q = -(-n // R) + rng.choice([0, 1, 2])
        return rng.sample([r + q * B for q in range(Q) for r in range(1, R + 1)], n)
    raise ValueError(mode)


DENSE_MODES = ['dense_ends', 'dense_swap', 'dense_moved', 'dense_reversed', 'dense_sorted']


def almost_sorted(rng, ids_sorted, mode):
    """storage order of a dense id range: ends in place + interior shuffled, two neighbours swapped,
    one id moved, reversed, sorted"""
    l = list(ids_sorted)
    n = len(l)
    if mode == 'dense_ends' and n > 3:
        mid = l[1:-1]
        rng.shuffle(mid)
        l = [l[0]] + mid + [l[-1]]
    elif mode == 'dense_swap' and n > 1:
        k = rng.randrange(n - 1)
        l[k], l[k + 1] = l[k + 1], l[k]
    elif mode == 'dense_moved' and n > 2:
        x = l.pop(rng.randrange(n))
        l.insert(rng.randrange(n), x)
    elif mode == 'dense_reversed':
        l.reverse()
    return l


def warp_point(warp, p):
    """maps of the (doubled) lattice that keep every lattice face planar but
    make the cells non-parallelepipeds (frustum: x, y scaled linearly in z);
    'twist' makes the z-faces of hexes non-planar (cells stay convex-ish)"""
    x, y, z = p
    if warp == 'frustum':
        return (x * (12 + z), y * (12 + z), 7 * z)
    if warp == 'frustum2':
        return (x * (20 - z), (y + 1) * (16 + z), 9 * z)
    if warp == 'twist':
        return (12 * x, 12 * y, 12 * z + ((x * y) // 4) % 3)
    return p


def gen_mesh(rng, kind=None, dims=None, id_mode=None, affine=None, tet2=False, extra_nodes=None,
             invert_one=False, max_elems=60, warp=None, extra_pos=None, invert_some=0.0):
    """-> dict(nodes=[(id,(x,y,z))...] storage order, blocks={type: [(eid,[node ids])...]}, meta)"""
    kinds = {
        'hex': ['hex'], 'tet': ['tet'], 'pyr': ['pyr'], 'prism': ['prismx', 'prismy', 'prismz'],
        'hexpyr': ['hex', 'pyr'], 'mix': CELL_TYPES, 'tetprism': ['tet', 'prismz'],
        'hextet': ['hex', 'tet'],
    }
    if kind is None:
        kind = rng.choice(list(kinds))
    if dims is None:
        dims = rng.choice([(1, 1, 1), (2, 1, 1), (2, 2, 1), (2, 2, 2), (3, 2, 1), (3, 3, 1), (3, 2, 2), (3, 3, 3)])
    while True:
        elems = gen_lattice(rng, dims, kinds[kind], p_occ=rng.choice([1.0, 0.85, 0.7, 0.5]))
        if len(elems) <= max_elems:
            break
        dims = tuple(max(1, d - 1) for d in dims)
    if affine is None:
        affine = rng.choice(AFFINE)
    name, M = affine
    t = (rng.randint(-5, 5), rng.randint(-5, 5), rng.randint(-5, 5))
    # lattice point -> node number
    pts = {}
    for typ, ps in elems:
        for p in ps:
            pts.setdefault(p, len(pts))
    if tet2:
        # mid-edge nodes of tets: doubled coordinates once more
        pass
    coords = {i: mat_apply(M, t, warp_point(warp, p)) for p, i in pts.items()}
    n = len(pts)
    conns = []
    for typ, ps in elems:
        c = [pts[p] for p in ps]
        if vol6(typ, [coords[i] for i in c]) < 0:
            c = [c[k] for k in FLIP[typ]]
        assert vol6(typ, [coords[i] for i in c]) > 0, (typ, ps)
        conns.append((typ, c))
    if tet2:
        # scale coordinates by 2 so that mid-edge points are integer
        coords = {i: (2 * x, 2 * y, 2 * z) for i, (x, y, z) in coords.items()}
        mids = {}
        new = []
        for typ, c in conns:
            if typ != 'tet' or (tet2 == 'some' and rng.random() < 0.5):
                new.append((typ, c))
                continue
            mid = []
            # FrontISTR 342 / femio tet2 order of mid-edge nodes: (1,2) (0,2) (0,1) (0,3) (1,3) (2,3)
            for a, b in [(1, 2), (0, 2), (0, 1), (0, 3), (1, 3), (2, 3)]:
                k = (min(c[a], c[b]), max(c[a], c[b]))
                if k not in mids:
                    mids[k] = n
                    pa, pb = coords[c[a]], coords[c[b]]
                    coords[n] = tuple((pa[i] + pb[i]) // 2 for i in range(3))
                    n += 1
                mid.append(mids[k])
            new.append(('tet2', c + mid))
        conns = new
    # unreferenced nodes
    if extra_nodes is None:
        extra_nodes = rng.choice([0, 0, 1, 3])
    for _ in range(extra_nodes):
        coords[n] = (rng.randint(-9, 9), rng.randint(-9, 9), rng.randint(-9, 9))
        n += 1
    inv_k = None
    if invert_one and conns:
        k = rng.randrange(len(conns))
        inv_k = k
        typ, c = conns[k]
        base = 'tet' if typ == 'tet2' else typ
        f = FLIP[base]
        conns[k] = (typ, [c[i] for i in f] + c[len(f):])
    n_inverted = 0
    if invert_some:
        for k, (typ, c) in enumerate(conns):
            if typ in FLIP and rng.random() < invert_some:
                conns[k] = (typ, [c[i] for i in FLIP[typ]])
                n_inverted += 1
    if id_mode is None:
        id_mode = rng.choice(['seq', 'sparse', 'sparse', 'large', 'huge'] + DENSE_MODES)
    n_ref = n - extra_nodes
    if id_mode in DENSE_MODES:
        # dense range a..a+n-1; node -> id assignment random; storage = almost sorted by id;
        # unreferenced nodes get the lowest / middle / highest ids = stored first / in the middle / last
        a0 = rng.choice([1, 1, 1000, 2 ** 31 - 5000, 2 ** 40])
        if extra_pos is None:
            extra_pos = rng.choice(['first', 'middle', 'last'])
        ref = list(range(n_ref))
        rng.shuffle(ref)
        ext = list(range(n_ref, n))
        cut = {'first': 0, 'last': n_ref, 'middle': n_ref // 2}.get(extra_pos, n_ref)
        seq = ref[:cut] + ext + ref[cut:]                     # seq[k] gets id a0 + k
        nid = [None] * n
        for k, i in enumerate(seq):
            nid[i] = a0 + k
        by_id = {nid[i]: i for i in range(n)}
        order = [by_id[x] for x in almost_sorted(rng, sorted(by_id), id_mode)]
    else:
        nid = make_ids(rng, n, id_mode)
        order = list(range(n))
        if id_mode != 'seq' or rng.random() < 0.5:
            rng.shuffle(order)
        if extra_pos in ('first', 'middle', 'last') and extra_nodes:
            ref = [i for i in order if i < n_ref]
            ext = [i for i in order if i >= n_ref]
            cut = {'first': 0, 'last': len(ref), 'middle': len(ref) // 2}[extra_pos]
            order = ref[:cut] + ext + ref[cut:]
    nodes = [(nid[i], coords[i]) for i in order]
    if id_mode in DENSE_MODES:
        eids = list(range(1, len(conns) + 1)) if rng.random() < 0.5 else \
            list(range(500, 500 + len(conns)))
        rng.shuffle(eids)
    else:
        eids = make_ids(rng, len(conns), rng.choice(['seq', 'sparse']) if id_mode != 'huge' else 'sparse')
    inverted_eid = eids[inv_k] if inv_k is not None else None
    blocks = {}
    for (typ, c), e in zip(conns, eids):
        blocks.setdefault(typ, []).append((e, [nid[i] for i in c]))
    for typ in blocks:
        if id_mode in DENSE_MODES:
            # element ids inside each type block: almost sorted as well
            srt = sorted(blocks[typ])
            by = {e: (e, c) for e, c in srt}
            blocks[typ] = [by[e] for e in almost_sorted(rng, [e for e, _ in srt], id_mode)]
        else:
            rng.shuffle(blocks[typ])
    blocks = {typ: blocks[typ] for typ in TYPE_ORDER if typ in blocks}
    meta = {'kind': kind, 'dims': list(dims), 'affine': name, 'id_mode': id_mode, 'tet2': tet2,
            'extra_nodes': extra_nodes, 'extra_pos': extra_pos, 'n_inverted': n_inverted,
            'invert_one': invert_one, 'warp': warp, 'inverted_eid': inverted_eid,
            'n_elem': len(conns), 'n_node': n}
    return {'nodes': nodes, 'blocks': blocks, 'meta': meta}
