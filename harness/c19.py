"""C19 — analysis queries are pure and independent of call history."""
import copy
import json
import re
import subprocess
import sys
from pathlib import Path

sys.path.insert(0, str(Path(__file__).resolve().parent))
sys.path.insert(0, str(Path(__file__).resolve().parent.parent / 'translate'))
import lib  # noqa
import c19_caches  # noqa
import c19_slots  # noqa
import c19_slotcode  # noqa

SOLID = ('tet', 'hex', 'prism')
SHELL = ('tri', 'quad')
ALL = SOLID + SHELL
MIXED = ('mixed', 'mixedp')          # hex + tet blocks / hex + prism blocks in one mesh
ALL_KINDS = ALL + MIXED

# query -> (mesh kinds it is meaningful on, keyword variants)
CATALOGUE = {
    'calculate_element_volumes': (SOLID + MIXED, [{}, {'mode': 'linear'}, {'mode': 'centroid'},
                                                  {'raise_negative_volume': False},
                                                  {'raise_negative_volume': False, 'return_abs_volume': True},
                                                  {'elements': {'$block': 'tet'}},
                                                  {'elements': {'$block': 'hex'}, 'mode': 'linear'},
                                                  {'elements': {'$block': 'tet'}, 'update': False}]),
    'calculate_element_areas': (SHELL, [{}, {'mode': 'linear'}, {'mode': 'centroid'},
                                        {'return_abs_area': False},
                                        {'elements': {'$block': 'quad'}}, {'elements': {'$block': 'tri'}}]),
    'calculate_element_metrics': (ALL + MIXED, [{}, {'raise_negative_metric': False},
                                                {'raise_negative_metric': False, 'return_abs_metric': True},
                                                {'elements': {'$block': 'tet'}},
                                                {'elements': {'$block': 'hex'}, 'update': False}]),
    'calculate_incidence_matrix': (ALL + MIXED, [{}, {'order1_only': True}, {'order1_only': False}]),
    'calculate_adjacency_matrix': (ALL + MIXED, [{}, {'mode': 'nodal'}, {'mode': 'nodal', 'order1_only': False}]),
    'calculate_adjacency_matrix_element': (ALL + MIXED, [{}, {'order1_only': False}]),
    'calculate_adjacency_matrix_node': (ALL + MIXED, [{}, {'order1_only': True}, {'order1_only': False}]),
    'calculate_laplacian_matrix': (ALL + MIXED, [{}, {'mode': 'elemental'}]),
    'calculate_edge_gradient_matrix': (ALL, [{}, {'mode': 'elemental'}]),
    'calculate_n_hop_adj': (ALL + MIXED, [{}, {'mode': 'nodal', 'n_hop': 2}, {'n_hop': 2, 'include_self_loop': False},
                                  {'n_hop': 1, 'include_self_loop': False},
                                  {'mode': 'nodal', 'n_hop': 1, 'include_self_loop': False},
                                  {'mode': 'nodal', 'n_hop': 1, 'include_self_loop': True},
                                  {'mode': 'elemental', 'n_hop': 1, 'include_self_loop': False,
                                   'order1_only': False}]),
    'calculate_e2v_matrix': (ALL + MIXED, [{}, {'mode': 'nodal'}]),
    'calculate_element_degree': (ALL + MIXED, [{}]),
    'filter_first_order_nodes': (ALL + MIXED, [{}]),
    'extract_surface': (SOLID, [{}]),
    'extract_facets': (SOLID, [{}]),
    'calculate_surface_normals': (SOLID, [{}, {'mode': 'effective'}]),
    'calculate_all_element_normals': (SOLID, [{}]),
    'calculate_normal_incidence_matrix': (SOLID, [{}]),
    'calculate_element_normals': (SHELL, [{}, {'mode': 'linear'}]),
    'calculate_edge_lengths': (SHELL, [{}]),
    'calculate_angles': (SHELL, [{}]),
    'calculate_jacobians': (SHELL, [{}]),
    'calculate_frame_tensor_adjs': (ALL, [{}, {'mode': 'nodal'}]),
    'convert_nodal2elemental': (ALL + MIXED, [{'data': 'u', 'calc_average': True}, {'data': 'NODE', 'calc_average': True}]),
    'convert_elemental2nodal': (ALL, [{'elemental_data': {'$elemental': 'w'}},
                                      {'elemental_data': {'$elemental': 'w'}, 'mode': 'effective'}]),
    'integrate_elements': (('tet',), [{'nodal_data': {'$nodal': 'u'}}]),
    'calculate_element_centroids': (ALL + MIXED, [{}]),
    'calculate_spatial_gradient_adjacency_matrices': (SOLID, [{}, {'mode': 'nodal'}, {'n_hop': 2}]),
    'calculate_nodal_spatial_gradients': (SOLID, [{'nodal_data': {'$nodal': 'u'}}]),
    'calculate_elemental_spatial_gradients': (SOLID, [{'elemental_data': {'$elemental': 'w'}}]),
    'calculate_spatial_gradient_incidence_matrix': (SOLID, [{}]),
    'integrate_node_attribute_over_surface': (SOLID, [{'attr_name': 'u'}]),
    'calculate_moving_average_elemental_data': (ALL, [{'elemental_data': {'$elemental': 'w'}},
                                                      {'elemental_data': {'$elemental': 'w'}, 'hops': 2}]),
    'calculate_moving_average_nodal_data': (ALL, [{'nodal_data': {'$nodal': 'u'}},
                                                  {'nodal_data': {'$nodal': 'u'}, 'hops': 2}]),
    'calculate_median_filter': (ALL, [{'data': {'$elemental': 'w'}},
                                      {'data': {'$nodal': 'u'}, 'mode': 'nodal'}]),
    'calculate_diffusion_elemental_data': (ALL, [{'elemental_data': {'$elemental': 'w'}}]),
    'calculate_edge_differences': (ALL, [{'data': {'$elemental': 'w'}},
                                         {'data': {'$nodal': 'u'}, 'mode': 'nodal'},
                                         {'data': {'$elemental': 'w'}, 'include_self_loop': True}]),
}
# argument values used for the model's [Query a; Query a'] witnesses
ARG_VALUES = {
    'mode': [('linear', 'centroid'), ('centroid', 'linear')],
    'raise_negative_volume': [(False, True)], 'raise_negative_area': [(False, True)],
    'raise_negative_metric': [(False, True)],
    'return_abs_volume': [(True, False)], 'return_abs_area': [(True, False)],
    'return_abs_metric': [(True, False)],
    'update': [(False, True)],
}
RUNNABLE_WRITERS = ['write_fistr', 'write_ucd', 'write_obj', 'write_vtk']
BASELINE = lib.COQ / 'C19' / 'gen_baseline'
REINDEX_KINDS = ['ids_roll', 'ids_reverse', 'update_overwrite', 'update_add']
DERIVS = {'to_surface': SOLID, 'to_polyhedron': SOLID, 'to_facets': SOLID, 'to_first_order': ALL,
          'resolve_degeneracy': SOLID}


# ------------------------------------------------------------------ meshes
def _label(rng, n, mode):
    if mode == 'seq':
        ids = list(range(1, n + 1))
    elif mode == 'sparse':
        ids = rng.sample(range(1, 20 * n + 10), n)
    else:
        ids = rng.sample(range(10 ** 6, 10 ** 6 + 50 * n), n)
    return ids


def gen_mesh(rng, kind, feat=None):
    """raw mesh spec; feat: set of {'unref', 'inverted', 'jitter', 'timeseries', 'derived_names',
    'negative_values', 'partial_nodal'}; kind 'mixed' = a hex block and a tet block in one mesh,
    'mixedp' = a hex block and a prism block"""
    feat = set(feat or [])
    if kind in MIXED:
        second = 'tet' if kind == 'mixed' else 'prism'
        a = gen_mesh(rng, 'hex', feat - {'derived_names', 'partial_nodal', 'timeseries'})
        b = gen_mesh(rng, second, [])
        off_n = max(a['nodes']['ids']) + 7
        off_e = max(a['elements']['hex']['ids']) + 3
        bn = [i + off_n for i in b['nodes']['ids']]
        m = {'kind': kind, 'features': sorted(feat),
             'nodes': {'ids': a['nodes']['ids'] + bn,
                       'xyz': a['nodes']['xyz'] + [[p[0] + 40, p[1], p[2]] for p in b['nodes']['xyz']]},
             'elements': {'hex': a['elements']['hex'],
                          second: {'ids': [i + off_e for i in b['elements'][second]['ids']],
                                   'conn': [[v + off_n for v in c] for c in b['elements'][second]['conn']]}},
             'nodal': {'u': a['nodal']['u'] + b['nodal']['u']},
             'elemental': {'w': a['elemental']['w'] + b['elemental']['w']}}
        _decorate(rng, m, feat)
        return m
    nx = rng.choice([1, 2, 2, 3])
    pts, cells = [], []
    if kind in SOLID:
        idx = {}
        for i in range(nx + 1):
            for j in range(2):
                for k in range(2):
                    idx[(i, j, k)] = len(pts)
                    pts.append([2 * i, 2 * j, 2 * k])
        for i in range(nx):
            c = [idx[(i, 0, 0)], idx[(i + 1, 0, 0)], idx[(i + 1, 1, 0)], idx[(i, 1, 0)],
                 idx[(i, 0, 1)], idx[(i + 1, 0, 1)], idx[(i + 1, 1, 1)], idx[(i, 1, 1)]]
            if kind == 'hex':
                cells.append(c)
            elif kind == 'prism':
                # two wedges per cell, femio's orientation (positive volume)
                cells.append([c[0], c[2], c[1], c[4], c[6], c[5]])
                cells.append([c[0], c[3], c[2], c[4], c[7], c[6]])
            else:
                # 6 tets around the diagonal c0-c6 (positively oriented)
                for a, b in ((1, 2), (2, 3), (3, 7), (7, 4), (4, 5), (5, 1)):
                    cells.append([c[0], c[a], c[b], c[6]])
    else:
        ny = rng.choice([1, 2])
        idx = {}
        for i in range(nx + 1):
            for j in range(ny + 1):
                idx[(i, j)] = len(pts)
                pts.append([2 * i, 2 * j, 0])
        for i in range(nx):
            for j in range(ny):
                q = [idx[(i, j)], idx[(i + 1, j)], idx[(i + 1, j + 1)], idx[(i, j + 1)]]
                if kind == 'quad':
                    cells.append(q)
                else:
                    cells.append([q[0], q[1], q[2]])
                    cells.append([q[0], q[2], q[3]])
    if kind == 'tet':
        # positive orientation by construction (the 'inverted' feature flips one on purpose)
        for c in cells:
            a, b, d, e = (pts[i] for i in c)
            u = [b[k] - a[k] for k in range(3)]
            v = [d[k] - a[k] for k in range(3)]
            w = [e[k] - a[k] for k in range(3)]
            det = (u[0] * (v[1] * w[2] - v[2] * w[1]) - u[1] * (v[0] * w[2] - v[2] * w[0])
                   + u[2] * (v[0] * w[1] - v[1] * w[0]))
            if det < 0:
                c[0], c[1] = c[1], c[0]
    if 'jitter' in feat or kind in ('hex', 'quad'):
        for p in pts:
            if rng.random() < 0.5:
                p[rng.randrange(3)] += rng.choice([-1, 1]) * rng.choice([0.25, 0.5])
    if 'inverted' in feat and kind == 'tet':
        c = cells[rng.randrange(len(cells))]
        c[0], c[1] = c[1], c[0]
    if 'inverted' in feat and kind == 'prism':
        c = cells[rng.randrange(len(cells))]
        c[1], c[2], c[4], c[5] = c[2], c[1], c[5], c[4]
    # integer affine image (shear + translation): keeps orientation
    sh = rng.choice([0, 1])
    tx = rng.choice([0, 3])
    pts = [[p[0] + sh * p[1] + tx, p[1], p[2] + sh * p[0]] for p in pts]
    n_ref = len(pts)
    if 'unref' in feat:
        for _ in range(rng.choice([1, 2])):
            pts.insert(rng.randrange(len(pts) + 1), None)
    # storage order and ids
    order = [i for i, p in enumerate(pts) if p is not None]
    new_index = {}
    k = 0
    for i, p in enumerate(pts):
        if p is None:
            pts[i] = [rng.randrange(-5, 9), rng.randrange(-5, 9), rng.randrange(-5, 9)]
        else:
            new_index[k] = i
            k += 1
    perm = list(range(len(pts)))
    rng.shuffle(perm)                       # storage position -> original index
    ids = _label(rng, len(pts), rng.choice(['seq', 'sparse', 'sparse', 'big']))
    pos_of = {orig: s for s, orig in enumerate(perm)}
    node_ids = [ids[s] for s in range(len(pts))]
    xyz = [pts[perm[s]] for s in range(len(pts))]
    conn = [[node_ids[pos_of[new_index[v]]] for v in c] for c in cells]
    eorder = list(range(len(cells)))
    rng.shuffle(eorder)
    conn = [conn[i] for i in eorder]
    eids = _label(rng, len(cells), rng.choice(['seq', 'sparse']))
    mesh = {'kind': kind, 'features': sorted(feat),
            'nodes': {'ids': node_ids, 'xyz': xyz},
            'elements': {kind: {'ids': eids, 'conn': conn}},
            'nodal': {'u': [[float(rng.randrange(-9, 9))] for _ in node_ids]},
            'elemental': {'w': [[float(rng.randrange(-9, 9))] for _ in eids]}}
    if 'timeseries' in feat:
        mesh['nodal']['t'] = [[[float(rng.randrange(9))] for _ in node_ids] for _ in range(2)]
        mesh['nodal']['t_0'] = [[float(100 + i)] for i, _ in enumerate(node_ids)]
    assert n_ref <= len(pts)
    _decorate(rng, mesh, feat)
    return mesh


def _decorate(rng, mesh, feat):
    """user variables with awkward names / supports"""
    node_ids = mesh['nodes']['ids']
    n_el = sum(len(b['ids']) for b in mesh['elements'].values())
    if 'derived_names' in feat:
        # variables the USER stored under names the library also uses for derived data
        mesh['nodal']['normal'] = [[7., 7., 7.] for _ in node_ids]
        # (signed: a stored signed volume of a mesh with inverted elements has negative entries)
        sign = (lambda i: -1. if i % 2 else 1.) if 'negative_values' in feat else (lambda i: 1.)
        for nm in ('volume', 'area', 'metric', 'degree', 'normal'):
            if rng.random() < 0.7 or nm in ('volume', 'metric', 'area'):
                mesh['elemental'][nm] = [[sign(i) * (42. + i)] * (3 if nm == 'normal' else 1) for i in range(n_el)]
    if 'partial_nodal' in feat:
        used = sorted({v for b in mesh['elements'].values() for c in b['conn'] for v in c})
        k = max(1, len(used) // 2)
        mesh['nodal_partial'] = {'p': {'ids': used[:k], 'values': [[float(i)] for i in range(k)]}}


# ------------------------------------------------------------------ histories
def q_op(o, q, kw):
    return {'op': 'query', 'o': o, 'q': q, 'kwargs': kw}


def e_op(o, e, args=None):
    return {'op': 'effect', 'o': o, 'e': e, 'args': args or {}}


def applicable(cat, kind):
    return [q for q, (kinds, _) in cat.items() if kind in kinds]


def gen_history(rng, cat, modifiers, tier):
    n_obj = rng.choice([1, 1, 2, 3])
    kinds, hist = {}, []
    for o in range(n_obj):
        kind = rng.choice(['tet', 'tet', 'hex', 'hex', 'tri', 'quad', 'prism'])
        feat = [f for f in ('unref', 'inverted') if rng.random() < 0.5]
        kinds[o] = kind
        hist.append({'op': 'new', 'o': o, 'mesh': gen_mesh(rng, kind, feat)})
    n_ops = rng.randrange(4, 11)
    next_o = n_obj
    focus = rng.sample(sorted(cat), min(len(cat), rng.choice([2, 3, 5])))
    for _ in range(n_ops):
        o = rng.choice(sorted(kinds))
        kind = kinds[o]
        r = rng.random()
        if r < 0.62:
            qs = [q for q in applicable(cat, kind.split('>')[0])]
            if not qs:
                continue
            pool = [q for q in qs if q in focus] or qs
            q = rng.choice(pool if rng.random() < 0.7 else qs)
            hist.append(q_op(o, q, rng.choice(cat[q][1])))
        elif r < 0.80:
            e = rng.choice(modifiers)
            args = {}
            if e == 'assign_connectivity':
                args = {'kind': rng.choice(['roll', 'swap01', 'swap_first', 'same_array', 'same_array_rows'])}
            if e in ('rotation', 'translation'):
                args = {'reset': rng.random() < 0.6}
            if e == 'assign_nodes':
                args = {'kind': rng.choice(['new', 'same_array'])}
            if e == 'reindex_nodes':
                args = {'kind': rng.choice(REINDEX_KINDS)}
            hist.append(e_op(o, e, args))
        elif r < 0.90:
            hist.append(e_op(o, rng.choice(RUNNABLE_WRITERS)))
        else:
            base = kind.split('>')[0]
            ds = [d for d, ks in DERIVS.items() if base in ks and '>' not in kind]
            if not ds or next_o >= 5:
                continue
            d = rng.choice(ds)
            hist.append({'op': 'derive', 'o': o, 'o2': next_o, 'd': d})
            child_kind = {'to_surface': 'tri' if base == 'tet' else 'quad',
                          'to_facets': 'tri' if base == 'tet' else 'quad',
                          'to_polyhedron': base, 'to_first_order': base, 'resolve_degeneracy': base}[d]
            kinds[next_o] = child_kind + '>' + d
            next_o += 1
    return hist


def pair_histories(ctx, cat, cfgq, tier):
    """every (query, variant) of the pool once as the first call of a fresh object, followed by
    the sentinels = every variant of every memoised query (a query that changes the value object
    of somebody's cache entry, or anything else later calls depend on, shows there); thorough:
    sentinels also before it (entries that exist already), and every applicable mesh kind"""
    rng = ctx.rng
    out = []
    memo = [q for q, c in cfgq.items() if c['lru'] is not None or c['slot'] is not None] or \
        [q for q in cat if q.startswith('calculate_adjacency') or q == 'calculate_incidence_matrix']
    pool = [(q, kw) for q in sorted(cat) for kw in cat[q][1]]
    meshes = {}

    def mesh(kind):
        if kind not in meshes or tier == 'thorough':
            meshes[kind] = gen_mesh(rng, kind, [])
        return meshes[kind]
    for n, (q1, kw1) in enumerate(pool):
        kinds = list(cat[q1][0])
        if tier != 'thorough':
            kinds = [kinds[n % len(kinds)]]
        if any(isinstance(v, dict) and '$block' in v for v in kw1.values()) and 'mixed' in cat[q1][0]:
            kinds = sorted(set(kinds) | {'mixed'})
        for kind in kinds:
            sent = [q_op(0, q, kw) for q in sorted(memo) if q in cat and kind in cat[q][0] for kw in cat[q][1]]
            head = sent if tier == 'thorough' else []
            out.append([{'op': 'new', 'o': 0, 'mesh': mesh(kind)}] + head + [q_op(0, q1, kw1)] + sent)
    return out


def run_impl(ctx, histories, tag='run', timeout=1500):
    spec = {'work': str(ctx.scratch / 'work'), 'out': str(ctx.scratch / f'impl_{tag}.json'),
            'histories': histories}
    (ctx.scratch / 'work').mkdir(exist_ok=True)
    r = subprocess.run([lib.PY, str(lib.VERIF / 'harness' / 'c19_impl.py')], input=json.dumps(spec),
                       text=True, capture_output=True, env=lib.impl_env(), timeout=timeout)
    if r.returncode != 0:
        raise RuntimeError('impl runner failed: ' + r.stderr[-2000:])
    return json.loads(Path(spec['out']).read_text())


# ------------------------------------------------------------------ judging
def problems(hist, res):
    """list of (index, kind, detail) where the property fails in this run"""
    out = []
    if 'fatal' in res:
        return [(-1, 'harness', res['fatal'])]
    for rec in res['ops']:
        i = rec['i']
        if 'error' in rec:
            out.append((i, 'harness', rec['error'] + ' @ ' + json.dumps({k: v for k, v in hist[i].items() if k != 'mesh'})
                        + ' :: ' + rec.get('trace', '')[-400:] if hist else rec['error']))
            continue
        if rec['op'] == 'query' and 'equal' in rec:
            if not rec['equal']:
                out.append((i, 'value', {'expected': rec.get('expected'), 'observed': rec.get('observed')}))
            if rec.get('changed'):
                out.append((i, 'query-mutates', rec['changed']))
        elif rec['op'] == 'effect' and 'e' in rec:
            if rec['e'].startswith('write_'):
                if rec.get('changed'):
                    out.append((i, 'writer-mutates', rec['changed']))
            elif rec.get('effect_equal') is False:
                out.append((i, 'modifier-differs', {'raised': rec.get('raised'), 'ref_raised': rec.get('ref_raised')}))
            if not rec['e'].startswith('write_') and rec.get('changed_other'):
                out.append((i, 'modifier-changes-other-object', rec['changed_other']))
        elif rec['op'] == 'derive':
            if rec.get('equal') is False:
                out.append((i, 'value', {'expected': rec.get('expected'), 'observed': rec.get('observed')}))
            if rec.get('changed'):
                out.append((i, 'derive-mutates', rec['changed']))
    return out


def kind_of_query(cfgq, q):
    c = cfgq.get(q)
    if c is None:
        return 'plain'
    if c['lru'] is not None:
        return 'lru'
    if c['slot'] is not None:
        return 'slot'
    return 'plain'


def pins(cfgq):
    """fingerprints of the memo inventory: a known finding about a modifier that does not
    invalidate is pinned to the set of memoised methods it was triaged with, so that a newly
    memoised method is never covered by it"""
    memo = sorted((q, str(c['lru'])) for q, c in cfgq.items() if c['lru'] is not None)
    slots = sorted((q, c['slot'][0]) for q, c in cfgq.items() if c['slot'] is not None)
    return lib.sha(json.dumps(memo))[:12], lib.sha(json.dumps(slots))[:12]


def signature_of(hist, cfgq, res=None):
    sig = signature_of0(hist, cfgq)
    if res is not None and 'ops' in res:
        # an effect that raised midway is a different root cause than one that completed
        raised = [r.get('raised') for h, r in zip(hist, res['ops']) if h['op'] == 'effect' and r.get('raised')]
        if raised and 'effect' in sig:
            sig['effect_raised'] = raised[-1]
        last = res['ops'][-1]
        # a modifier on one object changed another one (derived from it / its parent)
        if hist[-1]['op'] == 'effect' and last.get('changed_other') and not hist[-1]['e'].startswith('write_'):
            dv = [h for h in hist if h['op'] == 'derive' and hist[-1]['o'] in (h['o'], h['o2'])]
            if dv:
                sig = {'kind': 'modifier-reaches-other-object', 'deriv': dv[-1]['d'], 'effect': hist[-1]['e'],
                       'modified': 'child' if hist[-1]['o'] == dv[-1]['o2'] else 'parent'}
        # nodal_data['NODE'] no longer IS the node table (a modifier replaced one of them) and a
        # later modification of the node table is not seen by a query that reads the variable
        ops_ = [h for h in hist if h['op'] != 'new']
        if len(ops_) == 3 and ops_[0]['op'] == ops_[1]['op'] == 'effect' and ops_[2]['op'] == 'query' \
                and ops_[0]['o'] == ops_[1]['o'] == ops_[2]['o'] and last.get('node_detached') \
                and ops_[1]['e'] in ('reindex_nodes', 'assign_nodes', 'rotation', 'translation'):
            sig = {'kind': 'node-variable-detached', 'by': ops_[0]['e'], 'effect': ops_[1]['e']}
        # a query that changed protected data: say which
        if hist[-1]['op'] in ('query', 'derive') and last.get('changed'):
            sig = {'kind': 'query-overwrites-user-variable', 'query': hist[-1].get('q') or hist[-1].get('d'),
                   'variables': sorted({c.split(':', 1)[1] for c in last['changed']})}
    memo_pin, slot_pin = pins(cfgq)
    if sig['kind'] in ('stale-lru', 'stale-derive'):
        sig['memo_inventory'] = memo_pin
    if sig['kind'] in ('stale-slot', 'share'):
        sig['slot_inventory'] = slot_pin
    return sig


def signature_of0(hist, cfgq):
    """signature of a (minimal) failing history: what shape of history breaks which query"""
    ops = [op for op in hist if op['op'] != 'new']
    # a leading derivation whose child is the only object used afterwards just builds the object
    built_by = []
    while len(ops) > 1 and ops[0]['op'] == 'derive' and \
            all(o['o'] == ops[0]['o2'] and o['op'] != 'derive' for o in ops[1:]):
        built_by.append(ops[0]['d'])
        ops = ops[1:]
    # derivations in front that only set the scene (objects built from one another)
    while len(ops) > 3 and ops[0]['op'] == 'derive' and all(o['op'] != 'derive' for o in ops[1:]) \
            and len({o['o'] for o in ops[1:]}) == 1:
        built_by.append(ops[0]['d'])
        ops = ops[1:]
    if built_by and ops[-1]['op'] == 'effect' and not ops[-1]['e'].startswith('write_') and len(ops) == 1:
        return {'kind': 'modifier-differs', 'effect': ops[-1]['e'], 'after': 'D:' + built_by[-1]}
    names = []
    for op in ops:
        if op['op'] == 'query':
            names.append('Q:' + op['q'])
        elif op['op'] == 'effect':
            names.append('E:' + op['e'])
        else:
            names.append('D:' + op['d'])
    last = ops[-1] if ops else None
    if last is None:
        return {'kind': 'other', 'ops': ''}
    if last['op'] == 'query':
        q = last['q']
        qk = kind_of_query(cfgq, q)
        if len(ops) == 3 and ops[0]['op'] == 'query' and ops[0]['q'] == q and ops[1]['op'] == 'effect' \
                and ops[0]['o'] == ops[1]['o'] == last['o'] and ops[0]['kwargs'] == last['kwargs']:
            return {'kind': 'stale-' + qk, 'query': q, 'effect': ops[1]['e']}
        if len(ops) == 2 and ops[0]['op'] == 'effect' and ops[0]['o'] == last['o']:
            return {'kind': 'stale-' + qk, 'query': q, 'effect': ops[0]['e']}
        if len(ops) == 2 and ops[0]['op'] == 'query' and ops[0]['q'] == q and ops[0]['o'] == last['o']:
            if 'elements' in ops[0]['kwargs'] and 'elements' not in last['kwargs']:
                return {'kind': 'slot-partial', 'query': q}
            return {'kind': 'slot-key', 'query': q}
        if len(ops) == 3 and all(x['op'] == 'query' and x['q'] == q for x in ops) \
                and ops[0]['o'] == last['o'] != ops[1]['o']:
            return {'kind': 'slot-key-cross-object', 'query': q}
        if len(ops) == 3 and ops[0]['op'] == 'query' and ops[1]['op'] == 'derive':
            return {'kind': 'share', 'deriv': ops[1]['d'], 'query': q,
                    'on': 'child' if last['o'] == ops[1]['o2'] else 'parent'}
        if len(ops) == 3 and ops[0]['op'] == 'derive' and ops[1]['op'] == 'query':
            return {'kind': 'share', 'deriv': ops[0]['d'], 'query': q,
                    'on': 'child' if last['o'] == ops[0]['o2'] else 'parent'}
        if len(ops) == 2 and ops[0]['op'] == 'query' and ops[0]['o'] == last['o']:
            if qk == 'slot':
                # the slot of q was filled by a nested call of another query
                if 'elements' in ops[0]['kwargs'] and 'elements' not in last['kwargs']:
                    return {'kind': 'slot-partial', 'query': q}
                return {'kind': 'slot-key', 'query': q}
            return {'kind': 'query-after-query', 'query': q, 'first': ops[0]['q']}
    if last['op'] == 'query' and len(ops) == 4 and ops[0]['op'] == 'derive' and ops[1]['op'] == 'query' \
            and ops[2]['op'] == 'effect' and ops[1]['o'] == last['o'] and ops[2]['o'] != last['o'] \
            and {ops[2]['o'], last['o']} == {ops[0]['o'], ops[0]['o2']}:
        d = ops[0]
        return {'kind': 'shared-table-modified', 'deriv': d['d'], 'effect': ops[2]['e'],
                'modified': 'child' if ops[2]['o'] == d['o2'] else 'parent',
                'queried': 'child' if last['o'] == d['o2'] else 'parent'}
    if last['op'] == 'query' and len(ops) == 4 and ops[0]['op'] == 'query' and ops[1]['op'] == 'derive' \
            and ops[2]['op'] == 'effect' and ops[0]['o'] == last['o'] and ops[2]['o'] != last['o'] \
            and {ops[2]['o'], last['o']} == {ops[1]['o'], ops[1]['o2']}:
        d = ops[1]
        return {'kind': 'shared-table-modified', 'deriv': d['d'], 'effect': ops[2]['e'],
                'modified': 'child' if ops[2]['o'] == d['o2'] else 'parent',
                'queried': 'child' if last['o'] == d['o2'] else 'parent'}
    if last['op'] == 'query' and len(ops) == 3 and ops[0]['op'] == 'derive' and ops[1]['op'] == 'effect':
        d = ops[0]
        return {'kind': 'shared-table-modified', 'deriv': d['d'], 'effect': ops[1]['e'],
                'modified': 'child' if ops[1]['o'] == d['o2'] else 'parent',
                'queried': 'child' if last['o'] == d['o2'] else 'parent'}
    if last['op'] == 'query' and len(ops) == 3 and sum(1 for x in ops if x['op'] == 'derive') == 1:
        d = [x for x in ops if x['op'] == 'derive'][0]
        return {'kind': 'share', 'deriv': d['d'], 'query': last['q'],
                'on': 'child' if last['o'] == d['o2'] else 'parent'}
    if last['op'] == 'derive':
        if len(ops) == 3 and ops[0]['op'] == 'derive' and ops[0]['d'] == last['d'] and ops[1]['op'] == 'effect':
            return {'kind': 'stale-derive', 'deriv': last['d'], 'effect': ops[1]['e']}
        if len(ops) == 2 and ops[0]['op'] == 'effect':
            return {'kind': 'stale-derive', 'deriv': last['d'], 'effect': ops[0]['e']}
        if len(ops) == 2 and ops[0]['op'] == 'query':
            return {'kind': 'derive-after-query', 'deriv': last['d'], 'first': ops[0]['q']}
    if last['op'] == 'effect' and not last['e'].startswith('write_') and len(ops) in (2, 3) and \
            sum(1 for x in ops if x['op'] == 'derive') == 1 and all(x['op'] != 'effect' for x in ops[:-1]):
        d = [x for x in ops if x['op'] == 'derive'][0]
        return {'kind': 'modifier-reaches-other-object', 'deriv': d['d'], 'effect': last['e'],
                'modified': 'child' if last['o'] == d['o2'] else 'parent'}
    if last['op'] == 'effect' and not last['e'].startswith('write_') and len(ops) == 2:
        return {'kind': 'modifier-differs', 'effect': last['e'], 'after': names[0]}
    if last['op'] == 'effect' and last['e'].startswith('write_') and len(ops) == 2 and ops[0]['op'] == 'derive':
        d = ops[0]
        return {'kind': 'shared-table-modified', 'deriv': d['d'], 'effect': last['e'],
                'modified': 'child' if last['o'] == d['o2'] else 'parent', 'queried': 'snapshot'}
    if last['op'] == 'effect' and last['e'].startswith('write_') and len(ops) == 1:
        return {'kind': 'writer-mutates', 'effect': last['e'],
                'mesh': 'timeseries' if 'timeseries' in hist[0]['mesh'].get('features', []) else 'plain'}
    return {'kind': 'other', 'ops': ';'.join(names)}


def still_fails(res, want_kind):
    ps = problems(None, res)
    if not ps:
        return False
    last_i = max(r['i'] for r in res['ops']) if 'ops' in res else -1
    return any(i == last_i and k == want_kind for (i, k, _) in ps)


def candidates(hist, i):
    """small histories, built from hist, that might already show the failure at op i"""
    op = hist[i]
    news = {h['o']: h for h in hist if h['op'] == 'new'}
    derived = {h['o2']: h for h in hist[:i] if h['op'] == 'derive'}
    out = []

    def base(o):
        if o in news:
            return [news[o]]
        if o in derived:
            d = derived[o]
            return base(d['o']) + [d]
        return []
    o = op['o']
    pre = base(o)
    if not pre:
        return out
    earlier = [h for h in hist[:i] if h['op'] != 'new']
    if op['op'] == 'query':
        for h in earlier:
            if h['op'] == 'effect' and h['o'] == o:
                out.append(pre + [copy.deepcopy(op), h, op])
                out.append(pre + [h, op])
            if h['op'] == 'query' and h['o'] == o and h['q'] == op['q'] and h['kwargs'] != op['kwargs']:
                out.append(pre + [h, op])
            if h['op'] == 'query' and h['o'] == o and h['q'] != op['q']:
                out.append(pre + [h, op])
        if o in derived:
            d = derived[o]
            par = base(d['o'])
            for h in earlier:
                if h['op'] == 'query' and h['o'] == d['o']:
                    out.append(par + [h, d, op])
        for d in [h for h in hist[:i] if h['op'] == 'derive' and h['o'] == o]:
            for h in earlier:
                if h['op'] == 'query' and h['o'] == d['o2']:
                    out.append(pre + [d, h, op])
    elif op['op'] == 'derive':
        for h in earlier:
            if h['op'] == 'effect' and h['o'] == o:
                out.append(pre + [dict(op, o2=90), h, dict(op, o2=91)])
                out.append(pre + [h, op])
            if h['op'] == 'query' and h['o'] == o:
                out.append(pre + [h, op])
    else:
        out.append(pre + [op])
        for h in earlier:
            if h['op'] in ('effect', 'query') and h['o'] == o:
                out.append(pre + [h, op])
    # dedupe
    seen, res = set(), []
    for c in out:
        key = json.dumps(c, sort_keys=True)
        if key not in seen:
            seen.add(key)
            res.append(c)
    return res[:150]


def ddmin(ctx, hist, i, kind):
    """greedy removal of single ops while the failure at the last op persists"""
    cur = hist[:i + 1]
    for _ in range(8):
        cands = []
        for j in range(len(cur) - 1):
            c = cur[:j] + cur[j + 1:]
            used = {h['o'] for h in c if h['op'] != 'new'} | {h.get('o2') for h in c if h['op'] == 'derive'}
            if cur[j]['op'] == 'new' and cur[j]['o'] in used:
                continue
            cands.append(c)
        if not cands:
            break
        res = run_impl(ctx, cands, tag='ddmin')
        ok = [c for c, r in zip(cands, res) if still_fails(r, kind)]
        if not ok:
            break
        cur = min(ok, key=len)
    return cur


# ------------------------------------------------------------------ Coq side
FSTR = '''
Definition fstr (f : failure) : string :=
  match f with
  | FStaleLru q e => "stale-lru|" ++ q ++ "|" ++ e
  | FStaleSlot q e => "stale-slot|" ++ q ++ "|" ++ e
  | FSlotKey q a => "slot-key|" ++ q ++ "|" ++ a
  | FShare d => "share|" ++ d ++ "|"
  | FWriteRead w q => "write-read|" ++ w ++ "|" ++ q
  | FProtected w => "protected|" ++ w ++ "|"
  | FShareTable d t e => "share-table|" ++ d ++ "|" ++ t ++ "/" ++ e
  | FStructure s => "structure|" ++ s ++ "|"
  end.
'''


def coq_failures(ctx):
    txt = ['From Coq Require Import String List. Import ListNotations.',
           'From FV.C19 Require Import Model.', 'From FV.C19.gen Require Import CacheCfg.',
           'Open Scope string_scope.', 'Set Printing Width 100000.', FSTR,
           'Goal True. idtac "@@ ok". Abort.', 'Eval vm_compute in (cfg_ok cfg).',
           'Goal True. idtac "@@ failures". Abort.',
           'Eval vm_compute in (map (fun p => (fstr (fst p), snd p)) (confirmed cfg)).']
    rc, out, err = ctx.coq_eval('Failures', '\n'.join(txt) + '\n')
    if rc != 0:
        return None, None, err
    parts = lib.parse_marked(out)
    ok = '= true' in parts.get('ok', '')
    fl = re.findall(r'\("([^"]*)",\s*(true|false)\)', parts.get('failures', ''))
    res, seen = [], set()
    for s, b in fl:
        k, a, c = s.split('|')
        if (k, a, c) in seen:
            continue
        seen.add((k, a, c))
        res.append({'kind': k, 'a': a, 'b': c, 'model_confirms': b == 'true'})
    return ok, res, ''


def failure_term(f):
    ctor = {'stale-lru': 'FStaleLru', 'stale-slot': 'FStaleSlot', 'slot-key': 'FSlotKey',
            'share': 'FShare', 'write-read': 'FWriteRead', 'protected': 'FProtected',
            'share-table': 'FShareTable'}[f['kind']]
    args = [lib.coq_str(f['a'])] + ([lib.coq_str(f['b'])] if f['kind'] not in ('share', 'protected') else [])
    return '(' + ctor + ' ' + ' '.join(args) + ')'


def write_status(ctx, ok, fails):
    L = ['(* GENERATED by harness/c19.py on every run: the per-run obligation about the',
         '   inventory translated from the tree under test. *)',
         'From Coq Require Import String List Bool.', 'Import ListNotations.',
         'From FV.C19 Require Import Model Proofs Props.', 'From FV.C19.gen Require Import CacheCfg.',
         'Open Scope string_scope.', '']
    if ok:
        L += ['(* the translated inventory passes the static check: C19_purity,',
              '   C19_queries_preserve, C19_writers_preserve apply to it *)',
              'Theorem C19_cfg_ok : cfg_ok CacheCfg.cfg = true.',
              'Proof. vm_compute. reflexivity. Qed.']
    else:
        conf = [f for f in fails if f['model_confirms'] and f['kind'] in
                ('stale-lru', 'stale-slot', 'slot-key', 'share')]
        L += ['(* the translated inventory does NOT pass the static check ... *)',
              'Theorem C19_cfg_ok_refuted : cfg_ok CacheCfg.cfg = false.',
              'Proof. vm_compute. reflexivity. Qed.', '']
        if conf:
            L += ['(* ... and the machine instantiated with it is history dependent: on the witness',
                  '   history of the first failing clause it answers differently from the same',
                  '   machine without memory (toy semantics of Model.v) *)',
                  'Theorem C19_history_independent_refuted :',
                  '  exists h : list op, trun CacheCfg.cfg h <> trun (no_memo CacheCfg.cfg) h.',
                  f'Proof.\n  exists (witness CacheCfg.cfg {failure_term(conf[0])}).',
                  '  vm_compute. discriminate.\nQed.']
    lib.write_if_changed(lib.COQ / 'C19' / 'gen' / 'Status.v', '\n'.join(L) + '\n')


# ------------------------------------------------------------------ witnesses
def witness_histories(ctx, fails, cat, cfgq, effects):
    """concrete histories for the model's failing clauses"""
    rng = ctx.rng
    out = []
    pre_of = {e['name']: e['pre'] for e in effects}

    def mesh_for(q, e=None, arg=None):
        kinds = cat.get(q, (ALL, [{}]))[0]
        res = []
        for kind in kinds:
            feat = set()
            if e in ('remove_useless_nodes',):
                feat.add('unref')
            if e in ('make_elements_positive',) or (arg or '').startswith(('return_abs', 'raise_negative')):
                if kind != 'tet':
                    if e is not None:
                        res.append(gen_mesh(rng, kind, feat))
                    continue
                feat.add('inverted')
            res.append(gen_mesh(rng, kind, feat))
            res.append(gen_mesh(rng, kind, feat))
        return res[:4]
    for f in fails:
        k, a, b = f['kind'], f['a'], f['b']
        if k in ('stale-lru', 'stale-slot'):
            if b.startswith('write_') and b not in RUNNABLE_WRITERS:
                f['skipped'] = 'writer not runnable here (stl/tvtk/lxml absent)'
                continue
            for m in mesh_for(a, e=b):
                for kw in cat.get(a, (ALL, [{}]))[1][:2]:
                    args = {'kind': 'roll' if len(m['elements'][m['kind']]['ids']) > 1 else 'swap01'} \
                        if b == 'assign_connectivity' else ({'reset': True} if b in ('rotation', 'translation')
                                                            else ({'kind': 'same_array'} if b == 'assign_nodes'
                                                                  else ({'kind': 'ids_roll'} if b == 'reindex_nodes'
                                                                        else {})))
                    h = [{'op': 'new', 'o': 0, 'mesh': m}, q_op(0, a, kw), e_op(0, b, args), q_op(0, a, kw)]
                    out.append((f, h))
                    if pre_of.get(b) and (a in pre_of[b] or k == 'stale-slot'):
                        # the modifier fills the slot itself through the queries it consults
                        for kw2 in cat.get(a, (ALL, [{}]))[1]:
                            out.append((f, [{'op': 'new', 'o': 0, 'mesh': m}, e_op(0, b, args), q_op(0, a, kw2)]))
                    if pre_of.get(b) and a in pre_of[b]:
                        # the modifier itself consults q: applying it twice / after a query
                        out.append((f, [{'op': 'new', 'o': 0, 'mesh': m}, e_op(0, b, args), e_op(0, b, args)]))
                        for kw2 in cat.get(a, (ALL, [{}]))[1]:
                            out.append((f, [{'op': 'new', 'o': 0, 'mesh': m}, q_op(0, a, kw2), e_op(0, b, args)]))
                    if b == 'reindex_nodes':
                        # (a satisfied clause in the quick tier: one more kind, rotating)
                        rest = REINDEX_KINDS[1:]
                        if f.get('probe') and ctx.tier != 'thorough':
                            rest = [rest[len(out) % len(rest)]]
                        for knd in rest:
                            out.append((f, [{'op': 'new', 'o': 0, 'mesh': m}, q_op(0, a, kw),
                                            e_op(0, b, {'kind': knd}), q_op(0, a, kw)]))
                    if b == 'assign_connectivity':
                        for knd in ('swap01', 'same_array', 'same_array_rows'):
                            h2 = [{'op': 'new', 'o': 0, 'mesh': m}, q_op(0, a, kw),
                                  e_op(0, b, {'kind': knd}), q_op(0, a, kw)]
                            out.append((f, h2))
        elif k == 'slot-key':
            for (v1, v2) in ARG_VALUES.get(b, [('A', 'B')]):
                for m in mesh_for(a, arg=b):
                    base = {}
                    if b.startswith('return_abs'):
                        base = {b.replace('return_abs', 'raise_negative'): False}
                    h = [{'op': 'new', 'o': 0, 'mesh': m}, q_op(0, a, dict(base, **{b: v1})),
                         q_op(0, a, dict(base, **{b: v2}))]
                    out.append((f, h))
                    # "... on this or on other mesh objects": what is recorded about a stored result
                    # must belong to the object (another object asks with the other value in between)
                    m2 = gen_mesh(rng, m['kind'], m['features'])
                    out.append((f, [{'op': 'new', 'o': 0, 'mesh': m}, {'op': 'new', 'o': 1, 'mesh': m2},
                                    q_op(0, a, dict(base, **{b: v1})), q_op(1, a, dict(base, **{b: v2})),
                                    q_op(0, a, dict(base, **{b: v2}))]))
        elif k == 'share':
            kinds = DERIVS.get(a, SOLID)
            for kind in kinds[:2]:
                for q in [q for q, c in cfgq.items() if c['slot'] is not None]:
                    if kind not in cat.get(q, (ALL, []))[0]:
                        continue
                    for kw in cat[q][1][:2]:
                        m = gen_mesh(rng, kind, ['jitter'])
                        out.append((f, [{'op': 'new', 'o': 0, 'mesh': m}, q_op(0, q, kw),
                                        {'op': 'derive', 'o': 0, 'o2': 1, 'd': a}, q_op(1, q, {})]))
                        out.append((f, [{'op': 'new', 'o': 0, 'mesh': m}, {'op': 'derive', 'o': 0, 'o2': 1, 'd': a},
                                        q_op(1, q, kw), q_op(0, q, {})]))
        elif k == 'share-table':
            table, eff = b.split('/')
            if eff.startswith('write_') and eff not in RUNNABLE_WRITERS:
                f['skipped'] = 'writer not runnable here (stl/tvtk/lxml absent)'
                continue
            for kind in DERIVS.get(a, SOLID)[:2]:
                qs = [q for q in ('convert_nodal2elemental', 'calculate_frame_tensor_adjs',
                                  'calculate_element_volumes', 'calculate_incidence_matrix',
                                  'convert_elemental2nodal') if kind in cat[q][0]]
                for q in qs:
                    kw = cat[q][1][-1]
                    m = gen_mesh(rng, kind, ['unref', 'timeseries'] if eff.startswith('write_') else ['unref'])
                    d = {'op': 'derive', 'o': 0, 'o2': 1, 'd': a}
                    out.append((f, [{'op': 'new', 'o': 0, 'mesh': m}, d, e_op(0, eff), q_op(1, q, kw)]))
                    out.append((f, [{'op': 'new', 'o': 0, 'mesh': m}, d, e_op(1, eff), q_op(0, q, kw)]))
        elif k == 'write-read':
            for kind in cat.get(b, (ALL, []))[0][:1]:
                if a in DERIVS:
                    if kind not in DERIVS[a]:
                        continue
                    mid = {'op': 'derive', 'o': 0, 'o2': 1, 'd': a}
                elif a in cat and kind in cat[a][0]:
                    mid = q_op(0, a, {})
                else:
                    continue
                if b not in cat:
                    continue
                m = gen_mesh(rng, kind, [])
                kw = cat[b][1][0]
                out.append((f, [{'op': 'new', 'o': 0, 'mesh': m}, q_op(0, b, kw), mid, q_op(0, b, kw)]))
        elif k == 'protected':
            if a in RUNNABLE_WRITERS:
                for kind in ('tet', 'tri'):
                    m = gen_mesh(rng, kind, ['timeseries'])
                    out.append((f, [{'op': 'new', 'o': 0, 'mesh': m}, e_op(0, a)]))
            elif a.startswith('write_'):
                f['skipped'] = 'writer not runnable here (stl/tvtk/lxml absent)'
    # every in-place modifier followed by every derivation (conversions are queries too)
    extra = {'kind': 'modifier-then-derivation', 'a': '', 'b': '', 'model_confirms': False, 'extra': True}
    for e in effects:
        if e['writer']:
            continue
        for kind in ('tet', 'hex'):
            for d in ('to_surface', 'to_facets', 'to_polyhedron'):
                m = gen_mesh(rng, kind, ['unref'])
                args = {'reset': True} if e['name'] in ('rotation', 'translation') else \
                    ({'kind': 'swap01'} if e['name'] == 'assign_connectivity' else
                     ({'kind': 'update_overwrite'} if e['name'] == 'reindex_nodes' else {}))
                out.append((extra, [{'op': 'new', 'o': 0, 'mesh': m}, e_op(0, e['name'], args),
                                    {'op': 'derive', 'o': 0, 'o2': 1, 'd': d}]))
                out.append((extra, [{'op': 'new', 'o': 0, 'mesh': m}, {'op': 'derive', 'o': 0, 'o2': 1, 'd': d},
                                    e_op(0, e['name'], args), {'op': 'derive', 'o': 0, 'o2': 2, 'd': d}]))
    return out


# ------------------------------------------------------------------ main
def main(ctx):
    ctx.rule = ('seeded histories (<= 10 operations after object creation) over 1-3 live FEMData objects '
                '(tet / hex / tri / quad, sparse unsorted ids, unreferenced nodes, inverted elements) mixing '
                'queries with keyword variants, in-place modifiers, writers and derivations; every query is '
                'compared with the same query on a mesh freshly built from the raw arrays after the history '
                'ended (caches cleared); distinct = distinct operation sequence; non-trivial = at least two '
                'operations on one object')
    ctx.trusted += [
        'translator /verif/translate/c19_caches.py (fail-closed Python-ast inventory of lru_cache '
        'decorations, slot idioms, reads/writes, modifiers, writers, derivations)',
        'the section hypotheses of C19_purity (the inventory describes what the bodies read / write / '
        'depend on; slot re-validation is idempotent) - checked only through the histories',
        'Python run time: functools.lru_cache semantics, object identity (the harness keeps every object alive)',
        'harness: canonical form of results (exact bytes of arrays, sorted COO of sparse matrices)',
    ]
    ctx.assumptions += ['user variables do not use the names of derived variables (area, volume, metric, normal, ...)',
                        'a query that is handed a variable name reads that variable (histories name user variables or NODE)',
                        'stl / vtu / vtp writers cannot run here (packages absent): inventory only']
    tie_ok, cfg, degraded = True, None, None
    try:
        cfg, consumed = c19_caches.translate(str(lib.REPO))
        ctx.sources = consumed
        lib.write_if_changed(lib.COQ / 'C19' / 'gen' / 'CacheCfg.v', c19_caches.emit(cfg))
    except c19_caches.TranslateError as e:
        degraded = str(e)
        ctx.log('translator failed closed:', e)
        ctx.notes['translator_error'] = str(e)
    except SyntaxError as e:
        tie_ok = False
        ctx.notes['translator_error'] = 'syntax error: ' + str(e)
    # translator validation: the in-place analysis on fixed positive / negative forms
    st_bad = c19_caches.selftest()
    ctx.notes['translator_selftest'] = st_bad or 'passed (8 parameter forms, 4 call-site forms)'
    if st_bad:
        ctx.violation('tie-broken', {'failed': st_bad}, 'translator self-test passes', 'it does not',
                      'translator c19_caches (in-place analysis)', found_input=False,
                      signature={'kind': 'translator-selftest'})
    if degraded is not None:
        # T -> H: the translator cannot read the tree under test.  That alone is not a
        # violation: the inventory last translated from the registered tree (committed,
        # coq/C19/gen_baseline) becomes the hand model, the theorems are checked against it, and
        # the history oracle runs widened (thorough-size random histories, pair histories with
        # sentinels before and after on every mesh kind).  Only a disagreement is reported.
        try:
            cfg = json.loads((BASELINE / 'cfg.json').read_text())
            lib.write_if_changed(lib.COQ / 'C19' / 'gen' / 'CacheCfg.v', c19_caches.emit(cfg))
            ctx.notes['tie'] = ('H (translator could not read the tree under test: ' + degraded +
                                '; baseline inventory of the registered tree + widened history oracle)')
            ctx.trusted.append('DEGRADED TIE: inventory = committed baseline (coq/C19/gen_baseline), not the '
                               'tree under test; assurance for this run = widened history oracle')
        except (OSError, ValueError) as e2:
            tie_ok = False
            ctx.notes['translator_error'] += ' / no baseline inventory: ' + str(e2)

    proof_ok, log = ctx.build_props('C19/Props.v')
    if not proof_ok:
        ctx.notes['build_log_tail'] = log[-1500:]
    cfg_ok, fails = None, []
    if tie_ok:
        ok, log, _ = lib.coq_make(['C19/gen/CacheCfg.vo'])
        if ok:
            cfg_ok, fails, err = coq_failures(ctx)
            if cfg_ok is None:
                ctx.notes['failures_eval_error'] = err[-800:]
        else:
            ctx.notes['cachecfg_build_error'] = log[-800:]
        if cfg_ok is not None:
            write_status(ctx, cfg_ok, fails)
            st_ok, log = ctx.build_props('C19/gen/Status.v')
            if not st_ok:
                ctx.notes['status_build_log_tail'] = log[-1500:]
        else:
            ctx.obligations.append({'name': 'C19_cfg_ok', 'discharged': False, 'assumptions': [],
                                    'note': 'generated inventory could not be evaluated'})
    else:
        ctx.obligations.append({'name': 'C19_cfg_ok', 'discharged': False, 'assumptions': [],
                                'note': 'translator failed closed'})
    if ctx.tier == 'thorough' and proof_ok and hasattr(ctx, 'coqchk'):
        if not ctx.coqchk('C19/Props.v'):
            ctx.violation('proof-broken', {}, 'coqchk accepts C19/Props.vo and its dependencies',
                          'it does not', 'coqchk FV.C19.Props', found_input=False,
                          signature={'kind': 'coqchk'})
    ctx.checker_cmd = ('cd /verif/coq && make C19/Props.vo C19/gen/Status.vo (coqc 8.16.1) + Print Assumptions '
                       'of each theorem; gen/CacheCfg.v and gen/Status.v regenerated from the tree under test')
    ctx.notes['cfg_ok'] = cfg_ok
    ctx.notes['model_failing_clauses'] = len(fails or [])

    # ---- the slot helpers: translated (T) into gen/SlotCode.v and proved equal to the hand model
    #      Slot.v there; if they cannot be read, the hand model stands alone (H) with the widened
    #      correspondence below - not an alarm
    slot_tie, slot_code_ok = 'T', True
    stub = None
    try:
        terms, src_sha = c19_slotcode.translate(str(lib.REPO))
        ctx.sources.update(src_sha)
        lib.write_if_changed(lib.COQ / 'C19' / 'gen' / 'SlotCode.v', c19_slotcode.emit(terms))
    except (c19_slotcode.SlotTranslateError, SyntaxError, OSError) as e:
        slot_tie = 'H'
        stub = str(e)
        ctx.notes['slot_tie'] = ('H (translator could not read the slot helpers: ' + stub +
                                 '; hand model Slot.v + widened in-Coq correspondence)')
        lib.write_if_changed(lib.COQ / 'C19' / 'gen' / 'SlotCode.v',
                             '(* GENERATED: the slot helpers of the tree under test are outside the grammar of\n'
                             '   translate/c19_slotcode.py; the hand model Slot.v is tied by the correspondence. *)\n')
    if proof_ok and slot_tie == 'T':
        slot_code_ok, log = ctx.build_props('C19/gen/SlotCode.v')
        if not slot_code_ok:
            ctx.notes['slotcode_build_log_tail'] = log[-1200:]
        else:
            ctx.notes['slot_tie'] = ('T (gen/SlotCode.v: _validate_metric, _slot_answers, _store_slot translated and '
                                     'proved equal to Slot.v) + H (in-Coq correspondence)')
    # ---- the concrete slot protocol (coq/C19/Slot.v) against the implementation, evaluated in Coq
    if proof_ok:
        widened = ctx.tier != 'quick' or degraded is not None or slot_tie == 'H' or not slot_code_ok
        n_slot = 600 if widened else 150
        for k in range(0, n_slot, 300):
            c19_slots.run(ctx, gen_mesh, min(300, n_slot - k), tag=f'_{k // 300}')
        ctx.log('slot correspondence:', ctx.notes.get('slot_correspondence'))
        if not slot_code_ok:
            # the T tie of the helpers failed (translated, but the generic equivalence scripts do not
            # check): the property theorems are about Slot.v and stand; the hand model is tied by the
            # widened correspondence above, whose disagreements (if any) are reported with their input
            ctx.notes['slot_tie'] = ('H (the slot helpers were translated but the proofs that they equal Slot.v did '
                                     'not check - see slotcode_build_log_tail; hand model + widened in-Coq '
                                     'correspondence, %d histories, %d disagreements)' % (
                                         ctx.notes.get('slot_correspondence', {}).get('cases', 0),
                                         ctx.notes.get('slot_correspondence', {}).get('disagreements', 0)))

    # catalogue = known queries + memoised queries of the inventory the catalogue does not know
    cat = dict(CATALOGUE)
    cfgq = {}
    modifiers = ['remove_useless_nodes', 'make_elements_positive', 'assign_connectivity']
    if cfg is not None:
        cfgq = {q['name']: q for q in cfg['queries']}
        for q in cfg['queries']:
            if (q['lru'] is not None or q['slot'] is not None) and q['name'] not in cat:
                cat[q['name']] = (ALL, [{}])
        modifiers = [e['name'] for e in cfg['effects'] if not e['writer']]
    ctx.notes['inventory'] = {
        'memoised': sorted(q['name'] for q in cfgq.values() if q['lru'] is not None),
        'slots': sorted(q['name'] for q in cfgq.values() if q['slot'] is not None),
        'modifiers': modifiers,
        'derivations': [d['name'] for d in cfg['derivs']] if cfg else [],
    }

    # ---- corpus + witnesses + random histories in one child run
    batch = []        # (tag, payload, history)
    corpus_dir = lib.VERIF / 'corpus' / 'C19'
    if corpus_dir.exists():
        for p in sorted(corpus_dir.glob('*.json')):
            batch.append(('corpus', p.name, json.loads(p.read_text())['history']))
    # probes: the same concrete histories for every (memoised query, effect) pair whose fields
    # overlap, every slot argument and every derivation - also when the clause is satisfied
    probes = []
    if cfg is not None:
        have = {(f['kind'], f['a'], f['b']) for f in (fails or [])}

        def overlap(ps, qs):
            return any(a[0] == b[0] and (a[1] is None or b[1] is None or a[1] == b[1]) for a in ps for b in qs)
        for e in cfg['effects']:
            for q in cfg['queries']:
                kq = 'stale-lru' if q['lru'] is not None else ('stale-slot' if q['slot'] is not None else None)
                if kq and overlap(q['reads'], e['writes']) and (kq, q['name'], e['name']) not in have:
                    probes.append({'kind': kq, 'a': q['name'], 'b': e['name'], 'model_confirms': False,
                                   'probe': True})
        for q in cfg['queries']:
            if q['slot'] is not None:
                for arg in q['relevant']:
                    if ('slot-key', q['name'], arg) not in have:
                        probes.append({'kind': 'slot-key', 'a': q['name'], 'b': arg, 'model_confirms': False,
                                       'probe': True})
        for d in cfg['derivs']:
            if ('share', d['name'], '') not in have and d['name'] in DERIVS:
                probes.append({'kind': 'share', 'a': d['name'], 'b': '', 'model_confirms': False, 'probe': True})
    wit = witness_histories(ctx, (fails or []) + probes, cat, cfgq, cfg['effects'] if cfg else [])
    ctx.notes['probe_pairs'] = len(probes)
    for f, h in wit:
        batch.append(('witness', f, h))
    wide = 'thorough' if degraded is not None else ctx.tier
    for h in pair_histories(ctx, cat, cfgq, wide):
        batch.append(('pairs', None, h))
    # user variables stored under names the library also uses: a query must not overwrite them
    # (every keyword variant: options such as return_abs_* decide what is done to a stored value;
    # stored values of both signs; the plain call afterwards must still see the user's values)
    for q in sorted(cat):
        kinds_q = cat[q][0] if ctx.tier == 'thorough' else cat[q][0][:2]
        for nk, kind in enumerate(kinds_q):
            for nv, kw in enumerate(cat[q][1]):
                if nv and ctx.tier != 'thorough' and nk != nv % len(kinds_q):
                    continue
                feat = ['derived_names'] + (['negative_values'] if (nv + nk) % 2 == 0 or len(cat[q][1]) > 1 and nv else [])
                h = [{'op': 'new', 'o': 0, 'mesh': gen_mesh(ctx.rng, kind, feat)}, q_op(0, q, kw)]
                if nv:
                    h.append(q_op(0, q, cat[q][1][0]))
                batch.append(('uservar', None, h))
    # every runnable writer on every mesh kind (element types have their own code paths in the
    # writers: node reordering, type dispatch), then orientation-sensitive queries and the same
    # writer again (a writer must leave the mesh as it was: snapshots + later values + second file)
    for nk, kind in enumerate(ALL_KINDS):
        for nw, w in enumerate(RUNNABLE_WRITERS):
            feat = ['unref'] if (nk + nw) % 2 else []
            if ctx.tier == 'thorough' and kind not in MIXED:
                feat.append('timeseries')
            m = gen_mesh(ctx.rng, kind, feat)
            qs = [q for q in ('calculate_element_metrics', 'extract_facets', 'calculate_element_normals')
                  if kind in cat[q][0]]
            batch.append(('writers', None, [{'op': 'new', 'o': 0, 'mesh': m}, e_op(0, w)]
                          + [q_op(0, q, dict(cat[q][1][1]) if len(cat[q][1]) > 1 else {}) for q in qs]
                          + [e_op(0, w)]))
    # derived objects and in-place modifiers: a modifier on the child must not reach the parent
    # and vice versa (shared element blocks / coordinate buffers), and what was memoised for the
    # other object stays right:  [q(P); derive; modifier(C); q(P)]  and  [derive; q(C); modifier(P); q(C)]
    cross_q = {'tet': ('calculate_element_volumes', {'raise_negative_volume': False}),
               'hex': ('calculate_element_volumes', {'raise_negative_volume': False, 'mode': 'linear'}),
               'prism': ('calculate_element_volumes', {'raise_negative_volume': False})}
    for kind in ('tet', 'hex', 'prism'):
        for d in sorted(DERIVS):
            if kind not in DERIVS[d]:
                continue
            for e in modifiers:
                args = {'reset': True} if e in ('rotation', 'translation') else \
                    ({'kind': 'same_array'} if e == 'assign_connectivity' else
                     ({'kind': 'update_overwrite'} if e == 'reindex_nodes' else {}))
                feat = ['unref'] + (['inverted'] if kind in ('tet', 'prism') else [])
                m = gen_mesh(ctx.rng, kind, feat)
                q, kw = cross_q[kind]
                dv = {'op': 'derive', 'o': 0, 'o2': 1, 'd': d}
                batch.append(('cross', None, [{'op': 'new', 'o': 0, 'mesh': m}, q_op(0, q, kw), dv,
                                              e_op(1, e, args), q_op(0, q, kw)]))
                qc = q if d not in ('to_surface', 'to_facets') else 'calculate_element_areas'
                kwc = kw if qc == q else {'return_abs_area': False}
                batch.append(('cross', None, [{'op': 'new', 'o': 0, 'mesh': m}, dv, q_op(1, qc, kwc),
                                              e_op(0, e, args), q_op(1, qc, kwc)]))
    # two modifiers in a row, the first of which rebuilds the tables (remove_useless_nodes), then
    # the queries that read the node table through the variable table
    if 'reindex_nodes' in modifiers:
        for nk, kind in enumerate(('tet', 'quad', 'hex', 'prism')):
            for nq, (q, kw) in enumerate((('convert_nodal2elemental', {'data': 'NODE', 'calc_average': True}),
                                          ('calculate_spatial_gradient_adjacency_matrices', {}),
                                          ('calculate_frame_tensor_adjs', {}))):
                if q not in cat or kind not in cat[q][0]:
                    continue
                knd = REINDEX_KINDS[(nk + nq) % len(REINDEX_KINDS)]
                batch.append(('detached', None, [{'op': 'new', 'o': 0, 'mesh': gen_mesh(ctx.rng, kind, ['unref'])},
                                                 e_op(0, 'remove_useless_nodes'),
                                                 e_op(0, 'reindex_nodes', {'kind': knd}), q_op(0, q, kw)]))
    # a modifier that raises midway (a nodal variable that lacks some node ids) followed by queries
    memo_q = [q for q, c in cfgq.items() if (c['lru'] is not None or c['slot'] is not None) and q in cat]
    for q in sorted(memo_q):
        for kind in cat[q][0][:2]:
            if kind == 'mixed':
                continue
            m = gen_mesh(ctx.rng, kind, ['unref', 'partial_nodal'])
            batch.append(('raising-modifier', None, [{'op': 'new', 'o': 0, 'mesh': m}, q_op(0, q, cat[q][1][0]),
                                                     e_op(0, 'remove_useless_nodes'), q_op(0, q, cat[q][1][0])]))
    # OBSERVATION, not part of the property (its quantifier lists the in-place modifiers):
    # coordinates assigned by the user through the attribute setter leave caches stale
    obs_q = [q for q in ('extract_surface', 'calculate_element_volumes', 'calculate_surface_normals')
             if q in cat]
    for q in obs_q:
        batch.append(('observation', None, [{'op': 'new', 'o': 0, 'mesh': gen_mesh(ctx.rng, 'tet', [])},
                                            q_op(0, q, {}), e_op(0, 'assign_nodes', {'kind': 'same_array'}),
                                            q_op(0, q, {})]))
    n_rand = 150 if wide == 'quick' else 1500
    for _ in range(n_rand):
        batch.append(('random', None, gen_history(ctx.rng, cat, modifiers, ctx.tier)))
    results = []
    CH = 400
    for s in range(0, len(batch), CH):
        results += run_impl(ctx, [b[2] for b in batch[s:s + CH]], tag=f'b{s // CH}')
    ctx.log(f'ran {len(batch)} histories ({len(wit)} witnesses, {n_rand} random)')

    found = {}       # signature key -> (signature, history, detail)
    unexplained = []
    harness_errors = []
    for (tag, payload, hist), res in zip(batch, results):
        ps = problems(hist, res)
        if tag == 'observation':
            ctx.notes.setdefault('observations', {}).setdefault(
                'fd.nodes.data = v (user assignment, outside the property): later query differs from a '
                'fresh equal mesh', []).append({'query': hist[1]['q'], 'differs': bool(ps)})
            continue
        n_q = sum(1 for h in hist if h['op'] == 'query')
        for h in hist:
            if h['op'] == 'query':
                ctx.count('query:' + h['q'])
            elif h['op'] == 'effect':
                ctx.count('effect:' + h['e'])
            elif h['op'] == 'derive':
                ctx.count('derive:' + h['d'])
            else:
                ctx.count('mesh:' + h['mesh']['kind'] + ('+' + '+'.join(h['mesh']['features'])
                                                          if h['mesh']['features'] else ''))
        ctx.count('histories:' + tag)
        ctx.case([[(h['op'], h.get('q') or h.get('e') or h.get('d') or h['mesh']['kind'],
                    h.get('kwargs'), h.get('o')) for h in hist]],
                 nontrivial=len(hist) >= 3,
                 sample={'ops': [{k: v for k, v in h.items() if k != 'mesh'} for h in hist],
                         'problems': [(i, k) for i, k, _ in ps]})
        ctx.corr['cases'] += n_q
        for (i, kind, detail) in ps:
            if kind == 'harness':
                harness_errors.append((tag, i, detail))
                continue
            ctx.corr['disagreements'] += 1
            if tag == 'witness':
                payload.setdefault('reproduced', []).append(kind)
            if len([h for h in hist[:i + 1] if h['op'] != 'new']) <= 2 or tag in ('witness', 'corpus', 'detached', 'cross'):
                sig = signature_of(hist[:i + 1], cfgq, {'ops': res['ops'][:i + 1]} if 'ops' in res else None)
                if sig['kind'] != 'other':
                    key = json.dumps(sig, sort_keys=True)
                    found.setdefault(key, (sig, hist[:i + 1], detail, kind))
                    continue
            unexplained.append((hist, i, kind, detail))

    # ---- explain failures of longer histories by small candidate histories built from them
    if unexplained:
        cands, owner = [], []
        for n, (hist, i, kind, detail) in enumerate(unexplained[:40]):
            for c in candidates(hist, i):
                cands.append(c)
                owner.append(n)
        explained = set()
        if cands:
            cres = run_impl(ctx, cands, tag='cand')
            best = {}
            for c, r, n in zip(cands, cres, owner):
                kind = unexplained[n][2]
                if still_fails(r, kind):
                    sig = signature_of(c, cfgq, r)
                    if sig['kind'] != 'other' and (n not in best or len(c) < len(best[n][1])):
                        best[n] = (sig, c, problems(c, r)[-1][2], kind)
            for n, (sig, c, det, kind) in best.items():
                explained.add(n)
                found.setdefault(json.dumps(sig, sort_keys=True), (sig, c, det, kind))
        rest = [u for n, u in enumerate(unexplained[:40]) if n not in explained]
        ctx.notes['failing_long_histories'] = len(unexplained)
        ctx.notes['explained_by_small_history'] = len(explained)
        # anything left: shrink generically (bounded) and report as it is
        for (hist, i, kind, detail) in rest[:4]:
            small = ddmin(ctx, hist, i, kind)
            sres = run_impl(ctx, [small], tag='ddmin_sig')[0]
            sig = signature_of(small, cfgq, sres if 'ops' in sres else None)
            key = json.dumps(sig, sort_keys=True)
            found.setdefault(key, (sig, small, detail, kind))

    # ---- a failing query that is not memoised itself: attribute the failure to a memoised
    #      query it calls, if the same history fails with that query in its place
    def memo_deps(q, seen=None):
        seen = set() if seen is None else seen
        out = []
        for d in (cfg or {}).get('calls', {}).get(q, []):
            if d in seen:
                continue
            seen.add(d)
            if kind_of_query(cfgq, d) in ('lru', 'slot'):
                out.append(d)
            out += memo_deps(d, seen)
        return out
    subst, owner = [], []
    for key, (sig, hist, detail, kind) in sorted(found.items()):
        last = hist[-1]
        if last['op'] == 'derive' and kind == 'value':
            for d in memo_deps(last['d'])[:6]:
                for kw in cat.get(d, (ALL, [{}]))[1][:1]:
                    subst.append([q_op(h['o'], d, kw) if h['op'] == 'derive' and h['d'] == last['d'] else h
                                  for h in hist])
                    owner.append(key)
        if last['op'] == 'query' and kind == 'value' and kind_of_query(cfgq, last['q']) == 'plain':
            for d in memo_deps(last['q'])[:6]:
                for kw in cat.get(d, (ALL, [{}]))[1][:1]:
                    subst.append([q_op(h['o'], d, kw) if h['op'] == 'query' and h['q'] == last['q'] else h
                                  for h in hist])
                    owner.append(key)
    if subst:
        sres = run_impl(ctx, subst, tag='subst')
        for c, r, key in zip(subst, sres, owner):
            if key in found and still_fails(r, 'value'):
                sig2 = signature_of(c, cfgq)
                if sig2['kind'] != 'other':
                    sig, hist, detail, kind = found.pop(key)
                    k2 = json.dumps(sig2, sort_keys=True)
                    found.setdefault(k2, (sig2, c, {'seen_through': hist[-1].get('q') or hist[-1].get('d'), 'detail': detail}, kind))
                    ctx.count('attributed-to-nested-memoised-query')

    # ---- violations
    n_viol = 0
    for key, (sig, hist, detail, kind) in sorted(found.items()):
        what = f"{sig}"
        known = ctx.violation('impl-violation', {'history': hist}, 'every query equals the same query on a '
                              'freshly built equal mesh; queries / writers leave nodes, elements and user '
                              'variables unchanged', {'problem': kind, 'detail': detail},
                              'C19_purity / property oracle on the implementation', found_input=True,
                              signature=sig, what=what)
        n_viol += 0 if known else 1
    ctx.notes['distinct_failure_signatures'] = len(found)
    unrep = [f for f in (fails or []) if not f.get('reproduced')]
    ctx.notes['model_clauses_reproduced_on_impl'] = len([f for f in (fails or []) if f.get('reproduced')])
    ctx.notes['model_clauses_not_reproduced'] = [
        f"{f['kind']}|{f['a']}|{f['b']}" + (' (' + f['skipped'] + ')' if f.get('skipped') else '')
        for f in unrep][:400]
    if harness_errors:
        ctx.notes['harness_errors'] = [str(x) for x in harness_errors[:10]]
        ctx.violation('correspondence', {'errors': [str(x) for x in harness_errors[:5]]},
                      'every operation of a history can be evaluated', 'harness error',
                      'C19 property oracle', found_input=False, signature={'kind': 'harness-error'})
    if not tie_ok:
        ctx.violation('tie-broken', {'translator_error': ctx.notes.get('translator_error')},
                      'translator accepts the FEMData mixins and writers', 'fail-closed',
                      'translator c19_caches (gen/CacheCfg.v cannot be regenerated)',
                      found_input=False, signature={'kind': 'tie-broken'})
    if not proof_ok:
        bad = [o['name'] for o in ctx.obligations if not o['discharged']]
        ctx.violation('proof-broken', {}, 'C19/Props.v compiles with closed proofs', 'does not check',
                      ', '.join(bad), found_input=False, signature={'kind': 'proof-broken'})
    if tie_ok and cfg_ok is False and not found:
        ctx.violation('proof-broken', {'failing_clauses': [f"{f['kind']}|{f['a']}|{f['b']}" for f in fails][:50]},
                      'cfg_ok CacheCfg.cfg = true', 'false, and no witness history reproduces on the implementation',
                      'C19_cfg_ok', found_input=False, signature={'kind': 'cfg-not-ok-unreproduced'})
    if tie_ok and cfg_ok is None:
        ctx.violation('proof-broken', {}, 'generated inventory evaluates in Coq', 'it does not',
                      'C19_cfg_ok', found_input=False, signature={'kind': 'cfg-eval-failed'})
    ctx.notes['search_evaluations'] = len(batch)
    if degraded is not None:
        ctx.notes['tie'] = ctx.notes.get('tie', '') + f', {len(batch)} histories, {ctx.corr["cases"]} compared queries'
    return ctx.finish()


def replay(path):
    rp = json.loads(Path(path).read_text())

    class _Scratch:                      # not lib.Ctx: constructing one removes the replay files
        scratch = lib.BUILD / 'C19'
    ctx = _Scratch()
    ctx.scratch.mkdir(parents=True, exist_ok=True)
    if rp['case'].get('slot_case'):
        class _C:                        # minimal stand-in for lib.Ctx (see above)
            scratch = lib.BUILD / 'C19'
            notes, corr = {}, {'cases': 0, 'disagreements': 0}
            coq_eval = lib.Ctx.coq_eval

            def count(self, *a):
                pass

            def violation(self, *a, **k):
                print('model (Slot.v) and implementation DISAGREE on this slot history:', json.dumps(a[3])[:1500])
        c = _C()
        c.scratch.mkdir(parents=True, exist_ok=True)
        n = c19_slots.run(c, gen_mesh, 1, tag='_replay', cases=[rp['case']['slot_case']])
        print('property', 'VIOLATED' if n else 'holds', 'on this slot history')
        return 1 if n else 0
    hist = rp['case'].get('history')
    if not hist:
        print('nothing to replay on the implementation:', json.dumps(rp, indent=1)[:2000])
        return 1
    res = run_impl(ctx, [hist], tag='replay')[0]
    ps = problems(hist, res)
    for h, r in zip(hist, res.get('ops', [])):
        print({k: v for k, v in h.items() if k != 'mesh'}, '->',
              {k: v for k, v in r.items() if k in ('equal', 'expected', 'observed', 'changed', 'raised',
                                                   'effect_equal', 'error')})
    try:
        cfg, _ = c19_caches.translate(str(lib.REPO))
        cfgq = {q['name']: q for q in cfg['queries']}
        print('model: signature of this history =', signature_of(hist, cfgq, res if 'ops' in res else None))
    except c19_caches.TranslateError as e:
        print('translator failed closed:', e)
    print('property', 'VIOLATED' if ps else 'holds', 'on this history', [(i, k) for i, k, _ in ps])
    return 1 if ps else 0


def write_baseline():
    """python harness/c19.py baseline: (re)generate the committed baseline inventory from lib.REPO"""
    cfg, consumed = c19_caches.translate(str(lib.REPO))
    BASELINE.mkdir(parents=True, exist_ok=True)
    (BASELINE / 'cfg.json').write_text(json.dumps(cfg, indent=0, sort_keys=True))
    (BASELINE / 'CacheCfg.v.txt').write_text(c19_caches.emit(json.loads(json.dumps(cfg))))
    (BASELINE / 'sources.json').write_text(json.dumps(consumed, indent=1, sort_keys=True))
    print('baseline inventory written to', BASELINE)
    return 0


if __name__ == '__main__':
    if len(sys.argv) > 2 and sys.argv[1] == 'replay':
        sys.exit(replay(sys.argv[2]))
    if len(sys.argv) > 1 and sys.argv[1] == 'baseline':
        sys.exit(write_baseline())
    tier = sys.argv[1] if len(sys.argv) > 1 else 'quick'
    sys.exit(main(lib.Ctx('C19', tier)))
