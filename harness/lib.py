"""Shared machinery of the femio Coq checks (see DESIGN.md section 1).

One check run = Ctx(pid): translate -> build Coq -> obligations (Print
Assumptions) -> correspondence/oracle -> violations/known findings -> evidence.
"""
import fcntl
import hashlib
import json
import os
import random
import re
import subprocess
import sys
import time
from pathlib import Path

VERIF = Path(__file__).resolve().parent.parent
REPO = Path(os.environ.get('FEMIO_REPO', '/repo'))
COQ = VERIF / 'coq'
BUILD = VERIF / 'build'
EVID = VERIF / 'evidence'
REPLAY = EVID / 'replay'
PY = '/venv/bin/python'
COQ_MEM_KB = int(os.environ.get('VERIF_COQ_MEM_KB', str(20 * 1024 * 1024)))   # virtual-memory cap of each coqc

# axioms declared by Coq's standard library that theorems may depend on
# (each is named again in the evidence of the property that uses it)
STDLIB_AXIOMS = {
    'ClassicalDedekindReals.sig_forall_dec',
    'ClassicalDedekindReals.sig_not_dec',
    'FunctionalExtensionality.functional_extensionality_dep',
    'Classical_Prop.classic',
    'Eqdep.Eq_rect_eq.eq_rect_eq',
    'JMeq.JMeq_eq',
    'ProofIrrelevance.proof_irrelevance',
    'PropExtensionality.propositional_extensionality',
    'ClassicalEpsilon.constructive_indefinite_description',
    'Epsilon.epsilon_statement',
}

FORBIDDEN = re.compile(
    r'\b(Admitted|admit|Axiom|Axioms|Parameter|Parameters|Conjecture|'
    r'Admit\s+Obligations|bypass_check)\b|Unset\s+Guard|Unset\s+Positivity|'
    r'Unset\s+Universe|type-in-type|impredicative-set')


def sh(cmd, timeout=600, cwd=None, env=None, input=None):
    t0 = time.time()
    try:
        r = subprocess.run(cmd, shell=isinstance(cmd, str), cwd=cwd, env=env,
                           input=input, capture_output=True, text=True,
                           timeout=timeout)
        return r.returncode, r.stdout, r.stderr, time.time() - t0
    except subprocess.TimeoutExpired as e:
        out = e.stdout.decode() if isinstance(e.stdout, bytes) else (e.stdout or '')
        err = e.stderr.decode() if isinstance(e.stderr, bytes) else (e.stderr or '')
        return 124, out, err + '\nTIMEOUT', time.time() - t0


def coq_str(s):
    assert all(32 <= ord(c) < 127 or c in '\n\t' for c in s), repr(s)
    return '"' + s.replace('"', '""') + '"'


def coq_Z(n):
    n = int(n)
    return f'({n})%Z' if n < 0 else f'{n}%Z'


def coq_list(items):
    return '[' + '; '.join(items) + ']'


def coq_Q(fr):
    """fractions.Fraction -> Coq Q literal"""
    n, d = fr.numerator, fr.denominator
    return f'(Qmake ({n}) {d})' if n < 0 else f'(Qmake {n} {d})'


def sha(text):
    return hashlib.sha256(text.encode() if isinstance(text, str) else text).hexdigest()


def impl_env():
    env = dict(os.environ)
    env['PYTHONPATH'] = str(REPO)
    env['PYTHONHASHSEED'] = '0'
    env['FEMIO_VERIF'] = '1'
    env.setdefault('NUMBA_CACHE_DIR', str(BUILD / 'numba_cache'))
    return env


class Lock:
    def __init__(self, name='coq'):
        BUILD.mkdir(exist_ok=True)
        self.path = BUILD / f'.{name}.lock'

    def __enter__(self):
        self.f = open(self.path, 'w')
        fcntl.flock(self.f, fcntl.LOCK_EX)

    def __exit__(self, *a):
        fcntl.flock(self.f, fcntl.LOCK_UN)
        self.f.close()


def write_if_changed(path, text):
    path = Path(path)
    if path.exists() and path.read_text() == text:
        return False
    path.parent.mkdir(parents=True, exist_ok=True)
    path.write_text(text)
    return True


def regen_project():
    """_CoqProject lists every .v under coq/; Makefile via coq_makefile."""
    files = sorted(str(p.relative_to(COQ)) for p in COQ.rglob('*.v')
                   if '.coq-native' not in str(p))
    text = '-Q . FV\n' + '\n'.join(files) + '\n'
    changed = write_if_changed(COQ / '_CoqProject', text)
    if changed or not (COQ / 'Makefile').exists():
        rc, out, err, _ = sh('coq_makefile -f _CoqProject -o Makefile', cwd=COQ)
        if rc != 0:
            raise RuntimeError('coq_makefile failed: ' + err)


def coq_make(targets, timeout=900, jobs=16):
    """full .vo build of the given targets (relative to coq/), under a lock"""
    with Lock('coq'):
        regen_project()
        # memory cap per coqc (a diverging proof once took 51 GB and held this lock for 20 min)
        cmd = ['bash', '-c', 'ulimit -v %d; exec make -j%d "$@"' % (COQ_MEM_KB, jobs), 'make'] + list(targets)
        rc, out, err, dt = sh(cmd, cwd=COQ, timeout=timeout)
    return rc == 0, out + err, dt


def coqc_file(path, timeout=600):
    """compile one scratch file against the project (no lock needed: scratch
    files live under build/<pid>/)"""
    rc, out, err, dt = sh(['bash', '-c', 'ulimit -v %d; exec coqc "$@"' % COQ_MEM_KB, 'coqc',
                           '-Q', str(COQ), 'FV', '-Q', str(Path(path).parent),
                           'Scratch', str(path)], timeout=timeout, cwd=Path(path).parent)
    return rc, out, err, dt


def parse_marked(out, marker='@@'):
    """split coqc stdout at lines `@@ name` (emitted with idtac)"""
    res, cur = {}, None
    for line in out.splitlines():
        if line.startswith(marker + ' '):
            cur = line[len(marker) + 1:].strip()
            res[cur] = []
        elif cur is not None:
            res[cur].append(line)
    return {k: '\n'.join(v) for k, v in res.items()}


def theorem_names(vfile):
    txt = Path(vfile).read_text()
    txt = re.sub(r'\(\*.*?\*\)', '', txt, flags=re.S)
    return re.findall(r'^\s*(?:Theorem|Lemma|Corollary)\s+([A-Za-z0-9_\']+)', txt, flags=re.M)


def grep_forbidden(dirs):
    hits = []
    for d in dirs:
        for p in Path(d).rglob('*.v'):
            txt = p.read_text()
            code = re.sub(r'\(\*.*?\*\)', lambda m: ' ' * len(m.group(0)), txt, flags=re.S)
            for m in FORBIDDEN.finditer(code):
                line = code.count('\n', 0, m.start()) + 1
                hits.append(f'{p.relative_to(VERIF)}:{line}:{m.group(0)}')
            # Variable/Hypothesis outside a section
            depth = 0
            for i, line in enumerate(code.splitlines(), 1):
                if re.match(r'\s*Section\s+\w+', line):
                    depth += 1
                elif re.match(r'\s*End\s+\w+', line) and depth > 0:
                    depth -= 1
                elif depth == 0 and re.match(r'\s*(Variable|Variables|Hypothesis|Hypotheses|Context)\b', line):
                    hits.append(f'{p.relative_to(VERIF)}:{i}:Variable-outside-section')
    return hits


class Ctx:
    def __init__(self, pid, tier='quick', seed=None, clear_replays=True):
        self.pid = pid
        self.tier = tier
        if seed is None:
            seed = int(os.environ.get('VERIF_SEED', '0') or 0)
        self.seed = seed
        self.rng = random.Random(f'{pid}:{seed}')
        self.t0 = time.time()
        self.obligations = []       # {name, discharged, assumptions, note}
        self.violations = []        # replay paths (unlisted)
        self.known = []
        self.samples = []
        self.evaluations = 0
        self.nontrivial = set()
        self.notes = {}
        self.trusted = []
        self.assumptions = []
        self.sources = {}
        self.dist = {}
        self.corr = {'cases': 0, 'disagreements': 0}
        self.checker_cmd = ''
        self.scratch = BUILD / pid
        self.scratch.mkdir(parents=True, exist_ok=True)
        REPLAY.mkdir(parents=True, exist_ok=True)
        if clear_replays:
            for old in REPLAY.glob(f'{pid}_*.json'):
                old.unlink()
        self._n_replay = 0
        self._seen_sigs = {}
        self.findings = json.loads((VERIF / 'known_findings.json').read_text()) \
            if (VERIF / 'known_findings.json').exists() else []
        for f in sorted((VERIF / 'known_findings.d').glob('*.json')) \
                if (VERIF / 'known_findings.d').exists() else []:
            self.findings += json.loads(f.read_text())
        self.rule = ''
        self.exhaustive = False

    # ------------------------------------------------------------- logging
    def log(self, *a):
        print(f'[{self.pid} {time.time() - self.t0:6.1f}s]', *a, flush=True)

    def count(self, key, n=1):
        self.dist[key] = self.dist.get(key, 0) + n

    def case(self, descr, nontrivial=True, sample=None):
        """register one explored case; descr must identify it (distinctness)"""
        self.evaluations += 1
        if nontrivial:
            self.nontrivial.add(sha(json.dumps(descr, sort_keys=True, default=str))[:16])
        if sample is not None and len(self.samples) < 4:
            self.samples.append(sample)

    # ------------------------------------------------------------- Coq side
    def build_props(self, props_rel, extra_targets=(), scan_dirs=None):
        """make <props>.vo (+deps); then re-run Print Assumptions for every
        theorem of the props file.  Returns (ok, log)."""
        props = COQ / props_rel
        target = props_rel[:-2] + '.vo'
        self.checker_cmd = (f'cd /verif/coq && coq_makefile -f _CoqProject -o Makefile && '
                            f'make {target}  (coqc 8.16.1, full .vo build) + Print Assumptions '
                            f'of each theorem of {props_rel}')
        if scan_dirs is None:
            scan_dirs = [props.parent] + [COQ / d for d in ('core', 'geom') if (COQ / d).exists()]
        hits = grep_forbidden(scan_dirs)
        if hits:
            self.log('forbidden constructs:', hits[:5])
        ok, log, dt = coq_make([target] + list(extra_targets))
        self.log(f'make {target}: ok={ok} ({dt:.1f}s)')
        names = theorem_names(props)
        if not ok:
            for n in names:
                self.obligations.append({'name': n, 'discharged': False, 'assumptions': [],
                                         'note': 'build failed'})
            return False, log
        modname = 'FV.' + props_rel[:-2].replace('/', '.')
        lines = [f'Require Import {modname}.']
        for n in names:
            lines.append(f'Goal True. idtac "@@ {n}". Abort.')
            lines.append(f'Print Assumptions {n}.')
        af = self.scratch / 'Assum.v'
        af.write_text('\n'.join(lines) + '\n')
        rc, out, err, dt = coqc_file(af)
        if rc != 0:
            for n in names:
                self.obligations.append({'name': n, 'discharged': False, 'assumptions': [],
                                         'note': 'Print Assumptions failed: ' + err[-300:]})
            return False, out + err
        parts = parse_marked(out)
        all_ok = True
        for n in names:
            txt = parts.get(n, '')
            if 'Closed under the global context' in txt:
                ax = []
            else:
                ax = [a for a in re.findall(r'^([A-Za-z0-9_.\']+)[ \t]*(?::|$)', txt, flags=re.M)
                      if a not in ('Axioms', 'Axioms:')]
            bad = [a for a in ax if a not in STDLIB_AXIOMS]
            disch = not bad and not hits
            all_ok = all_ok and disch
            self.obligations.append({'name': n, 'discharged': disch, 'assumptions': ax,
                                     'note': ('non-stdlib axioms: ' + ','.join(bad)) if bad else
                                     ('forbidden construct in development' if hits else '')})
        return all_ok, log

    def coqchk(self, props_rel, timeout=1500):
        """thorough tier: re-check the compiled property file and everything it
        depends on with the independent checker; record its context summary"""
        modname = 'FV.' + props_rel[:-2].replace('/', '.')
        rc, out, err, dt = sh(['coqchk', '-silent', '-o', '-Q', str(COQ), 'FV', modname],
                              timeout=timeout, cwd=COQ)
        txt = out + err
        summ = txt[txt.find('CONTEXT SUMMARY'):] if 'CONTEXT SUMMARY' in txt else txt[-800:]
        ok = rc == 0 and 'type-in-type: <none>' in summ and 'unsafe (co)fixpoints: <none>' in summ \
            and 'positivity is assumed: <none>' in summ
        self.notes['coqchk'] = {'ok': ok, 'wall_s': round(dt, 1), 'summary': summ[:3000]}
        self.log(f'coqchk {modname}: ok={ok} ({dt:.0f}s)')
        return ok

    def coq_eval(self, name, text, timeout=600):
        """compile a scratch file, return (rc, stdout, stderr)"""
        f = self.scratch / f'{name}.v'
        f.write_text(text)
        rc, out, err, dt = coqc_file(f, timeout=timeout)
        return rc, out, err

    # ---------------------------------------------------------- violations
    def violation(self, kind, case, expected, observed, theorem, found_input=True,
                  signature=None, what=''):
        """record a violation; returns True if it is a listed known finding"""
        signature = signature or {}
        for f in self.findings:
            if f.get('property') == self.pid and f.get('status') == 'open' and \
                    all(signature.get(k) == v for k, v in f.get('match', {}).items()):
                key = json.dumps(f.get('match'), sort_keys=True)
                if key not in [k for k, _ in self.known]:
                    self.known.append((key, f))
                    print(f"KNOWN-FINDING: property={self.pid} {f.get('what', '')}", flush=True)
                return True
        sk = json.dumps(signature, sort_keys=True) if signature else None
        if sk is not None:
            if sk in self._seen_sigs:
                self._seen_sigs[sk] += 1
                return False
            self._seen_sigs[sk] = 1
        self._n_replay += 1
        path = REPLAY / f'{self.pid}_{self._n_replay}.json'
        path.write_text(json.dumps({
            'property': self.pid, 'kind': kind, 'seed': self.seed, 'tier': self.tier,
            'case': case, 'expected': expected, 'observed': observed,
            'theorem_or_correspondence': theorem, 'signature': signature, 'what': what,
            'failing_input_found': bool(found_input),
            'replay_cmd': f'./check {self.pid} --replay {path}'}, indent=1, default=str))
        tail = '' if found_input else ' no-failing-input-found'
        print(f'VIOLATION property={self.pid} replay={path}{tail}', flush=True)
        self.violations.append(str(path))
        return False

    # ------------------------------------------------------------ evidence
    def finish(self):
        n_obl = len(self.obligations)
        n_dis = sum(1 for o in self.obligations if o['discharged'])
        axioms = sorted({a for o in self.obligations for a in o['assumptions']})
        cov = {
            'obligations': n_obl,
            'discharged': n_dis,
            'checker_cmd': self.checker_cmd,
            'trusted_base': [
                'Coq 8.16.1 kernel + vm_compute (no native_compute)',
                'axioms reported by Print Assumptions: ' + (', '.join(axioms) if axioms else
                                                           'none (closed under the global context)'),
            ] + self.trusted,
            'theorems': self.obligations,
            'evaluations': self.evaluations,
            'distinct_nontrivial': len(self.nontrivial),
            'rule': self.rule,
            'samples': self.samples or [{'note': 'no case was generated in this run'}],
            'correspondence': self.corr,
            'input_distribution': self.dist,
            'source_regions_sha256': self.sources,
            'exhaustive': self.exhaustive,
            'known_findings_reported': [f for _, f in self.known],
            'violation_signatures': self._seen_sigs,
        }
        cov.update(self.notes)
        ev = {
            'property_id': self.pid,
            'tier': self.tier,
            'seed': self.seed,
            'level': 'proof',
            'coverage': cov,
            'assumptions': self.assumptions,
            'wall_s': round(time.time() - self.t0, 2),
            'violations': len(self.violations),
        }
        # evidence/ only ever describes runs against /repo itself; runs against a
        # scratch tree (FEMIO_REPO, seeded-defect tests) are kept apart
        evdir = EVID if str(REPO) == '/repo' else BUILD / 'evidence_other_tree'
        evdir.mkdir(exist_ok=True)
        ev['coverage']['tree_under_test'] = str(REPO)
        (evdir / f'{self.pid}.json').write_text(json.dumps(ev, indent=1, default=str))
        self.log(f'obligations {n_dis}/{n_obl}, cases {self.evaluations}, '
                 f'violations {len(self.violations)}, known {len(self.known)}')
        return 1 if self.violations else 0
